"""Engine E: sibling / dispatch / argument-role agreement (DESIGN 4.4).

Soundness audit (every VIOLATED verdict / every fact a caller may turn into one carries an `# AUDIT:` comment with the
assumptions it rests on and how they are checked).  Three-valued throughout: what the engine does not model (star / double-star
arguments, callees with *args / **kwargs / keyword-only / positional-only parameters, signature-changing decorators, renamed
parameters, tests that are not the flag, arms that are not one call) is UNDECIDED, never VIOLATED.
"""
from __future__ import annotations

import ast
import re

from .core import src, AnalysisError, parent


# ------------------------------------------------------------------------------------------------ binding of actuals to formals
def bind_call(call: ast.Call, formals: list[str]):
    """-> dict formal -> actual node (positional then keyword); None when the call was NOT BOUND.
    AUDIT: None is not the fact "the call raises TypeError": it is returned both for a misfit (too many positional arguments, a
    keyword that is no formal, a formal bound twice) and for argument lists the binder does not follow (`*seq`, `**map`).  A caller
    that wants to tell the two apart uses `bind_status`, which also looks at the callee's definition when it is given."""
    out = {}
    if len(call.args) > len(formals):
        return None
    for f, a in zip(formals, call.args):
        if isinstance(a, ast.Starred):
            return None
        out[f] = a
    for k in call.keywords:
        if k.arg is None or k.arg not in formals or k.arg in out:
            return None
        out[k.arg] = k.value
    return out


# decorators known to leave the signature of the decorated function as written (pyccel / numba / functools)
_SIGNATURE_PRESERVING = {"types", "pure", "stack_array", "inline", "allow_negative_index", "njit", "jit", "vectorize", "lru_cache", "cache",
                         "wraps", "staticmethod", "classmethod", "abstractmethod", "export", "template", "elemental", "private", "sympy", "bypass", "python"}


def signature_gaps(callee) -> list[str]:
    """what makes the list `[a.arg for a in callee.args.args]` an incomplete description of how `callee` binds its arguments"""
    gaps = []
    a = callee.args
    if a.vararg is not None:
        gaps.append(f"`*{a.vararg.arg}` takes any number of positional arguments")
    if a.kwarg is not None:
        gaps.append(f"`**{a.kwarg.arg}` takes any keyword")
    if a.kwonlyargs:
        gaps.append(f"keyword-only parameters {[x.arg for x in a.kwonlyargs]}")
    if getattr(a, "posonlyargs", None):
        gaps.append(f"positional-only parameters {[x.arg for x in a.posonlyargs]}")
    for d in callee.decorator_list:
        f = d.func if isinstance(d, ast.Call) else d
        if src(f).split(".")[-1] not in _SIGNATURE_PRESERVING:
            gaps.append(f"decorator `@{src(f)}` may replace the signature")
    return gaps


def required_formals(callee) -> list[str]:
    args = callee.args.args
    nd = len(callee.args.defaults)
    return [a.arg for a in (args[:len(args) - nd] if nd else args)]


def bind_status(call: ast.Call, formals: list[str], callee=None):
    """three-valued binding -> (status, binding or None, why)
       'bound'   : every actual binds the formal given in the dict
       'misfit'  : the call as written raises TypeError whatever the values are
       'unknown' : not followed
    AUDIT of 'misfit': true iff (1) every actual is written out (no `*seq` / `**map`: their length / keys are values); (2) `formals`
    is the COMPLETE list of ways the callee accepts arguments: no *args (excess positionals), no **kwargs / keyword-only parameters
    (keywords outside the list), no positional-only parameters, no decorator that may replace the signature.  (2) is checked on
    `callee` when given; without it (2) is the caller's contract and `established` in the third component says so."""
    if any(isinstance(a, ast.Starred) for a in call.args) or any(k.arg is None for k in call.keywords):
        return "unknown", None, "arguments are handed over by * / ** expansion: how many there are and which parameter each binds is not followed"
    if callee is not None:
        own = [a.arg for a in callee.args.args]
        if own != list(formals) and own[1:] != list(formals):
            return "unknown", None, f"the parameter list {list(formals)} is not that of the definition of `{callee.name}` ({own})"
        gaps = signature_gaps(callee)
        if gaps:
            return "unknown", None, f"`{callee.name}`: {gaps[0]}: binding of the actuals not followed"
    if len(call.args) > len(formals):
        return "misfit", None, f"{len(call.args)} positional arguments for {len(formals)} parameters"
    out = dict(zip(formals, call.args))
    for k in call.keywords:
        if k.arg not in formals:
            return "misfit", None, f"keyword `{k.arg}` is no parameter ({list(formals)})"
        if k.arg in out:
            return "misfit", None, f"parameter `{k.arg}` receives two arguments"
        out[k.arg] = k.value
    return "bound", out, ""


def _find_callee(chk, call: ast.Call, formals):
    """the definition(s) the caller took `formals` from: functions named like the callee, in the modules loaded so far, whose plain
    parameter list is `formals` (with or without a leading self) -> list of FunctionDef"""
    name = call.func.id if isinstance(call.func, ast.Name) else call.func.attr if isinstance(call.func, ast.Attribute) else None
    if name is None:
        return []
    out = []
    try:
        mods = list(chk.repo._mods.values())
    except AttributeError:
        return []
    for m in mods:
        for q, f in m._index.items():
            if isinstance(f, (ast.FunctionDef, ast.AsyncFunctionDef)) and f.name == name:
                own = [a.arg for a in f.args.args]
                if own == list(formals) or own[1:] == list(formals):
                    out.append(f)
    return out


def check_roles(chk, rel, func, call: ast.Call, formals: list[str], table: dict, const_recv: str | None = None, callee=None):
    """every actual whose role is known binds the formal of that role.
    `table`: normalised actual source -> formal name; actuals `<const_recv>.X` bind formal X (case-insensitive).
    `callee` (optional): the FunctionDef `formals` was read from; when absent it is looked up among the loaded modules.
    -> (number of role obligations, formals without an actual), or None when the binding was not followed / does not fit."""
    name = src(call.func)
    callees = [callee] if callee is not None else _find_callee(chk, call, formals)
    status, b, why = bind_status(call, formals, callees[0] if callees else None)
    for other in callees[1:]:
        s2, _, w2 = bind_status(call, formals, other)
        if s2 != status:
            status, b, why = "unknown", None, f"the definitions of `{other.name}` disagree on how they take arguments ({w2 or why})"
    if status == "unknown":
        chk.ob("E2-argument-role", call, f"{name}(...)", None, why, file=rel, func=func)
        return None
    if status == "misfit":
        # AUDIT: "the call raises TypeError" - assumptions (1) all actuals written out, (2) `formals` is the complete signature: both
        # checked by bind_status on the callee's definition; when no definition with this parameter list is among the loaded modules
        # (2) cannot be established (the excess argument may go to *args, the keyword may be keyword-only) -> UNDECIDED
        ok = False if callees else None
        chk.ob("E2-arity", call, f"{name}(...)", ok, f"argument list does not fit the signature ({len(call.args)} "
               f"positional for {len(formals)} parameters)" +
               ("" if callees else f": {why}; but no definition of `{name}` with these parameters was found, so that the list is its complete "
                "signature (no *args / keyword-only parameters) is not established"), file=rel, func=func)
        return None
    missing = [f for f in formals if f not in b]
    actual_of = {f: src(a) for f, a in b.items()}
    lower = {f.lower(): f for f in formals}
    n = 0
    for f, a in b.items():
        s = actual_of[f]
        want = None
        if const_recv and s.startswith(const_recv + "."):
            x = s[len(const_recv) + 1:]
            want = lower.get(x.lower())
            if want is None:
                # AUDIT: the constant's role is the parameter named like it; the callee has none -> its position cannot be judged by name
                chk.ob("E2-argument-role", a, f"{name}: constant `{x}` <- {s}", None,
                       f"the callee has no parameter named like the constant `{x}` (parameters {list(formals)}): its position cannot be judged "
                       "by name", file=rel, func=func)
                continue
        elif s in table:
            want = table[s]
            if want not in formals:
                # AUDIT: roles are identified with parameter NAMES; a role name the signature does not have (parameter renamed) decides nothing
                chk.ob("E2-argument-role", a, f"{name}: role `{want}` <- {s}", None,
                       f"the callee has no parameter named `{want}` (parameters {list(formals)}): roles are identified by parameter names, "
                       "so the position of this actual cannot be judged", file=rel, func=func)
                continue
        else:
            continue
        ok = want == f
        n += 1
        if not ok and actual_of.get(want) == s:
            # AUDIT: "wrong position" means the actual sits in ANOTHER parameter's place; when the parameter of its role receives the very
            # same expression as well, this binding is an additional use of the value (a second view of the same storage), not an exchange
            chk.ob("E2-argument-role", a, f"{name}: {f} <- {s}", None,
                   f"actual `{s}` has role `{want}`, binds parameter `{want}` and parameter `{f}` as well: whether `{f}` may receive the same "
                   "value is not decided", file=rel, func=func)
            continue
        # AUDIT (VIOLATED): the actual `s` has role `want` (the caller's table / the constant's name), `want` IS a parameter of the callee
        # (checked above), the binding was established by bind_status (all actuals written out, complete signature) and `s` binds `f` != `want`
        chk.ob("E2-argument-role", a, f"{name}: {f} <- {s}", ok,
               f"actual `{s}` has role `{want}` and binds parameter `{f}`" +
               ("" if ok else " - arguments are in the wrong position"), file=rel, func=func)
    return n, missing


def _stem(name):
    for p in ("cu_", "nu_"):
        if name.startswith(p):
            return p, name[len(p):]
    return None, name


def _flag_test(test, arms, params):
    """`flag`, `not flag`, `flag is True`, `flag == True`, `flag is False`, `flag == False`, `flag is not True` ... -> (flag, (arm when set,
    arm when unset)) or (None, arms)"""
    for _ in range(4):
        if isinstance(test, ast.UnaryOp) and isinstance(test.op, ast.Not):
            test, arms = test.operand, (arms[1], arms[0])
            continue
        if isinstance(test, ast.Compare) and len(test.ops) == 1 and isinstance(test.comparators[0], ast.Constant) \
                and isinstance(test.comparators[0].value, bool) and isinstance(test.ops[0], (ast.Is, ast.Eq, ast.IsNot, ast.NotEq)):
            flip = (test.comparators[0].value is False) != isinstance(test.ops[0], (ast.IsNot, ast.NotEq))
            test, arms = test.left, ((arms[1], arms[0]) if flip else arms)
            continue
        if isinstance(test, ast.Call) and isinstance(test.func, ast.Name) and test.func.id == "bool" and len(test.args) == 1 and not test.keywords:
            test = test.args[0]
            continue
        break
    if isinstance(test, ast.Name) and test.id in params:
        return test.id, arms
    return None, arms


def check_wrapper_dispatch(chk, mod, wrapper: str, general: str):
    """`if cubic_uniform_splines: general(args..., cu_X, cu_Y) else: general(args..., nu_X, nu_Y)`:
    both arms call the same general routine with identical arguments except a matched cu_/nu_ pair,
    and the forwarded arguments bind the general routine's formals of the same name.

    Three-valued.  HOLDS: the wrapper is one if/else on its flag parameter (or its negation), both arms are one call of the general
    routine with the same arguments except the evaluator arguments, which are the cu_ / nu_ members of one pair (cu_ on the arm taken
    when the flag is set), every forwarded parameter binds the general routine's parameter of the same name.
    VIOLATED only for recognised wrong forms, each true of the code as written:
      - an arm's call does not fit the signature of the general routine (TypeError when that arm runs);
      - the arms hand different parameters of the wrapper over for the same parameter (both families must get the same data);
      - the two evaluators of one position are not the cu_/nu_ pair of one stem, or the cu_ member sits on the arm of the general basis;
      - a forwarded parameter `p` binds a parameter of another name although the general routine HAS a parameter `p` (crossed
        arguments; when it has none the parameter was renamed: names do not identify roles then -> UNDECIDED).
    Any other shape (test that is not the flag or its negation, arm that is not a single call, */** arguments, a general routine with
    *args / **kwargs / keyword-only parameters, statements next to the if that rebind what the arms read) is UNDECIDED."""
    rel = mod.rel
    fn = mod.func(wrapper)
    g = mod.func(general)
    chk.functions.add(f"{rel}:{wrapper}")
    ifs = [n for n in fn.body if isinstance(n, ast.If)]
    if len(ifs) != 1:
        raise AnalysisError(f"dispatch wrapper {wrapper} is not a single if/else")
    node = ifs[0]
    label = f"{wrapper} -> {general}"

    def undecided(why):
        chk.ob("E1-dispatch", node, label, None, why, file=rel, func=wrapper)
    wparams = [a.arg for a in fn.args.args] + [a.arg for a in fn.args.kwonlyargs]
    # AUDIT (all verdicts): the names the arms read are the wrapper's parameters as passed by the caller - nothing before the `if` rebinds
    # a parameter or a cu_/nu_ name, and the `if` is the wrapper's only statement besides docstrings / imports / returns after it
    for st in fn.body:
        if st is node:
            break
        if isinstance(st, ast.Expr) and isinstance(st.value, ast.Constant):
            continue
        if isinstance(st, (ast.Import, ast.ImportFrom)):
            continue
        return undecided(f"`{src(st).splitlines()[0][:60]}` (line {st.lineno}) runs before the dispatch: what the arms read is not the "
                         "wrapper's own arguments any more, not followed")
    flag, arms = _flag_test(node.test, (node.body, node.orelse), wparams)
    if flag is None:
        return undecided(f"the test `{src(node.test)}` is not the flag parameter of the wrapper (or its negation): which family runs when is not followed")
    calls = []
    for arm in arms:
        cs = [s.value for s in arm if isinstance(s, (ast.Expr, ast.Return)) and isinstance(s.value, ast.Call)]
        if len(cs) != 1 or len(arm) != 1:
            return undecided("an arm of the dispatch is not a single call: not followed")
        calls.append(cs[0])
    gformals = [x.arg for x in g.args.args]
    if any(src(c.func) != general for c in calls):
        return undecided(f"the arms call `{src(calls[0].func)}` / `{src(calls[1].func)}`, not both `{general}`: not followed")
    stats = [bind_status(c, gformals, g) for c in calls]
    if any(s[0] == "unknown" for s in stats):
        return undecided(next(s[2] for s in stats if s[0] == "unknown"))
    if any(s[0] == "misfit" for s in stats):
        # AUDIT: TypeError of the arm - all actuals written out and complete signature, both checked by bind_status on `g`
        chk.ob("E1-dispatch", node, label, False,
               f"a call of `{general}` does not fit its signature ({next(s[2] for s in stats if s[0] == 'misfit')}; "
               f"{len(calls[0].args)}/{len(calls[1].args)} positional arguments, {len(gformals)} parameters {gformals}): TypeError when this arm runs",
               file=rel, func=wrapper)
        return
    a, b = stats[0][1], stats[1][1]
    detail, unknown = [], []
    required = set(required_formals(g))
    if set(a) != set(b):
        # one arm relies on a default the other overrides: whether the default is the value the other arm passes is not compared
        unknown.append(f"the arms bind different parameters: {sorted(set(a) ^ set(b))} are given on one arm only")
    lack = [f for f in gformals if f in required and (f not in a or f not in b)]
    if lack:
        # AUDIT: a required parameter (no default in `g`, complete signature) without an actual: TypeError when the arm runs
        detail.append(f"parameters {lack} of `{general}` have no default and receive no argument on an arm: TypeError when that arm runs")
    stems = {(_stem(n.id)[1]) for c in calls for n in ast.walk(c) if isinstance(n, ast.Name) and _stem(n.id)[0]}
    for f in [f_ for f_ in gformals if f_ in a and f_ in b]:
        x, y = a[f], b[f]
        sx, sy = src(x), src(y)
        if sx == sy:
            if isinstance(x, ast.Name) and x.id != f and not _stem(x.id)[0]:
                if x.id in wparams and x.id in gformals:
                    # AUDIT: wrapper and general routine both have a parameter `x`; the wrapper's `x` is handed to another parameter
                    detail.append(f"`{sx}` is forwarded to parameter `{f}` although `{general}` has a parameter `{sx}`: crossed arguments")
                elif x.id in wparams:
                    unknown.append(f"`{sx}` is forwarded to parameter `{f}`: `{general}` has no parameter `{sx}` (renamed?), roles not decided by name")
                else:
                    unknown.append(f"`{sx}`, which is not a parameter of the wrapper, is forwarded to parameter `{f}`: its role is not known")
            elif isinstance(x, ast.Name) and _stem(x.id)[0] == "cu_":
                # AUDIT: the cu_ routines assume a cubic uniform basis (C07); handed over on the arm of the general basis as well, they
                # run on a basis they were not written for
                detail.append(f"both arms hand `{sx}` to parameter `{f}`: the flag does not select the evaluator, the general basis is "
                              "evaluated with the routine that assumes a cubic uniform one")
            elif isinstance(x, ast.Name) and _stem(x.id)[0] == "nu_":
                # the general routine is valid for every basis: no wrong value follows, only the fast path is not taken
                unknown.append(f"both arms hand `{sx}` to parameter `{f}`: the fast path is not taken; the general evaluator is valid for both "
                               "families, so no wrong value follows from this alone")
            continue
        px, stx = _stem(sx)
        py, sty = _stem(sy)
        if px is None and py is None:
            if isinstance(x, ast.Name) and isinstance(y, ast.Name) and x.id in wparams and y.id in wparams:
                detail.append(f"arms differ at parameter `{f}`: `{sx}` vs `{sy}` - the two spline families are handed different arguments of the "
                              "wrapper for the same parameter")
            else:
                # family-specific derived data (e.g. a quantity read off each family's own knot layout): whether the two expressions
                # denote the same quantity needs the layout of the data, which this rule does not model
                unknown.append(f"arms differ at parameter `{f}`: `{sx}` vs `{sy}` are computed per family: whether both denote the same quantity "
                               "is not decided")
        elif not (isinstance(x, ast.Name) and isinstance(y, ast.Name)):
            unknown.append(f"arms differ at parameter `{f}`: `{sx}` vs `{sy}` are not plain evaluator names: not followed")
        elif px is None or py is None:
            unknown.append(f"arms differ at parameter `{f}`: `{sx}` vs `{sy}`: one of them does not carry the cu_/nu_ prefix, its family is "
                           "not known by name")
        elif not (px == "cu_" and py == "nu_" and stx == sty):
            # AUDIT: both names carry a family prefix; either the cu_ member sits on the arm of the general basis, or the two are
            # different evaluators (different stems), or both are of one family
            detail.append(f"arms differ at parameter `{f}`: `{sx}` (uniform-cubic arm) vs `{sy}` (general arm): expected the cu_/nu_ members of one evaluator")
        elif f != stx:
            if f in stems:
                detail.append(f"the evaluator pair `{sx}`/`{sy}` binds parameter `{f}`, which is the name of another evaluator of this dispatch")
            else:
                unknown.append(f"the evaluator pair `{sx}`/`{sy}` binds parameter `{f}` (not named after the evaluator): role not decided by name")
    ok = False if detail else (None if unknown else True)
    chk.ob("E1-dispatch", node, label, ok,
           "both families get the same arguments in the same order; the evaluator pair is matched cu_/nu_ of one stem; "
           "the fast path is taken iff the basis is cubic uniform" if ok else "; ".join(detail + unknown), file=rel, func=wrapper)


def dispatch_sites(fn: ast.FunctionDef):
    """`if <x>.cubic_uniform: cu_f(args) else: nu_f(args)` sites in a function"""
    out = []
    for n in ast.walk(fn):
        if isinstance(n, ast.If) and re.search(r"cubic_uniform", src(n.test)) and len(n.body) == 1 and len(n.orelse) == 1:
            def call_of(st):
                v = getattr(st, "value", None)
                return v if isinstance(v, ast.Call) else None
            ca, cb = call_of(n.body[0]), call_of(n.orelse[0])
            if ca is not None and cb is not None and isinstance(ca.func, ast.Name) and isinstance(cb.func, ast.Name):
                out.append((n, ca, cb))
    return out


def check_dispatch_site(chk, rel, func, node, ca, cb, sigs):
    """three-valued.  VIOLATED for: the arms call two routines that both carry a cu_/nu_ prefix and are not the (cu_, nu_) pair of one
    stem on the (test true, test false) arms while the test is a plain `<x>.cubic_uniform` attribute / name (not negated); argument
    lists that, bound to the two known and agreeing signatures, give a parameter different actuals.  Everything else that is not the
    recognised good form is UNDECIDED."""
    pa, sa = _stem(ca.func.id)
    pb, sb = _stem(cb.func.id)
    ok = pa == "cu_" and pb == "nu_" and sa == sb
    bad, und = [], []
    # AUDIT: which arm is the fast one is read off the test: only a plain name / attribute chain ending in a `cubic_uniform` name is
    # known to be true exactly for the uniform cubic basis; negations, comparisons, conjunctions are not interpreted
    plain_test = isinstance(node.test, (ast.Name, ast.Attribute)) and "cubic_uniform" in src(node.test).split(".")[-1]
    if not ok:
        msg = f"arms call `{ca.func.id}` / `{cb.func.id}`: not the cu_/nu_ pair of one routine on the (fast, general) arms"
        (bad if (pa and pb and plain_test) else und).append(msg)
    elif not plain_test:
        und.append(f"the test `{src(node.test)}` is not a plain cubic_uniform flag: which arm is the fast one is not followed")
    # same statement shape (both assign to the same target or both are expression statements)
    ta = src(node.body[0].targets[0]) if isinstance(node.body[0], ast.Assign) else None
    tb = src(node.orelse[0].targets[0]) if isinstance(node.orelse[0], ast.Assign) else None
    if ta != tb or type(node.body[0]) is not type(node.orelse[0]):
        # what happens to the two results afterwards is not followed
        und.append(f"results go to different targets `{ta}` / `{tb}`")
    fa, fb = sigs.get(ca.func.id), sigs.get(cb.func.id)
    la = [src(x) for x in ca.args], [(k.arg, src(k.value)) for k in ca.keywords]
    lb = [src(x) for x in cb.args], [(k.arg, src(k.value)) for k in cb.keywords]
    sig_ok = fa is not None and fb is not None
    if sig_ok and ([x[0] for x in fa] != [x[0] for x in fb] or [x[1] for x in fa] != [x[1] for x in fb]):
        # AUDIT: parameter names / defaults of the two definitions differ: a renamed parameter is no defect by itself
        und.append(f"signatures of the pair differ: {fa} vs {fb}")
        sig_ok = False
    if la != lb:
        # AUDIT: "the families get different arguments" is decided parameter by parameter through the (agreeing, complete) signatures;
        # positional on one arm and keyword on the other is the same call
        sa_, ba, _ = bind_status(ca, [x[0] for x in fa], None) if sig_ok else ("unknown", None, "")
        sb_, bb, _ = bind_status(cb, [x[0] for x in fb], None) if sig_ok else ("unknown", None, "")
        if sa_ == sb_ == "bound":
            diff = [f for f in set(ba) | set(bb) if f not in ba or f not in bb or src(ba[f]) != src(bb[f])]
            if diff:
                (bad if all(f in ba and f in bb for f in diff) else und).append(
                    f"argument lists differ between the two families at parameters {sorted(diff)}")
        else:
            und.append("argument lists of the two arms are written differently and cannot be matched to the signatures")
    verdict = False if bad else (None if und else True)
    chk.ob("E1-dispatch", node, f"{ca.func.id}/{cb.func.id}", verdict,
           "matched cu_/nu_ pair, identical arguments, agreeing signatures" if verdict else "; ".join(bad + und),
           file=rel, func=func)


def signature(fn: ast.FunctionDef):
    """-> [(parameter, default source or None)] of the plain parameters; None when the function also takes arguments in ways this list
    cannot express (*args, **kwargs, keyword-only, positional-only parameters)
    AUDIT: callers bind call sites against this list and compare the lists of sibling routines; an incomplete list would turn a
    legal keyword / extra positional argument into a 'does not fit' -> such a signature is reported as not available."""
    a = fn.args
    if a.vararg is not None or a.kwarg is not None or a.kwonlyargs or getattr(a, "posonlyargs", None):
        return None
    args = a.args
    nd = len(a.defaults)
    out = []
    for i, x in enumerate(args):
        d = None
        if i >= len(args) - nd:
            d = src(a.defaults[i - (len(args) - nd)])
        out.append((x.arg, d))
    return out
