import sys, os; sys.path.insert(0, os.getcwd())
import numpy as np
from scipy.interpolate import BSpline
import pygyro
assert os.path.abspath(pygyro.__file__).startswith(os.path.abspath(os.getcwd()) + os.sep), pygyro.__file__
from pygyro.splines.splines import make_knots, BSplines, Spline2D
from pygyro.splines.spline_interpolators import SplineInterpolator2D

# 2-D interpolation, S(x1_i, x2_j) = u_ij, for a sequence of data sets given to
# ONE interpolator.  The first data set of the sequence is integer valued and
# held in an integer array (a 0/1 mask, a cell counter), or in single
# precision; the following ones are ordinary float64 arrays.
rng = np.random.default_rng(11)


def space(ncells, degree, periodic):
    breaks = np.sort(np.r_[0.0, 3.0, rng.uniform(0.0, 3.0, ncells - 1)])
    knots = make_knots(breaks, degree, periodic)
    return BSplines(knots.copy(), degree, periodic, False), knots


def ref_values(spl, k1, d1, k2, d2, x1, x2):
    c = spl.coeffs
    tmp = np.array([BSpline(k2, c[i, :].copy(), d2)(x2) for i in range(c.shape[0])])
    return np.array([BSpline(k1, tmp[:, j].copy(), d1)(x1) for j in range(len(x2))]).T


worst = 0.0
report = []
for per1 in (False, True):
    for per2 in (False, True):
        for first in ('int64 mask', 'float32', 'float64'):
            b1, k1 = space(6, 3, per1)
            b2, k2 = space(9, 2, per2)
            x1, x2 = np.array(b1.greville), np.array(b2.greville)
            n1, n2 = b1.nbasis, b2.nbasis
            interp = SplineInterpolator2D(b1, b2)
            spl = Spline2D(b1, b2)
            if first == 'int64 mask':
                u0 = (rng.uniform(size=(n1, n2)) < 0.5).astype(np.int64)
            elif first == 'float32':
                u0 = rng.standard_normal((n1, n2)).astype(np.float32)
            else:
                u0 = rng.standard_normal((n1, n2))
            seq = [u0, rng.standard_normal((n1, n2)), 1e6 * rng.standard_normal((n1, n2))]
            for k, ug in enumerate(seq):
                interp.compute_interpolant(ug, spl)
                scale = max(1.0, abs(ug).max())
                e_lib = abs(spl.eval(x1, x2) - ug).max() / scale
                e_ref = abs(ref_values(spl, k1, 3, k2, 2, x1, x2) - ug).max() / scale
                err = max(e_lib, e_ref)
                worst = max(worst, err)
                if err > 1e-11:
                    report.append((per1, per2, first, 'call %d' % k, ug.dtype.name, '%.2e' % err))
print("worst relative |S(x_i, y_j) - u_ij| = %.3e" % worst)
if report:
    for r in report[:12]:
        print("  violated:", r)
    print("PROPERTY VIOLATED (%d data sets)" % len(report))
    sys.exit(1)
print("property holds")
sys.exit(0)
