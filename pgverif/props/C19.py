"""C19 - accelerated kernels compute the same results as the pure-Python reference.

Decides: the documented build front end accepts the five kernels of the working tree
(compile-fail witness: pyccel translation on a scratch copy); every library call site of a
kernel fits its signature; the numba/pythran source copies define what their consumers import,
bind the calls written for the reference the same way (V1), declare export signatures of the
function's arity and of the reference's argument types (V2), the duplicated copies agree (V3),
no copy writes an array the reference declares Final (V5), and every variant body (V4) is
 - AST-identical to the reference (decorators, annotations, docstrings, imports stripped), or
 - identical in canonical form (single-assignment temporaries / hoisted invariants / module
   constants written back, result variable vs early return, `if` arms with one body,
   enumerate vs range loops, shape unpacking, `+=`, literal negative indices, operand order), or
 - proved equal to the same specification formula as the reference (engine F), or
 - statement for statement the same with every differing expression equal as a rational
   function of its operands;
a body with the same statements and a recognisably different expression is VIOLATED (the
diagnosis names the two expressions), anything else is UNDECIDED - never silently accepted.
K1: no index that interpreted Python would wrap around and compiled code would not (X - Y % n,
one-sided or single-step range correction of a difference, unreduced difference of array data,
index counted from the end by a variable); K2: no loop counter read after its loop.
Numerical equality of compiled and interpreted results is inherently dynamic: not decided.
"""
from __future__ import annotations

import ast
import os
import re
import shutil
import subprocess
import tempfile
from concurrent.futures import ThreadPoolExecutor

from ..core import src, AnalysisError, parent, REPO
from .. import units as U
from .. import agree
from ..symx import Undecided

BUILD_ORDER = [U.NU, U.CU, U.INITF, U.ADVK, U.PTOOLS]


def norm_fn(fn: ast.FunctionDef) -> str:
    f = ast.parse(ast.unparse(fn)).body[0]
    f.decorator_list = []
    f.returns = None
    for a in f.args.args + f.args.kwonlyargs:
        a.annotation = None
    if f.body and isinstance(f.body[0], ast.Expr) and isinstance(f.body[0].value, ast.Constant) and isinstance(f.body[0].value.value, str):
        f.body = f.body[1:] or [ast.Pass()]
    f.body = [s for s in f.body if not isinstance(s, (ast.Import, ast.ImportFrom))] or [ast.Pass()]
    return ast.dump(f)


# ---------------------------------------------------------------------------------------------------------
# canonical form of a kernel body (engine-free, semantics-preserving source-to-source steps applied to BOTH
# sides of a comparison): undoes hoisted invariants / common-subexpression temporaries, result variables,
# shape unpacking, merged or split `if` arms with the same body, augmented assignments, operand order.
# ---------------------------------------------------------------------------------------------------------

_MATH_PURE = {"exp", "sqrt", "abs", "int", "float", "real", "floor", "ceil", "tanh", "cos", "sin", "tan", "min", "max", "len",
              "log", "arctan2", "arccos", "arcsin", "mod", "fabs"}


# calls that do not write into their arguments (but are not values to be duplicated: allocation, iteration)
_NO_WRITE = {"range", "enumerate", "zip", "empty", "zeros", "ones", "empty_like", "zeros_like", "ones_like", "print"}


def pure_functions(chk):
    """kernel functions that only compute a value: no store into a parameter, no procedure-style call statement"""
    flags: dict[str, list] = {}
    for k in list(U.KERNELS) + [v for vs in U.VARIANTS.values() for v in vs]:
        for q, fn in chk.mod(k).functions().items():
            if "." in q:
                continue
            params = {a.arg for a in fn.args.args}
            writes = False
            for n in ast.walk(fn):
                if isinstance(n, (ast.Subscript, ast.Attribute)) and isinstance(n.ctx, ast.Store):
                    b = n
                    while isinstance(b, (ast.Subscript, ast.Attribute)):
                        b = b.value
                    if isinstance(b, ast.Name) and b.id in params:
                        writes = True
                elif isinstance(n, ast.Expr) and isinstance(n.value, ast.Call):
                    writes = True
                elif isinstance(n, (ast.Global, ast.Nonlocal)):
                    writes = True
            has_value = any(isinstance(n, ast.Return) and n.value is not None for n in ast.walk(fn))
            flags.setdefault(q, []).append(has_value and not writes)
    # a name counts as pure only when every definition of it (reference and copies) is
    return set(_MATH_PURE) | {q for q, fl in flags.items() if all(fl)}


def _strip(fn: ast.FunctionDef) -> ast.FunctionDef:
    f = ast.parse(ast.unparse(fn)).body[0]
    f.decorator_list = []
    f.returns = None
    for a in f.args.args + f.args.kwonlyargs:
        a.annotation = None

    class T(ast.NodeTransformer):
        def visit_AnnAssign(self, n):
            self.generic_visit(n)
            if n.value is None:
                return None
            return ast.Assign(targets=[n.target], value=n.value)

        def visit_AugAssign(self, n):
            self.generic_visit(n)
            tl = ast.parse(ast.unparse(n.target), mode="eval").body
            return ast.Assign(targets=[n.target], value=ast.BinOp(left=tl, op=n.op, right=n.value))

        def visit_Call(self, n):
            self.generic_visit(n)
            # len(X) of an array is its first extent; range(0, n) is range(n)
            if isinstance(n.func, ast.Name) and n.func.id == "len" and len(n.args) == 1 and isinstance(n.args[0], ast.Name) and not n.keywords:
                return ast.Subscript(value=ast.Attribute(value=n.args[0], attr="shape", ctx=ast.Load()), slice=ast.Constant(0), ctx=ast.Load())
            if isinstance(n.func, ast.Name) and n.func.id == "range" and len(n.args) == 2 and isinstance(n.args[0], ast.Constant) \
                    and n.args[0].value == 0:
                n.args = [n.args[1]]
            return n

        def visit_Subscript(self, n):
            self.generic_visit(n)
            # a literal negative index counts from the end (both Python and pyccel): X[-c] is X[X.shape[k] - c]
            if isinstance(n.value, ast.Name):
                items = n.slice.elts if isinstance(n.slice, ast.Tuple) else [n.slice]
                new = []
                for k, it in enumerate(items):
                    c = None
                    if isinstance(it, ast.UnaryOp) and isinstance(it.op, ast.USub) and isinstance(it.operand, ast.Constant) \
                            and isinstance(it.operand.value, int) and it.operand.value > 0:
                        c = it.operand.value
                    elif isinstance(it, ast.Constant) and isinstance(it.value, int) and not isinstance(it.value, bool) and it.value < 0:
                        c = -it.value
                    if c is not None:
                        it = ast.BinOp(left=ast.Subscript(value=ast.Attribute(value=ast.Name(id=n.value.id, ctx=ast.Load()), attr="shape",
                                                                               ctx=ast.Load()), slice=ast.Constant(k), ctx=ast.Load()),
                                       op=ast.Sub(), right=ast.Constant(c))
                    new.append(it)
                if isinstance(n.slice, ast.Tuple):
                    n.slice.elts = new
                else:
                    n.slice = new[0]
            return n

        def visit_Compare(self, n):
            self.generic_visit(n)
            if len(n.ops) == 1 and isinstance(n.ops[0], (ast.Gt, ast.GtE)):
                return ast.Compare(left=n.comparators[0], ops=[ast.Lt() if isinstance(n.ops[0], ast.Gt) else ast.LtE()], comparators=[n.left])
            return n
    f = T().visit(f)

    def clean(body):
        out = []
        for st in body:
            if isinstance(st, (ast.Import, ast.ImportFrom, ast.Pass)) or _is_docstring(st):
                continue
            # a, b = X.shape  ->  a = X.shape[0]; b = X.shape[1]
            if isinstance(st, ast.Assign) and len(st.targets) == 1 and isinstance(st.targets[0], ast.Tuple) \
                    and all(isinstance(e, ast.Name) for e in st.targets[0].elts) and isinstance(st.value, ast.Attribute) \
                    and st.value.attr == "shape" and isinstance(st.value.value, ast.Name):
                for k, e in enumerate(st.targets[0].elts):
                    out.append(ast.Assign(targets=[ast.Name(id=e.id, ctx=ast.Store())],
                                          value=ast.Subscript(value=ast.Attribute(value=ast.Name(id=st.value.value.id, ctx=ast.Load()),
                                                                                  attr="shape", ctx=ast.Load()),
                                                              slice=ast.Constant(k), ctx=ast.Load())))
                continue
            for fld in ("body", "orelse", "finalbody"):
                b = getattr(st, fld, None)
                if isinstance(b, list) and (not b or isinstance(b[0], ast.stmt)):
                    setattr(st, fld, clean(b))
            if isinstance(st, (ast.For, ast.While, ast.If)) and not st.body:
                st.body = [ast.Pass()]
            # for i, v in enumerate(X): ...   ->   for i in range(X.shape[0]): v = X[i]; ...
            if isinstance(st, ast.For) and isinstance(st.iter, ast.Call) and isinstance(st.iter.func, ast.Name) and st.iter.func.id == "enumerate" \
                    and len(st.iter.args) == 1 and not st.iter.keywords and isinstance(st.iter.args[0], ast.Name) \
                    and isinstance(st.target, ast.Tuple) and len(st.target.elts) == 2 and all(isinstance(e, ast.Name) for e in st.target.elts) \
                    and not st.orelse:
                cnt, elt, arr = st.target.elts[0].id, st.target.elts[1].id, st.iter.args[0].id
                fetch = ast.Assign(targets=[ast.Name(id=elt, ctx=ast.Store())],
                                   value=ast.Subscript(value=ast.Name(id=arr, ctx=ast.Load()), slice=ast.Name(id=cnt, ctx=ast.Load()), ctx=ast.Load()))
                st = ast.For(target=ast.Name(id=cnt, ctx=ast.Store()),
                             iter=ast.Call(func=ast.Name(id="range", ctx=ast.Load()),
                                           args=[ast.Subscript(value=ast.Attribute(value=ast.Name(id=arr, ctx=ast.Load()), attr="shape", ctx=ast.Load()),
                                                               slice=ast.Constant(0), ctx=ast.Load())], keywords=[]),
                             body=[fetch] + st.body, orelse=[])
            # if not c: A else: B   ->   if c: B else: A
            if isinstance(st, ast.If) and isinstance(st.test, ast.UnaryOp) and isinstance(st.test.op, ast.Not) and st.orelse \
                    and not (len(st.orelse) == 1 and isinstance(st.orelse[0], ast.If)):
                st = ast.If(test=st.test.operand, body=st.orelse, orelse=st.body)
            out.append(st)
        return out
    f.body = clean(f.body) or [ast.Pass()]
    return ast.fix_missing_locations(f)


def _is_docstring(st):
    return isinstance(st, ast.Expr) and isinstance(st.value, ast.Constant) and isinstance(st.value.value, str)


def _terminates(block):
    return bool(block) and isinstance(block[-1], (ast.Return, ast.Raise))


def _wrap_loops(block):
    """x = E; while x < 0: x += n; while x >= n: x -= n  (either order)  is  x = E % n  for a positive period n"""
    def shape(w, x):
        if not (isinstance(w, ast.While) and not w.orelse and len(w.body) == 1 and isinstance(w.body[0], ast.Assign)
                and len(w.body[0].targets) == 1 and isinstance(w.body[0].targets[0], ast.Name) and w.body[0].targets[0].id == x
                and isinstance(w.body[0].value, ast.BinOp) and isinstance(w.body[0].value.left, ast.Name) and w.body[0].value.left.id == x
                and isinstance(w.test, ast.Compare) and len(w.test.ops) == 1):
            return None
        n, op, t = w.body[0].value.right, w.body[0].value.op, w.test
        l, o, r = t.left, t.ops[0], t.comparators[0]
        if isinstance(op, ast.Add) and isinstance(o, ast.Lt) and isinstance(l, ast.Name) and l.id == x and src(r) == "0":
            return "low", src(n)
        if isinstance(op, ast.Sub) and isinstance(o, ast.LtE) and isinstance(r, ast.Name) and r.id == x and src(l) == src(n):
            return "high", src(n)        # x >= n was normalised to n <= x
        return None
    k = 0
    while k + 2 < len(block):
        a = block[k]
        if isinstance(a, ast.Assign) and len(a.targets) == 1 and isinstance(a.targets[0], ast.Name):
            x = a.targets[0].id
            s1, s2 = shape(block[k + 1], x), shape(block[k + 2], x)
            if s1 and s2 and {s1[0], s2[0]} == {"low", "high"} and s1[1] == s2[1] and x not in s1[1] \
                    and x not in {n.id for n in ast.walk(a.value) if isinstance(n, ast.Name)}:
                period = block[k + 1].body[0].value.right
                a.value = ast.BinOp(left=a.value, op=ast.Mod(), right=period)
                del block[k + 1:k + 3]
        k += 1
    for st in block:
        for fld in ("body", "orelse"):
            b = getattr(st, fld, None)
            if isinstance(b, list) and b and isinstance(b[0], ast.stmt):
                _wrap_loops(b)


def _accumulators(f):
    """acc = E0; <loop updating acc>; X[idx] = acc   ->   X[idx] = E0; <loop updating X[idx]>   when the loop touches neither X nor
    the operands of idx and acc lives in these three statements only: the scalar is a name for the cell"""
    count = {}
    for n in ast.walk(f):
        if isinstance(n, ast.Name):
            count[n.id] = count.get(n.id, 0) + 1

    def go(block):
        k = 0
        while k + 2 < len(block):
            a, lp, st = block[k], block[k + 1], block[k + 2]
            if isinstance(a, ast.Assign) and len(a.targets) == 1 and isinstance(a.targets[0], ast.Name) and isinstance(lp, (ast.For, ast.While)) \
                    and isinstance(st, ast.Assign) and len(st.targets) == 1 and isinstance(st.targets[0], ast.Subscript) \
                    and isinstance(st.targets[0].value, ast.Name) and isinstance(st.value, ast.Name) and st.value.id == a.targets[0].id:
                acc, cell = a.targets[0].id, st.targets[0]
                X = cell.value.id
                idx_names = {n.id for n in ast.walk(cell.slice) if isinstance(n, ast.Name)}
                inside = sum(1 for n in ast.walk(lp) if isinstance(n, ast.Name) and n.id == acc)
                stored_in_loop = {n.id for n in ast.walk(lp) if isinstance(n, ast.Name) and isinstance(n.ctx, ast.Store)}
                mentions_X = any(isinstance(n, ast.Name) and n.id == X for n in ast.walk(lp))
                calls = [c for c in ast.walk(lp) if isinstance(c, ast.Call) and any(isinstance(n, ast.Name) and n.id == acc for n in ast.walk(c))]
                simple_idx = all(isinstance(n, (ast.Name, ast.Constant, ast.Tuple, ast.BinOp, ast.operator, ast.expr_context, ast.UnaryOp, ast.unaryop))
                                 for n in ast.walk(cell.slice))
                leaves = any(isinstance(n, (ast.Return, ast.Raise)) for n in ast.walk(lp))
                if count.get(acc, 0) == inside + 2 and inside >= 2 and not mentions_X and not leaves and not (idx_names & stored_in_loop) and not calls \
                        and acc not in idx_names and simple_idx \
                        and acc not in {n.id for n in ast.walk(a.value) if isinstance(n, ast.Name)}:
                    class R(ast.NodeTransformer):
                        def visit_Name(self, n):
                            if n.id == acc:
                                c = ast.parse(ast.unparse(cell), mode="eval").body
                                c.ctx = ast.Store() if isinstance(n.ctx, ast.Store) else ast.Load()
                                return c
                            return n
                    block[k] = ast.Assign(targets=[ast.parse(ast.unparse(cell), mode="eval").body], value=a.value)
                    block[k].targets[0].ctx = ast.Store()
                    block[k + 1] = R().visit(lp)
                    del block[k + 2]
                    ast.fix_missing_locations(f)
            k += 1
        for s_ in block:
            for fld in ("body", "orelse"):
                b = getattr(s_, fld, None)
                if isinstance(b, list) and b and isinstance(b[0], ast.stmt):
                    go(b)
    go(f.body)


def _control(body, tail=True):
    """merge `if a: S elif b: S`; push a trailing `return x` into the arms of the preceding `if`; drop `else` after an arm
    that returns; `x = e; return x` -> `return e`"""
    out = []
    for st in body:
        for fld in ("body", "orelse"):
            b = getattr(st, fld, None)
            if isinstance(b, list) and b and isinstance(b[0], ast.stmt):
                setattr(st, fld, _control(b, tail=False))
        out.append(st)
    # same-body arms
    changed = True
    while changed:
        changed = False
        for st in out:
            if isinstance(st, ast.If) and len(st.orelse) == 1 and isinstance(st.orelse[0], ast.If) \
                    and ast.dump(ast.Module(body=st.body, type_ignores=[])) == ast.dump(ast.Module(body=st.orelse[0].body, type_ignores=[])):
                inner = st.orelse[0]
                tests = (st.test.values if isinstance(st.test, ast.BoolOp) and isinstance(st.test.op, ast.Or) else [st.test]) + \
                    (inner.test.values if isinstance(inner.test, ast.BoolOp) and isinstance(inner.test.op, ast.Or) else [inner.test])
                st.test = ast.BoolOp(op=ast.Or(), values=tests)
                st.orelse = inner.orelse
                changed = True
    if tail:
        out = _push_return(out)
    return out


def _push_return(block):
    """tail position of a function body"""
    if len(block) >= 2 and isinstance(block[-1], ast.Return) and isinstance(block[-2], ast.If) and block[-1].value is not None \
            and all(isinstance(n, (ast.Name, ast.Tuple, ast.Constant, ast.expr_context)) for n in ast.walk(block[-1].value)):
        iff, ret = block[-2], block[-1]
        iff.body = _push_return(iff.body + [ast.Return(value=ast.parse(ast.unparse(ret.value), mode="eval").body)])
        iff.orelse = _push_return(iff.orelse + [ast.Return(value=ast.parse(ast.unparse(ret.value), mode="eval").body)])
        block = block[:-1]
    # x = e; return x  ->  return e
    if len(block) >= 2 and isinstance(block[-1], ast.Return) and isinstance(block[-1].value, ast.Name) \
            and isinstance(block[-2], ast.Assign) and len(block[-2].targets) == 1 and isinstance(block[-2].targets[0], ast.Name) \
            and block[-2].targets[0].id == block[-1].value.id:
        block = block[:-2] + [ast.Return(value=block[-2].value)]
    # if c: ...return  else: B   ->  if c: ...return ; B
    if block and isinstance(block[-1], ast.If):
        iff = block[-1]
        iff.body = _push_return(iff.body)
        if _terminates(iff.body) and iff.orelse:
            rest = iff.orelse
            iff.orelse = []
            block = block + _push_return(rest)
        elif iff.orelse:
            iff.orelse = _push_return(iff.orelse)
    return block


def _seq(fn):
    """statements in textual order with their position, block and chain of enclosing (block, index)"""
    order = []

    def go(block, chain):
        for k, st in enumerate(block):
            order.append((st, chain + [(id(block), k)]))
            for fld in ("body", "orelse", "finalbody"):
                b = getattr(st, fld, None)
                if isinstance(b, list) and b and isinstance(b[0], ast.stmt):
                    go(b, chain + [(id(block), k)])
    go(fn.body, [])
    return order


def _inline_temps(f: ast.FunctionDef, pure: set):
    """write single-assignment locals with a side-effect-free value back into their uses (undoes hoisting of invariants
    and common-subexpression temporaries); iterated to a fixed point"""
    params = {a.arg for a in f.args.args}

    def scalar_pure(e):
        return all(isinstance(n, (ast.BinOp, ast.UnaryOp, ast.Name, ast.Constant, ast.operator, ast.unaryop, ast.expr_context, ast.Compare,
                                  ast.cmpop)) or (isinstance(n, ast.Call) and isinstance(n.func, ast.Name) and n.func.id in _MATH_PURE)
                   for n in ast.walk(e))

    def merge_rebinding(block):
        """x = A; x = B(x)  ->  x = B(A)   (adjacent statements, A a scalar expression)"""
        k = 0
        while k + 1 < len(block):
            a, b = block[k], block[k + 1]
            if isinstance(a, ast.Assign) and isinstance(b, ast.Assign) and len(a.targets) == 1 and len(b.targets) == 1 \
                    and isinstance(a.targets[0], ast.Name) and isinstance(b.targets[0], ast.Name) and a.targets[0].id == b.targets[0].id \
                    and scalar_pure(a.value) \
                    and a.targets[0].id not in {n.id for n in ast.walk(a.value) if isinstance(n, ast.Name)}:
                x, val = a.targets[0].id, a.value

                class S(ast.NodeTransformer):
                    def visit_Name(self, n):
                        if n.id == x and isinstance(n.ctx, ast.Load):
                            return ast.parse(ast.unparse(val), mode="eval").body
                        return n
                b.value = S().visit(b.value)
                del block[k]
                continue
            k += 1
        for st in block:
            for fld in ("body", "orelse", "finalbody"):
                bb = getattr(st, fld, None)
                if isinstance(bb, list) and bb and isinstance(bb[0], ast.stmt):
                    merge_rebinding(bb)
    merge_rebinding(f.body)
    for _round in range(400):
        order = _seq(f)
        pos = {id(st): k for k, (st, _) in enumerate(order)}
        chain_of = {id(st): ch for st, ch in order}
        stores: dict[str, list] = {}
        arr_written, proc_args = set(), set()
        for st, _ in order:
            tg = []
            if isinstance(st, ast.Assign):
                tg = st.targets
            elif isinstance(st, ast.For):
                tg = [st.target]
            for t in tg:
                for n in ast.walk(t):
                    if isinstance(n, ast.Name) and isinstance(n.ctx, ast.Store):
                        stores.setdefault(n.id, []).append(st)
                    elif isinstance(n, (ast.Subscript, ast.Attribute)) and isinstance(n.ctx, ast.Store):
                        b = n
                        while isinstance(b, (ast.Subscript, ast.Attribute)):
                            b = b.value
                        if isinstance(b, ast.Name):
                            arr_written.add(b.id)
            if isinstance(st, ast.Expr) and isinstance(st.value, ast.Call):
                for n in ast.walk(st.value):
                    if isinstance(n, ast.Name):
                        proc_args.add(n.id)
        # calls that are not known to be pure may write their array arguments
        for st, _ in order:
            for c in ast.walk(st):
                if isinstance(c, ast.Call) and not (isinstance(c.func, ast.Name) and (c.func.id in pure or c.func.id in _NO_WRITE)):
                    for a in list(c.args) + [k.value for k in c.keywords]:
                        for n in ast.walk(a):
                            if isinstance(n, ast.Name):
                                proc_args.add(n.id)

        # a view of an array (slice, bare alias) that is written or handed to a procedure: the array itself may change
        for _ in range(3):
            for st, _c in order:
                if isinstance(st, ast.Assign) and len(st.targets) == 1 and isinstance(st.targets[0], ast.Name):
                    y, val_ = st.targets[0].id, st.value
                    while isinstance(val_, (ast.Subscript, ast.Attribute)):
                        val_ = val_.value
                    if isinstance(val_, ast.Name) and val_.id != y:
                        if y in arr_written:
                            arr_written.add(val_.id)
                        if y in proc_args:
                            proc_args.add(val_.id)

        def pure_value(e):
            for n in ast.walk(e):
                if isinstance(n, ast.Call):
                    if not (isinstance(n.func, ast.Name) and n.func.id in pure):
                        return False
                elif isinstance(n, (ast.Lambda, ast.ListComp, ast.GeneratorExp, ast.DictComp, ast.SetComp, ast.Await, ast.Yield,
                                    ast.YieldFrom, ast.NamedExpr, ast.Starred, ast.List, ast.Dict, ast.Set)):
                    return False
                elif isinstance(n, ast.Subscript):
                    b = n
                    while isinstance(b, (ast.Subscript, ast.Attribute)):
                        b = b.value
                    if not isinstance(b, ast.Name):
                        return False
                    whole_shape = isinstance(n.value, ast.Attribute) and n.value.attr == "shape"
                    if not whole_shape and (b.id in arr_written or b.id in proc_args):
                        return False
                    if any(isinstance(s_, ast.Slice) for s_ in (n.slice.elts if isinstance(n.slice, ast.Tuple) else [n.slice])):
                        return False      # a slice is a view, not a value
            return True

        def tail_inline(block):
            """in a block that ends with `return`, `x = A` (A a value) is written into the statements that follow it"""
            if block and isinstance(block[-1], ast.Return):
                for k in range(len(block) - 2, -1, -1):
                    d = block[k]
                    if not (isinstance(d, ast.Assign) and len(d.targets) == 1 and isinstance(d.targets[0], ast.Name)):
                        continue
                    x = d.targets[0].id
                    ops = {n.id for n in ast.walk(d.value) if isinstance(n, ast.Name)}
                    rest = block[k + 1:]
                    if x in ops or x in arr_written or x in proc_args or not pure_value(d.value) \
                            or any(not isinstance(r, (ast.Assign, ast.Expr, ast.Return)) for r in rest):
                        continue
                    rebound = {n.id for r in rest if isinstance(r, ast.Assign) for t in r.targets for n in ast.walk(t)
                               if isinstance(n, ast.Name) and isinstance(n.ctx, ast.Store)}
                    if x in rebound or ops & rebound:
                        continue
                    val = d.value

                    class S(ast.NodeTransformer):
                        def visit_Name(self, n):
                            if n.id == x and isinstance(n.ctx, ast.Load):
                                return ast.parse(ast.unparse(val), mode="eval").body
                            return n
                    for r in rest:
                        for fld, e in _own_fields(r):
                            _set_field(r, fld, S().visit(e))
                    del block[k]
                    return True
            for st in block:
                for fld in ("body", "orelse"):
                    bb = getattr(st, fld, None)
                    if isinstance(bb, list) and bb and isinstance(bb[0], ast.stmt) and tail_inline(bb):
                        return True
            return False
        if tail_inline(f.body):
            ast.fix_missing_locations(f)
            continue
        done = False
        for name, sts in stores.items():
            if name in params or len(sts) != 1:
                continue
            d = sts[0]
            if not (isinstance(d, ast.Assign) and len(d.targets) == 1 and isinstance(d.targets[0], ast.Name)):
                continue
            if name in arr_written or name in proc_args:
                continue       # an array (allocated here, filled elsewhere), not a value
            if not pure_value(d.value) or name in {n.id for n in ast.walk(d.value) if isinstance(n, ast.Name)}:
                continue
            if not isinstance(d.value, (ast.Name, ast.Subscript)) and any(
                    isinstance(n, ast.Subscript) and isinstance(n.value, ast.Name) and n.value.id == name for n in ast.walk(f)):
                continue       # the result of whole-array arithmetic (it is indexed later): a new array, not a formula to repeat
            dpos = pos[id(d)]
            # operands are not re-bound after the definition
            operands = {n.id for n in ast.walk(d.value) if isinstance(n, ast.Name)}
            ok = not any(pos[id(s_)] > dpos for o in operands for s_ in stores.get(o, []))
            if not ok:
                continue
            # every use is dominated by the definition: it lies in the definition's block after it
            dchain = chain_of[id(d)]
            dblock, dk = dchain[-1]
            uses = []
            for st, ch in order:
                if st is d:
                    continue
                # names read by this statement itself (not by nested statements, which come separately)
                own = _own_exprs(st)
                if any(isinstance(n, ast.Name) and n.id == name for e in own for n in ast.walk(e)):
                    uses.append((st, ch))
                    if not _own_fields(st):
                        ok = False        # a statement kind the substitution does not handle
            for st, ch in uses:
                inside = any(b == dblock and k > dk for b, k in ch)
                if not inside:
                    ok = False
            if not ok:
                continue
            # substitute
            val = d.value

            class Sub(ast.NodeTransformer):
                def visit_Name(self, n):
                    if n.id == name and isinstance(n.ctx, ast.Load):
                        return ast.parse(ast.unparse(val), mode="eval").body
                    return n
            for st, ch in uses:
                for fld, e in _own_fields(st):
                    new = Sub().visit(e)
                    _set_field(st, fld, new)
            _remove_stmt(f, d)
            done = True
            break
        if not done:
            break
    return f


def _own_fields(st):
    """(field, expression) pairs evaluated by the statement itself"""
    out = []
    if isinstance(st, ast.Assign):
        out = [("value", st.value)] + [(("targets", k), t) for k, t in enumerate(st.targets) if not isinstance(t, ast.Name)]
    elif isinstance(st, ast.Expr):
        out = [("value", st.value)]
    elif isinstance(st, ast.Return) and st.value is not None:
        out = [("value", st.value)]
    elif isinstance(st, (ast.If, ast.While)):
        out = [("test", st.test)]
    elif isinstance(st, ast.For):
        out = [("iter", st.iter)]
    elif isinstance(st, ast.Assert):
        out = [("test", st.test)]
    return out


def _own_exprs(st):
    got = [e for _, e in _own_fields(st)]
    if not got and not isinstance(st, (ast.If, ast.While, ast.For, ast.Assign, ast.Expr, ast.Return, ast.Pass, ast.Break, ast.Continue)):
        return [st]          # unknown statement kind: every name in it counts as a use here
    return got


def _set_field(st, fld, new):
    if isinstance(fld, tuple):
        getattr(st, fld[0])[fld[1]] = new
    else:
        setattr(st, fld, new)


def _remove_stmt(f, d):
    def go(block):
        for k, st in enumerate(block):
            if st is d:
                del block[k]
                if not block:
                    block.append(ast.Pass())
                return True
            for fld in ("body", "orelse", "finalbody"):
                b = getattr(st, fld, None)
                if isinstance(b, list) and b and isinstance(b[0], ast.stmt) and go(b):
                    return True
        return False
    go(f.body)


def _flatten_subscripts(f):
    """X[i, j][k] is X[i, j, k]; X[i, :][k] is X[i, k]  (numpy arrays, full slices only)"""
    def full(it):
        return isinstance(it, ast.Slice) and it.lower is None and it.upper is None and it.step is None

    class T(ast.NodeTransformer):
        def visit_Subscript(self, n):
            self.generic_visit(n)
            if isinstance(n.value, ast.Subscript) and isinstance(n.value.ctx, ast.Load) and not (
                    isinstance(n.value.value, ast.Attribute) and n.value.value.attr == "shape"):
                inner = n.value.slice.elts if isinstance(n.value.slice, ast.Tuple) else [n.value.slice]
                outer = list(n.slice.elts if isinstance(n.slice, ast.Tuple) else [n.slice])
                if any(isinstance(it, ast.Slice) and not full(it) for it in inner) or any(
                        isinstance(it, (ast.Constant,)) and it.value is None or isinstance(it, (ast.Starred,)) for it in inner + outer) \
                        or any(isinstance(it, ast.Constant) and it.value is Ellipsis for it in inner + outer):
                    return n
                merged = []
                for it in inner:
                    merged.append(outer.pop(0) if full(it) and outer else it)
                merged += outer
                sl = merged[0] if len(merged) == 1 else ast.Tuple(elts=merged, ctx=ast.Load())
                return ast.Subscript(value=n.value.value, slice=sl, ctx=n.ctx)
            return n
    return ast.fix_missing_locations(T().visit(f))


def _sort_operands(f):
    """a + b == b + a and a * b == b * a exactly; re-association of a chain changes the rounding only, which the
    property allows: chains of + (and of *) are flattened and their operands ordered"""
    class T(ast.NodeTransformer):
        def visit_BinOp(self, n):
            self.generic_visit(n)
            if isinstance(n.op, (ast.Add, ast.Mult)):
                ops = []

                def flat_(x):
                    if isinstance(x, ast.BinOp) and type(x.op) is type(n.op):
                        flat_(x.left)
                        flat_(x.right)
                    else:
                        ops.append(x)
                flat_(n)
                ops.sort(key=lambda x: ast.dump(x))
                acc = ops[0]
                for x in ops[1:]:
                    acc = ast.BinOp(left=acc, op=type(n.op)(), right=x)
                return acc
            return n
    return T().visit(f)


def module_constants(tree: ast.Module) -> dict:
    """module-level `NAME = <scalar expression>` bound once (e.g. TWO_PI = 2 * pi): usable inside the functions like a literal"""
    seen: dict[str, list] = {}
    for st in tree.body:
        for n in ast.walk(st) if not isinstance(st, (ast.FunctionDef, ast.ClassDef)) else []:
            if isinstance(n, ast.Name) and isinstance(n.ctx, ast.Store):
                seen.setdefault(n.id, []).append(st)
    out = {}
    for name, sts in seen.items():
        st = sts[0]
        if len(sts) == 1 and isinstance(st, ast.Assign) and len(st.targets) == 1 and isinstance(st.targets[0], ast.Name) \
                and all(isinstance(n, (ast.BinOp, ast.UnaryOp, ast.Name, ast.Constant, ast.operator, ast.unaryop, ast.expr_context, ast.Attribute))
                        for n in ast.walk(st.value)):
            out[name] = st.value
    return out


def _bound_names(fn, tree):
    """names whose meaning is visible: parameters, locals, imports, module-level functions, builtins"""
    import builtins
    out = set(dir(builtins)) | {a.arg for a in fn.args.args + fn.args.kwonlyargs}
    for n in ast.walk(fn):
        if isinstance(n, ast.Name) and isinstance(n.ctx, ast.Store):
            out.add(n.id)
        elif isinstance(n, (ast.Import, ast.ImportFrom)):
            out |= {(a.asname or a.name).split(".")[0] for a in n.names}
    for st in (tree.body if tree is not None else []):
        if isinstance(st, (ast.Import, ast.ImportFrom)):
            out |= {(a.asname or a.name).split(".")[0] for a in st.names}
        elif isinstance(st, (ast.FunctionDef, ast.ClassDef)):
            out.add(st.name)
    return out


_NUMERIC_MODULES = {"numpy", "math", "cmath", "scipy"}


def _import_aliases(fn, tree):
    """{local name: imported name} for `from numpy import abs as np_abs`, and the names under which numeric modules are imported"""
    ren, mods = {}, set()
    nodes = [n for n in ast.walk(fn) if isinstance(n, (ast.Import, ast.ImportFrom))]
    nodes += [st for st in (tree.body if tree is not None else []) if isinstance(st, (ast.Import, ast.ImportFrom))]
    for n in nodes:
        if isinstance(n, ast.ImportFrom) and (n.module or "").split(".")[0] in _NUMERIC_MODULES:
            for a in n.names:
                if a.asname and a.asname != a.name:
                    ren[a.asname] = a.name
        elif isinstance(n, ast.Import):
            for a in n.names:
                if a.name.split(".")[0] in _NUMERIC_MODULES:
                    mods.add(a.asname or a.name.split(".")[0])
    return ren, mods


def canon_fn(fn: ast.FunctionDef, pure: set, tree: ast.Module = None) -> ast.FunctionDef:
    ren, mods = _import_aliases(fn, tree)
    f = _strip(fn)
    if ren or mods:
        local = {a.arg for a in f.args.args} | {n.id for n in ast.walk(f) if isinstance(n, ast.Name) and isinstance(n.ctx, ast.Store)}

        class A(ast.NodeTransformer):
            def visit_Name(self, n):
                if isinstance(n.ctx, ast.Load) and n.id in ren and n.id not in local and ren[n.id] not in local:
                    return ast.Name(id=ren[n.id], ctx=ast.Load())
                return n

            def visit_Attribute(self, n):
                self.generic_visit(n)
                if isinstance(n.value, ast.Name) and n.value.id in mods and n.value.id not in local and n.attr not in local \
                        and isinstance(n.ctx, ast.Load):
                    return ast.Name(id=n.attr, ctx=ast.Load())          # np.abs -> abs
                return n
        f = ast.fix_missing_locations(A().visit(f))
    if tree is not None:
        consts = module_constants(tree)
        local = {a.arg for a in f.args.args} | {n.id for n in ast.walk(f) if isinstance(n, ast.Name) and isinstance(n.ctx, ast.Store)}
        for _ in range(3):        # constants defined from constants

            class C(ast.NodeTransformer):
                def visit_Name(self, n):
                    if isinstance(n.ctx, ast.Load) and n.id in consts and n.id not in local:
                        return ast.parse(ast.unparse(consts[n.id]), mode="eval").body
                    return n
            f = C().visit(f)
    _wrap_loops(f.body)
    _accumulators(f)
    f.body = _control(f.body) or [ast.Pass()]
    f = _inline_temps(f, pure)
    f.body = [s for s in f.body if not isinstance(s, ast.Pass)] or [ast.Pass()]
    f = _flatten_subscripts(f)
    f = _sort_operands(f)
    f = ast.parse(ast.unparse(ast.fix_missing_locations(f))).body[0]
    return f


# ---------------------------------------------------------------------------------------------------------
# statement-by-statement comparison of two canonical bodies with the same control skeleton
# ---------------------------------------------------------------------------------------------------------

class _Skeleton(Exception):
    pass


_GUARDS = {}      # id(statement of the copy) -> conditions (of either side) the statement is control dependent on


def _pair_bodies(a, b, out, guards=()):
    if len(a) != len(b):
        raise _Skeleton(f"{len(a)} statements against {len(b)}")
    guards = tuple(guards)
    for x, y in zip(a, b):
        if type(x) is not type(y):
            raise _Skeleton(f"`{src(x).splitlines()[0][:50]}` against `{src(y).splitlines()[0][:50]}`")
        _GUARDS[id(y)] = guards
        if isinstance(x, ast.Assign):
            if len(x.targets) != len(y.targets):
                raise _Skeleton("assignment targets")
            for t, u in zip(x.targets, y.targets):
                if _base_name(t) != _base_name(u) or type(t) is not type(u):
                    # another variable is assigned here: statements re-ordered or renamed, not an operand slip
                    raise _Skeleton(f"`{src(x)[:50]}` assigns `{_base_name(t)}`, its counterpart `{_base_name(u)}`")
                out.append((t, u, x, y, "target"))
            out.append((x.value, y.value, x, y, "value"))
        elif isinstance(x, (ast.Expr, ast.Return)):
            if (x.value is None) != (y.value is None):
                raise _Skeleton("return value")
            if x.value is not None:
                out.append((x.value, y.value, x, y, "value"))
        elif isinstance(x, (ast.If, ast.While)):
            out.append((x.test, y.test, x, y, "condition"))
            inner = guards + (x.test, y.test)
            _pair_bodies(x.body, y.body, out, inner)
            _pair_bodies(x.orelse, y.orelse, out, inner)
            if isinstance(x, ast.If) and (_terminates(x.body) or _terminates(y.body)):
                guards = inner          # what follows an arm that returns runs under the negated condition
        elif isinstance(x, ast.For):
            if ast.dump(x.target) != ast.dump(y.target):
                raise _Skeleton(f"loop over `{src(x.target)}` against loop over `{src(y.target)}`")
            out.append((x.iter, y.iter, x, y, "loop range"))
            _pair_bodies(x.body, y.body, out, guards)
            _pair_bodies(x.orelse, y.orelse, out, guards)
        elif isinstance(x, (ast.Pass, ast.Break, ast.Continue)):
            pass
        else:
            if ast.dump(x) != ast.dump(y):
                raise _Skeleton(f"statement `{src(x)[:50]}`")


def _equality_knowledge(stmt, a, b):
    """does the statement run under an (in)equality test that mentions names of the two expressions?  Then one side may be
    the other rewritten with that equality (span == ncells: `span + 2` is `ncells + 2`), which is no operand slip"""
    names = {n.id for e in (a, b) for n in ast.walk(e) if isinstance(n, ast.Name)}
    for g in _GUARDS.get(id(stmt), ()):
        for c in ast.walk(g):
            if isinstance(c, ast.Compare) and any(isinstance(o, (ast.Eq, ast.NotEq)) for o in c.ops):
                if names & {n.id for n in ast.walk(c) if isinstance(n, ast.Name)}:
                    return True
    return False


def _base_name(t):
    while isinstance(t, (ast.Subscript, ast.Attribute, ast.Starred)):
        t = t.value
    return t.id if isinstance(t, ast.Name) else src(t)


def _to_sym(e, atoms):
    """arithmetic expression -> sympy, everything that is not arithmetic (subscripts, calls, attributes) an uninterpreted atom
    of its canonical arguments"""
    import sympy as sp
    if isinstance(e, ast.Constant):
        if isinstance(e.value, bool) or not isinstance(e.value, (int, float)):
            raise Undecided("constant")
        return sp.Integer(e.value) if isinstance(e.value, int) else sp.Rational(repr(e.value))
    if isinstance(e, ast.Name):
        return sp.Symbol("pi", positive=True) if e.id == "pi" else sp.Symbol(e.id)
    if isinstance(e, ast.Attribute) and src(e) in ("np.pi", "numpy.pi", "math.pi"):
        return sp.Symbol("pi", positive=True)
    if isinstance(e, ast.Call) and not e.keywords and len(e.args) == 1 and src(e.func).split(".")[-1] in ("sqrt", "exp", "tanh", "cos", "sin") \
            and src(e.func).split(".")[0] in ("np", "numpy", "math", src(e.func)):
        return getattr(sp, src(e.func).split(".")[-1])(_to_sym(e.args[0], atoms))
    if isinstance(e, ast.UnaryOp) and isinstance(e.op, (ast.USub, ast.UAdd)):
        v = _to_sym(e.operand, atoms)
        return -v if isinstance(e.op, ast.USub) else v
    if isinstance(e, ast.BinOp):
        a, b = _to_sym(e.left, atoms), _to_sym(e.right, atoms)
        if isinstance(e.op, ast.Add):
            return a + b
        if isinstance(e.op, ast.Sub):
            return a - b
        if isinstance(e.op, ast.Mult):
            return a * b
        if isinstance(e.op, ast.Div):
            return a / b
        if isinstance(e.op, ast.Pow):
            return a ** b
        if isinstance(e.op, ast.FloorDiv):
            return sp.Function("floordiv")(a, b)
        if isinstance(e.op, ast.Mod):
            return sp.Function("pymod")(a, b)
        raise Undecided("operator")
    if isinstance(e, ast.Subscript):
        items = e.slice.elts if isinstance(e.slice, ast.Tuple) else [e.slice]
        args = []
        for it in items:
            if isinstance(it, ast.Slice):
                args.append(sp.Function("slice_")(*[sp.Symbol("none_") if x is None else _to_sym(x, atoms) for x in (it.lower, it.upper, it.step)]))
            else:
                args.append(_to_sym(it, atoms))
        return sp.Function("at_" + src(e.value).replace(".", "_"))(*args)
    if isinstance(e, ast.Call) and not e.keywords and len(e.args) == 2 and src(e.func).split(".")[-1] == "mod":
        return sp.Function("pymod")(_to_sym(e.args[0], atoms), _to_sym(e.args[1], atoms))
    if isinstance(e, ast.Call) and not e.keywords and not any(isinstance(a, ast.Starred) for a in e.args):
        return sp.Function("call_" + src(e.func).replace(".", "_"))(*[_to_sym(a, atoms) for a in e.args])
    if isinstance(e, ast.Attribute):
        return sp.Symbol(src(e).replace(".", "_"))
    raise Undecided("expression")


def expr_same(a, b):
    """True: equal (identical, or equal as rational functions over uninterpreted atoms); False: recognisably different;
    None: cannot tell"""
    if ast.dump(a) == ast.dump(b):
        return True
    if isinstance(a, ast.Compare) or isinstance(b, ast.Compare):
        if not (isinstance(a, ast.Compare) and isinstance(b, ast.Compare)) or len(a.ops) != len(b.ops):
            return None
        if [type(o) for o in a.ops] != [type(o) for o in b.ops]:
            # a < b against b > a was normalised away: a different operator is a different condition when the operands agree
            same_operands = all(expr_same(x, y) is True for x, y in zip([a.left] + a.comparators, [b.left] + b.comparators))
            return False if same_operands else None
        rs = [expr_same(x, y) for x, y in zip([a.left] + a.comparators, [b.left] + b.comparators)]
        return False if False in rs else (None if None in rs else True)
    if isinstance(a, ast.BoolOp) or isinstance(b, ast.BoolOp):
        if not (isinstance(a, ast.BoolOp) and isinstance(b, ast.BoolOp)) or len(a.values) != len(b.values):
            return None
        if type(a.op) is not type(b.op):
            return False
        rs = [expr_same(x, y) for x, y in zip(a.values, b.values)]
        return False if False in rs else (None if None in rs else True)
    if isinstance(a, ast.UnaryOp) and isinstance(a.op, ast.Not) and isinstance(b, ast.UnaryOp) and isinstance(b.op, ast.Not):
        return expr_same(a.operand, b.operand)
    if isinstance(a, ast.Tuple) and isinstance(b, ast.Tuple) and len(a.elts) == len(b.elts):
        rs = [expr_same(x, y) for x, y in zip(a.elts, b.elts)]
        return False if False in rs else (None if None in rs else True)
    if isinstance(a, ast.Call) and isinstance(b, ast.Call) and not a.keywords and not b.keywords:
        if src(a.func) != src(b.func):
            return False if len(a.args) == len(b.args) and all(expr_same(x, y) is True for x, y in zip(a.args, b.args)) else None
        if len(a.args) != len(b.args):
            return False
        rs = [expr_same(x, y) for x, y in zip(a.args, b.args)]
        return False if False in rs else (None if None in rs else True)
    if isinstance(a, ast.Subscript) and isinstance(b, ast.Subscript) and isinstance(a.ctx, ast.Store):
        if src(a.value) != src(b.value):
            return False
    try:
        import sympy as sp
        sa, sb = _to_sym(a, None), _to_sym(b, None)
        d = sp.together(sa - sb)
        num = sp.expand(sp.numer(d))
        if num == 0:
            return True
        return True if _numerically_equal(sa, sb) else False
    except Exception:
        return None


def _numerically_equal(sa, sb):
    """two formulas that differ as written but agree (to rounding) at random values of all their atoms: the same function, e.g.
    1/6 against 0.16666666666666666, exp(a)*exp(b) against exp(a + b)"""
    import random
    import sympy as sp
    from sympy.core.function import AppliedUndef
    atoms = list((sa - sb).atoms(sp.Symbol)) + list((sa - sb).atoms(AppliedUndef))
    if not atoms:
        try:
            return abs(complex(sp.N(sa - sb, 30))) < 1e-13 * (1 + abs(complex(sp.N(sa, 30))))
        except Exception:
            return False
    rnd = random.Random(20260925)
    try:
        for _ in range(3):
            rule = {a_: sp.Float(rnd.uniform(0.6, 1.9), 30) for a_ in atoms}
            va, vb = complex(sp.N(sa.xreplace(rule), 30)), complex(sp.N(sb.xreplace(rule), 30))
            if not (abs(va - vb) <= 1e-12 * (abs(va) + abs(vb) + 1e-30)):
                return False
        return True
    except Exception:
        return False


def consumers(chk):
    """{kernel module rel: set of function names the library imports from it}"""
    want = {k: set() for k in U.KERNELS}
    modname = {k: k.split("/")[-1][:-3] for k in U.KERNELS}
    libs = [U.SPLINES, U.INTERP, U.ADV, U.ADVK, U.POISSON, U.INITIALISER, U.CU, U.NU]
    for rel in libs:
        mod = chk.mod(rel)
        for st in mod.tree.body:
            if isinstance(st, ast.ImportFrom) and st.module:
                base = st.module.split(".")[-1]
                for k, mn in modname.items():
                    if base == mn:
                        for a in st.names:
                            want[k].add(a.name)
                    elif any(a.name == mn for a in st.names):
                        # `from ..initialisation import initialiser_funcs as init` -> attribute uses
                        alias = [a.asname or a.name for a in st.names if a.name == mn][0]
                        for n in ast.walk(mod.tree):
                            if isinstance(n, ast.Attribute) and isinstance(n.value, ast.Name) and n.value.id == alias:
                                want[k].add(n.attr)
    return want


LIBS = [U.SPLINES, U.INTERP, U.ADV, U.ADVK, U.POISSON, U.INITIALISER, U.CU, U.NU, U.INITF, U.PTOOLS]


def keyword_calls(chk):
    """{function name: set of keyword names some library call passes}"""
    out: dict[str, set] = {}
    for rel in LIBS:
        for c in ast.walk(chk.mod(rel).tree):
            if isinstance(c, ast.Call) and c.keywords:
                name = c.func.id if isinstance(c.func, ast.Name) else c.func.attr if isinstance(c.func, ast.Attribute) else None
                if name:
                    out.setdefault(name, set()).update(k.arg for k in c.keywords if k.arg)
    return out


def parameter_lists(chk, fn, vf, q, kwcalls):
    """calls written for the reference bind the same way in the copy -> (True/False/None, why)"""
    pa, pb = [a.arg for a in fn.args.args], [a.arg for a in vf.args.args]
    da, db = list(fn.args.defaults), list(vf.args.defaults)
    if vf.args.vararg or vf.args.kwarg or vf.args.kwonlyargs or fn.args.vararg or fn.args.kwarg or fn.args.kwonlyargs:
        same = ast.dump(_bare_args(fn)) == ast.dump(_bare_args(vf))
        return (True, "same parameter list") if same else (None, "variadic / keyword-only parameters: binding not compared")
    if len(pb) < len(pa):
        return False, (f"the copy takes {len(pb)} parameters {pb}, the reference {len(pa)} {pa}: a call that passes all arguments of the "
                       "reference does not bind")
    req_a, req_b = len(pa) - len(da), len(pb) - len(db)
    if req_b > len(pa):
        return False, (f"the copy requires {req_b} arguments {pb[:req_b]}, the reference takes only {len(pa)}: calls written for the "
                       "reference do not bind")
    if req_b > req_a:
        lost = pa[req_a:req_b]
        return False, (f"the copy has no default for {lost}, which the reference has ({[src(d) for d in da[:len(lost)]]}): calls that "
                       "rely on the default fail, or the copy is called with other values than the reference")
    # defaults of the shared optional parameters
    for k in range(req_a, len(pa)):
        ea, eb = da[k - req_a], db[k - req_b]
        r = expr_same(ea, eb)
        if r is False:
            return False, (f"default of parameter {k + 1} `{pb[k]}` is `{src(eb)}`, the reference has `{src(ea)}`: a call that omits it "
                           "computes something else in the copy")
        if r is None:
            return None, f"defaults `{src(eb)}` / `{src(ea)}` of parameter {k + 1} not comparable"
    renamed = [(x, y) for x, y in zip(pa, pb) if x != y]
    if renamed:
        used = sorted(x for x, _ in renamed if x in kwcalls.get(q, set()))
        if used:
            return False, (f"parameters {used} of the reference are called {[y for x, y in renamed if x in used]} in the copy and a "
                           "library call passes them by keyword: the call does not bind in the copy")
        return True, (f"positional parameters renamed {renamed}; no library call passes them by keyword; "
                      "every default of the reference is kept")
    return True, "same positional parameters; every default of the reference is kept"


def _bare_args(fn):
    a = ast.parse(ast.unparse(fn)).body[0].args
    for x in a.args + a.kwonlyargs + a.posonlyargs + [y for y in (a.vararg, a.kwarg) if y]:
        x.annotation = None
    return a


def _rename_params(vf, pa):
    """the copy with its positional parameters called as in the reference (None when that would capture a local)"""
    pb = [a.arg for a in vf.args.args]
    if pb == pa:
        return vf
    if len(pb) < len(pa):
        return None
    ren = {y: x for x, y in zip(pa, pb) if x != y}
    others = {n.id for n in ast.walk(vf) if isinstance(n, ast.Name)} | set(pb)
    if any(x in others and x not in ren for x in ren.values()):
        return None
    f = ast.parse(ast.unparse(vf)).body[0]
    for a in f.args.args:
        a.arg = ren.get(a.arg, a.arg)
    for n in ast.walk(f):
        if isinstance(n, ast.Name) and n.id in ren:
            n.id = ren[n.id]
    return f


def body_equivalence(chk, ref, v, q, fn, vf, vm, flavour, pure):
    """V4 ladder: identical / identical in canonical form / proved against the specification formula / same statements with
    expressions compared one by one -> True (proved), False (violation recorded), None (undecided, recorded)"""
    R = "V4-body-equivalence"
    con = f"{v}:{q}"
    if norm_fn(fn) == norm_fn(vf):
        chk.ob(R, vf, con, True, "AST-identical to the reference after stripping decorators, annotations, docstrings and local "
               "imports", file=v, func=q)
        return True
    vfr = _rename_params(vf, [a.arg for a in fn.args.args])
    ca = cb = None
    canon_err = None
    try:
        if vfr is not None:
            ca, cb = canon_fn(fn, pure, chk.mod(ref).tree), canon_fn(vfr, pure, vm.tree)
            ca.args, cb.args = _bare_args(ca), _bare_args(ca)      # parameter lists are V1's business
    except Exception as e:       # the canonical form is a recognition aid: failing to build it decides nothing
        canon_err = f"{type(e).__name__}: {e}"
        ca = cb = None
    if ca is not None and ast.dump(ca) == ast.dump(cb):
        chk.ob(R, vf, con, True, "identical to the reference in canonical form (single-assignment temporaries and hoisted invariants "
               "written back, result variable / early return, `if` arms with one body, shape unpacking, `+=`, operand order of + and *)",
               file=v, func=q)
        return True
    res, why = spec_check(chk, v, q, vm)
    if res is False:
        return False
    if res is True:
        if q == "f_eq":
            return True           # compared with the reference's formula directly
        rres, rwhy = reference_spec(chk, ref, q, pure)
        if rres is True:
            return True
        if rres is False:
            chk.ob(R, vf, con, False, f"the {flavour} copy satisfies the specification formula of `{q}`, the reference {ref} does not (see the "
                   "obligations recorded for the reference): the copy does not compute what the source it mirrors computes",
                   file=v, func=q)
            return False
        why = f"the copy satisfies the specification formula but the reference could not be checked against it ({rwhy})"
    # no (applicable) specification formula: compare statement by statement
    pairs = []
    if ca is None:
        chk.ob(R, vf, con, None, f"body differs from the reference; {why}; canonical form not available ({canon_err or 'parameters'})",
               file=v, func=q)
        return None
    try:
        _GUARDS.clear()
        _pair_bodies(ca.body, cb.body, pairs)
    except _Skeleton as e:
        chk.ob(R, vf, con, None, f"body differs from the reference `{ref}` in its statement structure ({e}) and {why}: equivalence "
               "not decided", file=v, func=q)
        return None
    known_a, known_b = _bound_names(fn, chk.mod(ref).tree), _bound_names(vfr, vm.tree)

    def judged(a, b, sb):
        r = expr_same(a, b)
        if r is False:
            # a name whose binding is not visible here (module-level variable, ...) may stand for anything
            free = ({n.id for n in ast.walk(a) if isinstance(n, ast.Name)} - known_a) | ({n.id for n in ast.walk(b) if isinstance(n, ast.Name)} - known_b)
            if free or _equality_knowledge(sb, a, b):
                return None
        return r
    verdicts = [(judged(a, b, sb), a, b, sa, sb, what) for a, b, sa, sb, what in pairs]
    wrong = [x for x in verdicts if x[0] is False]
    unknown = [x for x in verdicts if x[0] is None]
    differing = [x for x in verdicts if x[0] is not True]
    if len({id(x[3]) for x in differing}) >= 2 and \
            sorted({id(x[3]): ast.dump(x[3]) for x in differing}.values()) == sorted({id(x[4]): ast.dump(x[4]) for x in differing}.values()):
        chk.ob(R, vf, con, None, "the copy has the statements of the reference in another order; whether the re-ordered statements are "
               f"independent is not decided ({why})", file=v, func=q)
        return None
    for _, a, b, sa, sb, what in wrong[:4]:
        head = src(sb).splitlines()[0][:70]
        chk.ob(R, vf, f"{con}: {what} of `{head}`", False,
               f"the {flavour} copy has `{_short(b)}` where the reference {ref.split('/')[-1]} has `{_short(a)}` ({what} of `{head}`); all "
               "other statements correspond one to one, and the two expressions are not equal as formulas: the copy does not compute "
               "what the source it mirrors computes", file=v, func=q)
    if wrong:
        return False
    if unknown:
        _, a, b, sa, sb, what = unknown[0]
        chk.ob(R, vf, con, None, f"statements correspond one to one but `{_short(b)}` against `{_short(a)}` ({what}) could not be "
               f"compared; {why}", file=v, func=q)
        return None
    n = sum(1 for x in verdicts if ast.dump(x[1]) != ast.dump(x[2]))
    chk.ob(R, vf, con, True, f"same statements as the reference; the {n} expression(s) written differently are equal as rational "
           "functions of their operands (re-association only)", file=v, func=q)
    return True


def _short(e, n=110):
    t = src(e).replace("\n", " ")
    return t if len(t) <= n else t[:n] + "..."



def reference_inputs(chk):
    """V5 on the reference kernels themselves: an array annotated Final is not written, also not through a view (pyccel checks
    direct stores only; a store through a slice of the array changes the caller's data in the interpreted kernel)"""
    from .. import lints
    for ref in U.KERNELS:
        rm = chk.mod(ref)
        for q, fn in rm.functions().items():
            if "." in q:
                continue
            final = {a.arg for a in fn.args.args if a.annotation is not None and "Final" in src(a.annotation)
                     and "[" in src(a.annotation).replace("Final[", "", 1)}
            if not final:
                continue
            muts = list(lints.shared_state_mutations(fn, lambda s_, final=final: s_ in final))
            for node, desc in muts:
                chk.ob("V5-inputs-not-written", node, f"{ref}:{q}: {src(node)[:70]}", False,
                       desc.replace("the stored", "the caller's read-only input") + f" - `{q}` declares {sorted(final)} Final: the interpreted "
                       "kernel changes the caller's array (every later call sees other data), which the declaration promises the compiled "
                       "kernel never does", file=ref, func=q)
            chk.ob("V5-inputs-not-written", fn, f"{ref}:{q} leaves {sorted(final)} unchanged", not muts,
                   "no store, in-place update or overwrite flag reaches an array declared Final, directly or through a view" if not muts else
                   f"{len(muts)} write(s) reach an array declared Final (listed separately)", file=ref, func=q, nontrivial=False)


def variant_agreement(chk):
    want = consumers(chk)
    proved = unproved = 0
    pure = pure_functions(chk)
    kwcalls = keyword_calls(chk)
    for ref, variants in U.VARIANTS.items():
        rm = chk.mod(ref)
        for v in variants:
            vm = chk.mod(v)
            flavour = "numba" if "numba_" in v else "pythran"
            # V1: consumer names and parameter lists
            missing = sorted(n for n in want[ref] if rm.has(n) and not vm.has(n))
            chk.ob("V1-consumer-names", vm.tree, f"{v}: names imported by the library from {ref.split('/')[-1]}", not missing,
                   f"all {len(want[ref])} imported names are defined by the {flavour} copy" if not missing else
                   f"the {flavour} copy does not define {missing}, which the library imports from the module it replaces",
                   file=v, func="<module>")
            for q, fn in rm.functions().items():
                if "." in q or not vm.has(q):
                    continue
                vf = vm.func(q)
                pa, pb = [a.arg for a in fn.args.args], [a.arg for a in vf.args.args]
                okp, whyp = parameter_lists(chk, fn, vf, q, kwcalls)
                chk.ob("V1-parameter-lists", vf, f"{v}:{q}", okp, whyp, file=v, func=q, nontrivial=False)
                # V2: export arity
                ars = export_arities(vm, q, flavour)
                if ars:
                    bad = [x for x in ars if x is not None and x != len(pb)]
                    oka = False if bad else (None if any(x is None for x in ars) else True)
                    chk.ob("V2-export-arity", vf, f"{v}:{q} export signature", oka,
                           f"export declares {ars[0]} arguments = def arity" if oka else
                           f"export declares {bad[0]} arguments but the function takes {len(pb)}: the {flavour} build rejects the module or "
                           "exports a function the library cannot call" if bad else "export signature not in a recognised form",
                           file=v, func=q, nontrivial=False)
                # V2b: the exported argument types are those the reference kernel declares (kind and rank)
                ann = [_type_kind(src(a.annotation)) if a.annotation is not None else None for a in fn.args.args]
                sigs = [sg for sg in export_types(vm, q, flavour) if len(sg) == len(ann)]
                if sigs and all(a is not None for a in ann) and all(x is not None for sg in sigs for x in sg):
                    okt = any(sg == ann for sg in sigs)
                    diffs = [(k, sg[k]) for sg in sigs[:1] for k in range(len(ann)) if sg[k] != ann[k]]
                    chk.ob("V2-export-types", vf, f"{v}:{q} exported argument types", okt,
                           "an export signature declares, argument by argument, the kind (int/float/bool/complex) and rank the reference "
                           "kernel is annotated with" if okt else
                           f"no export signature of the {flavour} copy has the argument types of the reference: argument {diffs[0][0] + 1} "
                           f"`{pb[diffs[0][0]] if diffs[0][0] < len(pb) else '?'}` is exported as {diffs[0][1][0]} of rank {diffs[0][1][1]}, the "
                           f"reference declares {ann[diffs[0][0]][0]} of rank {ann[diffs[0][0]][1]}: the compiled copy converts or rejects the "
                           "arguments the library passes to the pyccel kernel", file=v, func=q, nontrivial=False)
                # V5: arrays the reference declares read-only (Final) are not written by the copy, also not through a view
                final = {a.arg for a in fn.args.args if a.annotation is not None and "Final" in src(a.annotation)
                         and "[" in src(a.annotation).replace("Final[", "", 1)}
                if final:
                    from .. import lints
                    # follow the read-only arrays into helpers that exist only in the copy
                    work, seen_h, muts = [(vf, q, frozenset(final))], set(), []
                    while work:
                        hf, hq, hfinal = work.pop()
                        if (hq, hfinal) in seen_h:
                            continue
                        seen_h.add((hq, hfinal))
                        for node, desc in lints.shared_state_mutations(hf, lambda s_, hfinal=hfinal: s_ in hfinal):
                            muts.append((hq, node, desc))
                        for c in ast.walk(hf):
                            if isinstance(c, ast.Call) and isinstance(c.func, ast.Name) and vm.has(c.func.id) and not rm.has(c.func.id):
                                cf = vm.func(c.func.id)
                                formals = [a.arg for a in cf.args.args]
                                passed = {formals[k] for k, a in enumerate(c.args) if k < len(formals) and isinstance(a, ast.Name) and a.id in hfinal}
                                passed |= {k.arg for k in c.keywords if isinstance(k.value, ast.Name) and k.value.id in hfinal}
                                if passed:
                                    work.append((cf, c.func.id, frozenset(passed)))
                    for hq, node, desc in muts:
                        chk.ob("V5-inputs-not-written", node, f"{v}:{hq}: {src(node)[:70]}", False,
                               desc.replace("the stored", "the caller's read-only input") + f" - the reference kernel `{q}` declares "
                               f"{sorted(final)} Final (never written); this copy changes the caller's array, so later calls give other "
                               "results than the reference", file=v, func=hq)
                    chk.ob("V5-inputs-not-written", vf, f"{v}:{q} leaves {sorted(final)} unchanged", not muts,
                           (f"no store, in-place update or overwrite flag reaches an input array of the reference, directly, through a view or in "
                            f"the {len(seen_h) - 1} helper(s) it is handed to") if not muts else
                           f"{len(muts)} write(s) reach an input array the reference never writes (listed separately)",
                           file=v, func=q, nontrivial=False)
                # V4: body equivalence
                try:
                    res = body_equivalence(chk, ref, v, q, fn, vf, vm, flavour, pure)
                except (AnalysisError, Undecided) as e:
                    res = None
                    chk.ob("V4-body-equivalence", vf, f"{v}:{q}", None, f"comparison with the reference not possible: {e}", file=v, func=q)
                except Exception as e:      # a defect of the comparison itself decides nothing about the kernel
                    res = None
                    chk.ob("V4-body-equivalence", vf, f"{v}:{q}", None, f"comparison with the reference failed ({type(e).__name__}: {e})",
                           file=v, func=q)
                if res is True:
                    proved += 1
                elif res is None:
                    unproved += 1
    chk.extra["variant_bodies_proved"] = proved
    chk.extra["variant_bodies_unproved"] = unproved
    if proved < 55:
        raise AnalysisError(f"C19: only {proved} variant bodies proved equivalent (floor 55)")
    # V3: duplicated copies identical
    for a, b in (("pygyro/splines/pythran_spline_eval_funcs.py", "pygyro/advection/pythran_deps/pythran_spline_eval_funcs.py"),
                 ("pygyro/splines/pythran_cubic_uniform_spline_eval_funcs.py", "pygyro/advection/pythran_deps/pythran_cubic_uniform_spline_eval_funcs.py"),
                 ("pygyro/initialisation/pythran_initialiser_funcs.py", "pygyro/advection/pythran_deps/pythran_initialiser_funcs.py")):
        ma, mb = chk.mod(a), chk.mod(b)
        R3, con = "V3-duplicate-identity", f"{b} == {a}"
        if os.path.realpath(ma.path) == os.path.realpath(mb.path):
            chk.ob(R3, mb.tree, con, True, "the copy used as a pythran dependency is a symbolic link to its sibling", file=b, func="<module>")
            continue
        # the text as written (the per-file normalisation of the loader must not make two equal files look different)
        ta, tb = ast.parse(ma.src), ast.parse(mb.src)
        if ast.dump(ta) == ast.dump(tb):
            chk.ob(R3, mb.tree, con, True, "the copy used as a pythran dependency is AST-identical to its sibling", file=b, func="<module>")
            continue
        fa = {f.name: f for f in ta.body if isinstance(f, ast.FunctionDef)}
        fb = {f.name: f for f in tb.body if isinstance(f, ast.FunctionDef)}
        only = sorted(set(fa) ^ set(fb))
        if only:
            chk.ob(R3, mb.tree, con, False, f"the two copies of the same pythran module do not define the same functions: {only} exist in one "
                   "of them only - which of the two is compiled depends on the kernel being built", file=b, func="<module>")
            continue
        verdict, detail = True, ""
        for name in fa:
            try:
                ca, cb = canon_fn(fa[name], pure, ta), canon_fn(fb[name], pure, tb)
            except Exception as e:
                verdict, detail = None, f"{name}: canonical form not available ({type(e).__name__})"
                break
            if ast.dump(ca) == ast.dump(cb):
                continue
            pairs = []
            try:
                _GUARDS.clear()
                _pair_bodies(ca.body, cb.body, pairs)
                args_same = ast.dump(ca.args) == ast.dump(cb.args)
            except _Skeleton as e:
                if verdict is True:
                    verdict, detail = None, f"`{name}` is structured differently in the two copies ({e})"
                continue
            bad = [(x, y, what) for x, y, _, sy, what in pairs if expr_same(x, y) is False and not _equality_knowledge(sy, x, y)]
            if bad or not args_same:
                x, y, what = bad[0] if bad else (ca.args, cb.args, "parameter list")
                verdict, detail = False, f"`{name}`: `{_short(y)}` in {b} against `{_short(x)}` in {a} ({what})"
                break
            if any(expr_same(x, y) is None for x, y, _, _, _ in pairs) and verdict is True:
                verdict, detail = None, f"`{name}`: expressions not comparable"
        rest_a = [ast.dump(st) for st in ta.body if not isinstance(st, ast.FunctionDef) and not _is_docstring(st)]
        rest_b = [ast.dump(st) for st in tb.body if not isinstance(st, ast.FunctionDef) and not _is_docstring(st)]
        if verdict is True and rest_a != rest_b:
            verdict, detail = None, "module-level statements (imports, constants) differ"
        chk.ob(R3, mb.tree, con, verdict,
               "the two copies are written differently but every function is the same in canonical form" if verdict is True else
               (f"the two copies of the same pythran module compute different things: {detail}; which of them is compiled depends on "
                "the kernel being built (the advection kernel takes the one under pythran_deps)") if verdict is False else
               f"the two copies of the same pythran module differ and their equivalence is not decided: {detail}", file=b, func="<module>")


def _count_top_level(sig: str) -> int:
    sig = sig.strip()
    if not sig:
        return 0
    depth, n = 0, 1
    for ch in sig:
        if ch in "([":
            depth += 1
        elif ch in ")]":
            depth -= 1
        elif ch == "," and depth == 0:
            n += 1
    return n


def export_arities(vm, q, flavour):
    """argument counts of every export declaration of q (pythran comment lines, numba cc.export decorators)"""
    out = []
    if flavour == "pythran":
        for m in re.finditer(r"#\s*pythran\s+export\s+" + re.escape(q) + r"\s*\((.*)\)", vm.src):
            out.append(_count_top_level(m.group(1)))
        return out
    fn = vm.func(q)
    for d in fn.decorator_list:
        if isinstance(d, ast.Call) and src(d.func).endswith(".export") and len(d.args) >= 2:
            sig = d.args[1]
            if isinstance(sig, ast.Constant) and isinstance(sig.value, str):
                t = sig.value
                out.append(_count_top_level(t[t.index("(") + 1: t.rindex(")")]) if "(" in t and ")" in t else None)
            elif isinstance(sig, ast.Tuple):
                out.append(len(sig.elts))
            elif isinstance(sig, ast.Call) and sig.args is not None:      # ret_type(arg, arg, ...)
                out.append(len(sig.args))
            else:
                out.append(None)
    return out


_KINDS = {"float": "float", "float64": "float", "f8": "float", "double": "float", "float32": "float32", "f4": "float32",
          "int": "int", "int64": "int", "int32": "int", "i4": "int", "i8": "int", "bool": "bool", "b1": "bool",
          "complex": "complex", "complex128": "complex", "c16": "complex"}


def _type_kind(t: str):
    """'Final[float[:,:]]' / 'float64[:,:]order(C)' / 'f8[:, :]' -> ('float', 2); None when not of that form"""
    t = t.strip().strip("'\"")
    m = re.match(r"Final\[(.*)\]$", t)
    if m:
        t = m.group(1).strip()
    t = re.sub(r"order\(\w\)", "", t).strip()
    m = re.match(r"([A-Za-z_]\w*)\s*(\[[^\]]*\])?$", t)
    if not m or m.group(1) not in _KINDS:
        return None
    return _KINDS[m.group(1)], (m.group(2) or "").count(":")


def _split_top_level(sig: str):
    out, depth, cur = [], 0, ""
    for ch in sig:
        if ch in "([":
            depth += 1
        elif ch in ")]":
            depth -= 1
        if ch == "," and depth == 0:
            out.append(cur)
            cur = ""
        else:
            cur += ch
    if cur.strip():
        out.append(cur)
    return out


def export_types(vm, q, flavour):
    """per export declaration the list of (kind, rank) of its arguments (None where not recognised)"""
    sigs = []
    if flavour == "pythran":
        for m in re.finditer(r"#\s*pythran\s+export\s+" + re.escape(q) + r"\s*\((.*)\)", vm.src):
            sigs.append([_type_kind(x) for x in _split_top_level(m.group(1))])
        return sigs
    for d in vm.func(q).decorator_list:
        if isinstance(d, ast.Call) and src(d.func).endswith(".export") and len(d.args) >= 2:
            sg = d.args[1]
            if isinstance(sg, ast.Constant) and isinstance(sg.value, str) and "(" in sg.value and ")" in sg.value:
                t = sg.value
                sigs.append([_type_kind(x) for x in _split_top_level(t[t.index("(") + 1: t.rindex(")")])])
            elif isinstance(sg, ast.Tuple):
                sigs.append([_type_kind(src(x)) for x in sg.elts])
    return sigs


def _drop(chk, before):
    """forget the obligations recorded since `before` (an attempt that decided nothing)"""
    for o in chk.obs[before:]:
        chk._seen.discard((o.key, o.status, o.line))
    gone = chk.obs[before:]
    del chk.obs[before:]
    return gone


class _Shim:
    """a module in which one function is replaced (its canonical form): what the engines see of a module is `func`"""

    def __init__(self, mod, fns):
        self._mod, self._fns = mod, fns

    def func(self, q):
        return self._fns[q] if q in self._fns else self._mod.func(q)

    def functions(self):
        d = dict(self._mod.functions())
        d.update(self._fns)
        return d

    def __getattr__(self, n):
        return getattr(self._mod, n)


def spec_check(chk, v, q, vm, override=None):
    """prove a body against the specification formula of the function
    -> (True / False, "") with the obligations recorded, or (None, reason) with nothing recorded.
    override: a FunctionDef analysed in place of vm.func(q)"""
    from . import C07, C12
    from .. import symx
    before = len(chk.obs)
    for k in U.KERNELS:
        for name, f in chk.mod(k).functions().items():
            if "." not in name:
                symx.ANNOTATION_SOURCE[name] = f
    real_mod = chk.mod
    if override is not None:
        vm = _Shim(vm, {q: override})
        chk.mod = lambda rel, _vm=vm: _vm if rel == v else real_mod(rel)
    try:
        if "eval_spline" in q and q.split("_")[-1] in ("scalar", "vector", "cross") and not re.search(r"_\d\d$", q):
            _with_module_funcs(C07.check_evaluator, chk, v, q, vm, rule="V4-body-equivalence")
        elif q == "general_poloidal_advection_step_impl":
            C12.check_implicit(chk, vm, modname=v, qname=q)
        elif q == "general_poloidal_advection_step_expl":
            C12.check_explicit(chk, vm, modname=v, qname=q)
        elif q == "f_eq":
            r, why = feq_equal(chk, v, vm)
            return r, why
        else:
            return None, "there is no specification formula for this function"
    except (Undecided, AnalysisError) as e:
        _drop(chk, before)
        return None, f"the specification check is not applicable ({e})"
    except Exception as e:        # an engine that cannot digest the rewritten body decides nothing
        _drop(chk, before)
        return None, f"the specification check failed on this body ({type(e).__name__}: {e})"
    finally:
        symx.ANNOTATION_SOURCE.clear()
        if override is not None:
            del chk.mod          # back to the class method
    new = chk.obs[before:]
    for o in new:
        o.file = v
    if not new:
        return None, "the specification check produced no obligation"
    if any(o.status == "VIOLATED" for o in new):
        return False, ""
    und = [o for o in new if o.status == "UNDECIDED"]
    if und:
        _drop(chk, before)
        return None, f"the specification check could not extract the formula ({und[0].msg[:160]})"
    return True, ""


def reference_spec(chk, ref, q, pure):
    """the reference body against the same formula (once per function): a copy that satisfies the formula equals the reference
    only if the reference satisfies it too.  The body as written is tried first, then its canonical form."""
    cache = chk.__dict__.setdefault("_c19_refspec", {})
    if (ref, q) in cache:
        return cache[(ref, q)]
    rm = chk.mod(ref)
    before = len(chk.obs)
    r, why = spec_check(chk, ref, q, rm)
    if r is not True:
        first = _drop(chk, before) if r is False else []
        try:
            fn = rm.func(q)
            c = canon_fn(fn, pure, rm.tree)
            c.args = fn.args                    # the engines read the annotations
            c._qual = q
            ast.fix_missing_locations(c)
            for n in ast.walk(c):
                for ch in ast.iter_child_nodes(n):
                    ch._parent = n
            c._parent = getattr(fn, "_parent", None)
            r2, why2 = spec_check(chk, ref, q, rm, override=c)
        except Exception as e:
            r2, why2 = None, f"canonical form not available ({type(e).__name__}: {e})"
        if r2 is True:
            r, why = True, ""
        else:
            if r2 is False:
                _drop(chk, before)
            if r is False:
                chk.obs.extend(first)          # the diagnosis on the body as written
            elif r2 is False:
                r, why = None, "the reference satisfies the formula neither as written nor in canonical form, but only the " \
                    "canonical form gives a definite difference: " + why
    cache[(ref, q)] = (r, why)
    return r, why


def _with_module_funcs(fn, chk, v, q, vm, **kw):
    # variants may split an evaluator into helper functions: let the symbolic interpreter inline them
    from .. import symx
    orig = symx.SymExec.__init__

    def patched(self, f, args, calls=None, consts=None):
        orig(self, f, args, calls, consts)
        self.module_funcs = {n: d for n, d in vm.functions().items() if "." not in n and n != q and n not in (calls or {})}
    symx.SymExec.__init__ = patched
    try:
        fn(chk, v, q, **kw)
    finally:
        symx.SymExec.__init__ = orig


def feq_equal(chk, v, vm):
    """f_eq of the variant equals the reference as a formula (n0, Ti uninterpreted) -> (True/False, "") or (None, reason)"""
    import sympy as sp
    from ..npsym import NpSym
    rm = chk.mod(U.INITF)

    def formula(mod, name="f_eq", actuals=None, depth=0):
        fn = mod.func(name)
        ps = [a.arg for a in fn.args.args]
        if actuals is None:
            actuals = [sp.Symbol(f"a{k}", positive=True) for k in range(len(ps))]
        if len(actuals) != len(ps):
            raise Undecided(f"`{name}` called with {len(actuals)} arguments")
        env = dict(zip(ps, actuals))
        env["pi"] = sp.Symbol("pi", positive=True)
        env["real"] = lambda x: x
        for other in mod.functions():
            if "." not in other and other != name and depth < 3:
                env[other] = (lambda *xs, other=other: formula(mod, other, list(xs), depth + 1))
        n = NpSym(env=env)
        body = [s_ for s_ in fn.body if not isinstance(s_, (ast.Import, ast.ImportFrom, ast.Pass)) and not _is_docstring(s_)]
        if not body or not isinstance(body[-1], ast.Return) or body[-1].value is None or \
                any(not (isinstance(s_, ast.Assign) and len(s_.targets) == 1 and isinstance(s_.targets[0], ast.Name)) for s_ in body[:-1]):
            raise Undecided(f"`{name}` is not a sequence of scalar assignments followed by a return")
        n.run(body[:-1])       # scalar locals by forward substitution
        return n.ev(body[-1].value)
    try:
        a, b = formula(rm), formula(vm)
        ok = sp.simplify(a - b) == 0
    except (Undecided, Exception) as e:
        return None, f"the formula of f_eq is not extractable ({e})"
    chk.ob("V4-body-equivalence", vm.func("f_eq"), f"{v}:f_eq", ok, "same formula as the reference (n0, Ti uninterpreted)" if ok else
           f"formula {b} differs from the reference {a}", file=v, func="f_eq")
    return ok, ""


def call_sites(chk):
    """I1: every library call of a kernel function fits the kernel's signature"""
    kernels = {}
    for k in U.KERNELS:
        for q, fn in chk.mod(k).functions().items():
            if "." not in q:
                kernels[q] = (k, fn)
    n = 0
    for rel in (U.SPLINES, U.INTERP, U.ADV, U.ADVK, U.POISSON, U.INITIALISER, U.CU, U.NU, U.INITF, U.PTOOLS):
        mod = chk.mod(rel)
        # names under which a kernel module as a whole is imported (`from ..initialisation import initialiser_funcs as init`)
        kmods = {k.split("/")[-1][:-3] for k in U.KERNELS}
        aliases = set()
        for st in mod.tree.body:
            if isinstance(st, ast.ImportFrom):
                aliases |= {a.asname or a.name for a in st.names if a.name in kmods}
            elif isinstance(st, ast.Import):
                aliases |= {a.asname for a in st.names if a.asname and a.name.split(".")[-1] in kmods}
        for c in ast.walk(mod.tree):
            if isinstance(c, ast.Call):
                name = c.func.id if isinstance(c.func, ast.Name) else (c.func.attr if isinstance(c.func, ast.Attribute) and
                                                                     isinstance(c.func.value, ast.Name) and c.func.value.id in aliases else None)
                if name in kernels and not _shadowed(c, name) and _imported(mod, name, c):
                    k, fn = kernels[name]
                    formals = [a.arg for a in fn.args.args]
                    nd = len(fn.args.defaults)
                    if any(isinstance(a, ast.Starred) for a in c.args):
                        continue
                    b = agree.bind_call(c, formals)
                    required = formals[:len(formals) - nd]
                    ok = b is not None and all(r in b for r in required)
                    n += 1
                    from ..core import qual
                    chk.ob("I1-call-fits-signature", c, f"{name}(...) in {rel.split('/')[-1]}:{qual(c)}", ok,
                           f"{len(c.args)} positional + {len(c.keywords)} keyword arguments bind {len(formals)} parameters" if ok else
                           f"call does not fit `{name}({', '.join(formals)})`", file=rel, func=qual(c), nontrivial=False)
    if n < 60:
        raise AnalysisError(f"C19: only {n} kernel call sites found (floor 60)")
    chk.extra["kernel_call_sites"] = n


def _shadowed(call, name):
    """is `name` re-bound (nested def, parameter, assignment) in a function enclosing the call?"""
    p = parent(call)
    while p is not None:
        if isinstance(p, (ast.FunctionDef, ast.Lambda)):
            args = p.args
            if any(a.arg == name for a in args.args + args.kwonlyargs):
                return True
            if isinstance(p, ast.FunctionDef):
                for n in ast.walk(p):
                    if isinstance(n, ast.FunctionDef) and n.name == name and n is not p:
                        return True
                    if isinstance(n, ast.Assign) and any(isinstance(t, ast.Name) and t.id == name for t in n.targets):
                        return True
        p = parent(p)
    return False


def _imported(mod, name, call):
    if isinstance(call.func, ast.Attribute):
        return True       # init.<name>
    for st in mod.tree.body:
        if isinstance(st, ast.ImportFrom) and any((a.asname or a.name) == name for a in st.names):
            return True
        if isinstance(st, ast.FunctionDef) and st.name == name:
            return True
    return False


# ---------------------------------------------------------------------------------------------------------
# K1: indices that interpreted Python would wrap around
# ---------------------------------------------------------------------------------------------------------

def _additive_terms(e, sign=1, out=None):
    out = [] if out is None else out
    if isinstance(e, ast.BinOp) and isinstance(e.op, (ast.Add, ast.Sub)):
        _additive_terms(e.left, sign, out)
        _additive_terms(e.right, sign if isinstance(e.op, ast.Add) else -sign, out)
    elif isinstance(e, ast.UnaryOp) and isinstance(e.op, (ast.USub, ast.UAdd)):
        _additive_terms(e.operand, -sign if isinstance(e.op, ast.USub) else sign, out)
    else:
        out.append((sign, e))
    return out


def _from_end(e):
    """-k, -1 - j: an index that is negative by construction (Python counts from the end, compiled code does not)"""
    terms = _additive_terms(e)
    return all(sg < 0 for sg, _ in terms) and any(not isinstance(t, ast.Constant) for _, t in terms)


def _is_mod(e):
    return isinstance(e, ast.BinOp) and isinstance(e.op, ast.Mod)


def _names_outside_mod(e):
    if _is_mod(e):
        return set()
    if isinstance(e, ast.Name):
        return {e.id}
    out = set()
    for c in ast.iter_child_nodes(e):
        out |= _names_outside_mod(c)
    return out


def _int_arrays(fn, ref_fn):
    """parameters declared as integer arrays (own annotation, or the annotation of the reference kernel of the same name)"""
    out = set()
    own = {a.arg for a in fn.args.args}
    for f in (fn, ref_fn):
        if f is None:
            continue
        for a in f.args.args:
            if a.annotation is not None and a.arg in own and re.search(r"\bint\d*\s*\[", src(a.annotation)):
                out.add(a.arg)
    return out


def _data_ints(fn, int_arrays):
    """locals that hold an element of an integer array argument: data, of either sign and any size"""
    T = set()
    for _ in range(4):
        for st in ast.walk(fn):
            if isinstance(st, ast.For):
                it, tg = st.iter, st.target
                if isinstance(it, ast.Call) and src(it.func) == "enumerate" and it.args and isinstance(tg, ast.Tuple) and len(tg.elts) == 2:
                    it, tg = it.args[0], tg.elts[1]
                if isinstance(it, ast.Name) and it.id in int_arrays and isinstance(tg, ast.Name):
                    T.add(tg.id)
            elif isinstance(st, ast.Assign) and len(st.targets) == 1 and isinstance(st.targets[0], ast.Name):
                v = st.value
                if isinstance(v, ast.Subscript) and isinstance(v.value, ast.Name) and v.value.id in int_arrays:
                    T.add(st.targets[0].id)
                elif not _is_mod(v) and (_names_outside_mod(v) & T) and not any(isinstance(c, ast.Call) for c in ast.walk(v)):
                    T.add(st.targets[0].id)
    return T


def _test_side(test, x):
    """which end of the range a condition on the index x tests: 'neg' (x < 0), 'high' (x >= n), None"""
    if not (isinstance(test, ast.Compare) and len(test.ops) == 1):
        return None, None
    l, op, r = test.left, test.ops[0], test.comparators[0]
    if isinstance(r, ast.Name) and r.id == x and not (isinstance(l, ast.Name) and l.id == x):
        l, r = r, l
        op = {ast.Lt: ast.Gt, ast.LtE: ast.GtE, ast.Gt: ast.Lt, ast.GtE: ast.LtE}.get(type(op), type(op))()
    if not (isinstance(l, ast.Name) and l.id == x):
        return None, None
    if isinstance(op, (ast.Lt, ast.LtE)) and src(r) in ("0", "-1"):
        return "neg", r
    if isinstance(op, (ast.Gt, ast.GtE)):
        return "high", r
    return None, None


def _correction(st, x):
    """a statement that re-binds the index x from itself -> ('mod'|'low-if'|'low-while'|'up'|'unknown', text)"""
    if isinstance(st, ast.Assign) and isinstance(st.value, ast.IfExp):
        # x = x - n if x >= n else x   /   x = x if x < n else x - n
        e = st.value
        arms = [(e.body, e.test, True), (e.orelse, e.test, False)]
        keep = [a for a, _, _ in arms if isinstance(a, ast.Name) and a.id == x]
        move = [(a, pol) for a, _, pol in arms if isinstance(a, ast.BinOp) and isinstance(a.left, ast.Name) and a.left.id == x
                and isinstance(a.op, (ast.Add, ast.Sub)) and x not in {n.id for n in ast.walk(a.right) if isinstance(n, ast.Name)}]
        if len(keep) == 1 and len(move) == 1:
            a, pol = move[0]
            side, _ = _test_side(e.test, x)
            if not pol:       # the moving arm is taken when the test is false
                t = e.test
                if isinstance(t, ast.Compare) and len(t.ops) == 1 and isinstance(t.left, ast.Name) and t.left.id == x:
                    side = {ast.Lt: "high", ast.LtE: "high"}.get(type(t.ops[0])) if src(t.comparators[0]) not in ("0", "-1") else \
                        {ast.GtE: "neg", ast.Gt: "neg"}.get(type(t.ops[0]))
                else:
                    side = None
            if isinstance(a.op, ast.Add) and side == "neg":
                return "low-if", src(st)
            if isinstance(a.op, ast.Sub) and side == "high":
                return "up", src(st)
        return "unknown", src(st)
    if isinstance(st, ast.AugAssign):
        op, amount = st.op, st.value
    elif isinstance(st, ast.Assign) and isinstance(st.value, ast.BinOp):
        v = st.value
        op = v.op
        if isinstance(v.left, ast.Name) and v.left.id == x:
            amount = v.right
        elif isinstance(v.right, ast.Name) and v.right.id == x and isinstance(op, ast.Add):
            amount = v.left
        else:
            return "unknown", src(st)
    else:
        return "unknown", src(st)
    if x in {n.id for n in ast.walk(amount) if isinstance(n, ast.Name)}:
        return "unknown", src(st)
    if isinstance(op, ast.Mod):
        return "mod", src(st)
    p = parent(st)
    if not isinstance(p, (ast.If, ast.While)) or st not in p.body:
        return "unknown", src(st)
    side, _ = _test_side(p.test, x)
    head = ("while " if isinstance(p, ast.While) else "if ") + src(p.test) + ": " + src(st)
    if isinstance(op, ast.Add) and side == "neg":
        return ("low-while" if isinstance(p, ast.While) else "low-if"), head
    if isinstance(op, ast.Sub) and side == "high":
        return "up", head
    return "unknown", head


def periodic_indices(chk, rel, q, fn, ref_fn):
    """-> number of violations recorded"""
    R = "K1-no-negative-index-wrap"
    nviol = 0
    int_arrays = _int_arrays(fn, ref_fn)
    data = _data_ints(fn, int_arrays)
    stmts = sorted((st for st in ast.walk(fn) if isinstance(st, ast.stmt) and st is not fn), key=lambda s_: (s_.lineno, s_.col_offset))
    pos = {id(st): k for k, st in enumerate(stmts)}
    stores: dict[str, list] = {}
    for st in stmts:
        if isinstance(st, (ast.Assign, ast.AugAssign, ast.AnnAssign)):
            for t in (st.targets if isinstance(st, ast.Assign) else [st.target]):
                if isinstance(t, ast.Name):
                    stores.setdefault(t.id, []).append(st)
                elif isinstance(t, ast.Tuple):
                    for e in t.elts:
                        if isinstance(e, ast.Name):
                            stores.setdefault(e.id, []).append(None)
        elif isinstance(st, ast.For):
            for e in ast.walk(st.target):
                if isinstance(e, ast.Name):
                    stores.setdefault(e.id, []).append(None)

    # loop counters with a literal first value: for j in range(n) / range(a, ...) / enumerate(X)
    first_value = {}
    for st in stmts:
        if isinstance(st, ast.For) and isinstance(st.iter, ast.Call) and isinstance(st.iter.func, ast.Name):
            nm, start = None, None
            if st.iter.func.id == "range" and isinstance(st.target, ast.Name) and len(st.iter.args) in (1, 2) or \
                    (st.iter.func.id == "range" and isinstance(st.target, ast.Name) and len(st.iter.args) == 3
                     and isinstance(st.iter.args[2], ast.Constant) and isinstance(st.iter.args[2].value, int) and st.iter.args[2].value > 0):
                nm = st.target.id
                a0 = st.iter.args[0] if len(st.iter.args) >= 2 else ast.Constant(0)
                start = a0.value if isinstance(a0, ast.Constant) and isinstance(a0.value, int) else None
            elif st.iter.func.id == "enumerate" and isinstance(st.target, ast.Tuple) and st.target.elts and isinstance(st.target.elts[0], ast.Name) \
                    and len(st.iter.args) == 1:
                nm, start = st.target.elts[0].id, 0
            if nm is not None:
                first_value[nm] = start if nm not in first_value or first_value[nm] == start else None

    def first_iteration_negative(e):
        """`j - c` with j a loop counter whose first value is smaller than the literal c"""
        terms = _additive_terms(e)
        pos_ = [t for sg, t in terms if sg > 0 and not isinstance(t, ast.Constant)]
        neg_ = [t for sg, t in terms if sg < 0 and not isinstance(t, ast.Constant)]
        if len(pos_) != 1 or neg_ or not isinstance(pos_[0], ast.Name) or first_value.get(pos_[0].id) is None:
            return None
        if len(stores.get(pos_[0].id, [])) != sum(1 for st in stmts if isinstance(st, ast.For) and pos_[0].id in {n.id for n in ast.walk(st.target) if isinstance(n, ast.Name)}):
            return None       # the counter is also assigned elsewhere
        const = sum(sg * t.value for sg, t in terms if isinstance(t, ast.Constant) and isinstance(t.value, int) and not isinstance(t.value, bool))
        if any(isinstance(t, ast.Constant) and not isinstance(t.value, int) for _, t in terms):
            return None
        v0 = first_value[pos_[0].id] + const
        return (pos_[0].id, first_value[pos_[0].id], v0) if v0 < 0 else None

    def resolve(e, depth=0):
        """single-assignment scalar locals written back (two levels): `d = i - s; idx = d` is `idx = i - s`"""
        if depth > 2:
            return e

        class Sub(ast.NodeTransformer):
            def visit_Name(self, n):
                ds = stores.get(n.id, [])
                if isinstance(n.ctx, ast.Load) and len(ds) == 1 and isinstance(ds[0], ast.Assign) and len(ds[0].targets) == 1 \
                        and isinstance(ds[0].value, (ast.BinOp, ast.UnaryOp, ast.Name)) and n.id not in data:
                    return resolve(ast.parse(src(ds[0].value), mode="eval").body, depth + 1)
                return n
        return Sub().visit(ast.parse(src(e), mode="eval").body)

    def may_be_negative(e):
        """recognisable reasons why an index value can be negative: a variable is subtracted, or it contains array data"""
        if _is_mod(e):
            return None
        terms = _additive_terms(e)
        if len(terms) == 1 and not (terms[0][0] < 0) and not (_names_outside_mod(e) & data):
            return None
        if all(sg < 0 for sg, _ in terms) and any(not isinstance(t, ast.Constant) for _, t in terms):
            return f"`{src(e)}` counts from the end of the array (negative for every positive `{src([t for _, t in terms if not isinstance(t, ast.Constant)][0])}`)"
        for sg, t in terms:
            if sg < 0 and _is_mod(t):
                return f"`{src(t)}` can exceed the rest of `{src(e)}`"
        for sg, t in terms:
            if _names_outside_mod(t) & data:
                nm = sorted(_names_outside_mod(t) & data)[0]
                return f"`{nm}` is an element of the integer array argument `{sorted(int_arrays)[0] if int_arrays else '?'}` (any sign, any size)"
        for sg, t in terms:
            if sg < 0 and not isinstance(t, ast.Constant):
                return f"the variable `{src(t)}` is subtracted"
        return None

    seen = set()
    for sub in ast.walk(fn):
        if not isinstance(sub, ast.Subscript) or isinstance(sub.value, ast.Attribute) and sub.value.attr == "shape":
            continue
        items = sub.slice.elts if isinstance(sub.slice, ast.Tuple) else [sub.slice]
        for it in items:
            if isinstance(it, ast.Slice) or isinstance(it, ast.Constant):
                continue
            if isinstance(it, ast.Name):
                x = it.id
                if x in seen:
                    continue
                seen.add(x)
                defs = [d for d in stores.get(x, []) if d is not None]
                if len(defs) != len(stores.get(x, [])):
                    continue          # loop counters and unpacked values: not an index computed here
                base = [d for d in defs if isinstance(d, ast.Assign) and x not in {n.id for n in ast.walk(d.value) if isinstance(n, ast.Name)}]
                corr = [d for d in defs if d not in base]
                for k, d in enumerate(sorted(base, key=lambda d_: pos[id(d_)])):
                    nxt = min([pos[id(o)] for o in base if pos[id(o)] > pos[id(d)]], default=10 ** 9)
                    mine = [_correction(c, x) for c in corr if pos[id(d)] < pos[id(c)] < nxt]
                    val = resolve(d.value)
                    fi = first_iteration_negative(val)
                    if fi is not None and not mine:
                        nviol += 1
                        chk.ob(R, d, f"index {x} = {src(d.value)}", False,
                               f"the loop counter `{fi[0]}` starts at {fi[1]}, so `{x} = {src(d.value)}` is {fi[2]} in the first iteration and "
                               f"nothing brings it back into range: interpreted Python indexes `{src(sub)[:40]}` from the end, the compiled "
                               "(pyccel/pythran) kernel does not wrap a negative index and accesses memory before the array", file=rel, func=q)
                        continue
                    why = may_be_negative(val)
                    kinds = {k_ for k_, _ in mine}
                    shown = f"index {x} = {src(d.value)}" + "".join("; " + t for _, t in mine[:2])
                    if why is None:
                        if _is_mod(val) and any(sg < 0 for sg, _ in _additive_terms(val.left)):
                            chk.ob(R, d, f"index {x} = {src(d.value)}", True, "the difference is reduced with `%` before it is used as an "
                                   "index: never negative, in interpreted and in compiled code alike", file=rel, func=q)
                        continue
                    wrapped_mod = any(sg < 0 and _is_mod(t) for sg, t in _additive_terms(val))
                    if "mod" in kinds or "low-while" in kinds:
                        chk.ob(R, d, shown, True, "the index is brought into range by `%` / by a loop that adds the period as long as it is "
                               "negative", file=rel, func=q)
                    elif "unknown" in kinds:
                        chk.ob(R, d, shown, None, f"the index can be negative ({why}) and is re-bound by `{[t for k_, t in mine if k_ == 'unknown'][0][:80]}`, "
                               "which is none of the recognised range corrections: cannot decide whether a negative value reaches the subscript",
                               file=rel, func=q)
                    elif wrapped_mod:
                        nviol += 1
                        chk.ob(R, sub, f"{src(sub)[:60]} with index {src(d.value)}", False,
                               f"the index `{src(d.value)}` can be negative ({why}): interpreted Python wraps it around, the compiled "
                               "(pyccel/pythran) kernel reads/writes out of bounds", file=rel, func=q)
                    elif "low-if" in kinds:
                        variable = [t for sg, t in _additive_terms(val) if sg < 0 and not isinstance(t, ast.Constant)] or \
                            [t for sg, t in _additive_terms(val) if _names_outside_mod(t) & data]
                        if not variable:
                            continue      # a constant offset: one period is enough
                        b0 = [t for k_, t in mine if k_ == "low-if"][0]
                        nviol += 1
                        chk.ob(R, d, f"index {x} = {src(d.value)}; {b0}", False,
                               f"`{x} = {src(d.value)}` is brought back into range by adding the period once: when the shift exceeds one period "
                               f"`{x}` stays negative - interpreted Python then indexes from the end (silently, and here even correctly), the "
                               "compiled kernel reads/writes before the start of the array", file=rel, func=q)
                    elif "up" in kinds:
                        up = [t for k_, t in mine if k_ == "up"][0]
                        nviol += 1
                        chk.ob(R, d, f"index {x} = {src(d.value)}; {up}", False,
                               f"`{x} = {src(d.value)}` is corrected only at the upper end (`{up}`); it can be negative ({why}) and "
                               f"nothing adds the period back: interpreted Python silently indexes `{src(sub)[:40]}` from the end (the "
                               "plane the modulo would have given), the compiled (pyccel/pythran) kernel does not wrap a negative index and "
                               "reads/writes before the start of the array, leaving the intended element untouched", file=rel, func=q)
                    elif (_names_outside_mod(val) & data) or _from_end(val):
                        nviol += 1
                        chk.ob(R, d, f"index {x} = {src(d.value)} (never reduced)", False,
                               f"`{x} = {src(d.value)}` is used as an index as it is; {why}, so it can be negative: interpreted Python "
                               "wraps it around, the compiled kernel reads/writes out of bounds", file=rel, func=q)
                    # otherwise: a structural offset such as span - degree + j, kept non-negative by the callers' contract
            else:
                key = src(it)
                if key in seen:
                    continue
                seen.add(key)
                val = resolve(it)
                fi = first_iteration_negative(val)
                if fi is not None:
                    nviol += 1
                    chk.ob(R, sub, f"{src(sub)[:60]} with index {src(it)}", False,
                           f"the loop counter `{fi[0]}` starts at {fi[1]}, so `{src(it)}` is {fi[2]} in the first iteration: interpreted Python "
                           f"reads/writes `{src(sub.value)}` from the end (the periodic neighbour), the compiled (pyccel/pythran) kernel does "
                           "not wrap a negative index and accesses memory before the array", file=rel, func=q)
                    continue
                why = may_be_negative(val)
                if why is None:
                    if _is_mod(val) and any(sg < 0 for sg, _ in _additive_terms(val.left)):
                        chk.ob(R, sub, f"{src(sub)[:60]}", True, "the difference is reduced with `%` inside the subscript", file=rel, func=q)
                    continue
                if any(sg < 0 and _is_mod(t) for sg, t in _additive_terms(val)) or (_names_outside_mod(val) & data) or _from_end(val):
                    nviol += 1
                    chk.ob(R, sub, f"{src(sub)[:60]} with index {src(it)}", False,
                           f"the index `{src(it)}` can be negative ({why}): interpreted Python wraps it around, the compiled "
                           "(pyccel/pythran) kernel reads/writes out of bounds", file=rel, func=q)
    return nviol


def index_wrap(chk):
    """K1: compiled code does not wrap negative indices; K2: loop counters after their loop"""
    files = list(U.KERNELS) + [v for vs in U.VARIANTS.values() for v in vs]
    n = 0
    n2 = [0]
    reference = {}
    for k in U.KERNELS:
        for q, f in chk.mod(k).functions().items():
            reference.setdefault(q, f)
    for rel in files:
        mod = chk.mod(rel)
        for q, fn in mod.functions().items():
            try:
                n += periodic_indices(chk, rel, q, fn, reference.get(q))
            except Exception as e:          # a defect of the index analysis decides nothing about the kernel
                chk.ob("K1-no-negative-index-wrap", fn, f"{rel}:{q}", None, f"index analysis failed ({type(e).__name__}: {e})", file=rel, func=q)
            # K2: value of a loop variable after its loop: Python keeps the last value taken, Fortran/C the first value not taken
            for lp in ast.walk(fn):
                if not isinstance(lp, ast.For) or any(isinstance(b_, ast.Break) for b_ in ast.walk(lp)):
                    continue
                tnames = {t.id for t in ast.walk(lp.target) if isinstance(t, ast.Name)}
                if isinstance(lp.iter, ast.Call) and src(lp.iter.func) == "enumerate" and isinstance(lp.target, ast.Tuple) \
                        and isinstance(lp.target.elts[0], ast.Name):
                    counters = {lp.target.elts[0].id}
                elif isinstance(lp.iter, ast.Call) and src(lp.iter.func) == "range":
                    counters = tnames
                else:
                    counters = set()
                inside = {id(x_) for x_ in ast.walk(lp)}
                for nm in counters:
                    later = [x_ for x_ in ast.walk(fn) if isinstance(x_, ast.Name) and x_.id == nm and id(x_) not in inside
                             and (x_.lineno, x_.col_offset) > (lp.end_lineno, 0)]
                    stores = [x_ for x_ in later if isinstance(x_.ctx, ast.Store)]
                    first_store = min(((x_.lineno, x_.col_offset) for x_ in stores), default=(10 ** 9, 0))
                    for x_ in later:
                        if isinstance(x_.ctx, ast.Load) and (x_.lineno < first_store[0] or
                                                             (x_.lineno == first_store[0] and isinstance(parent(x_), ast.AugAssign) is False and
                                                              x_.col_offset > first_store[1])):
                            n2[0] += 1
                            st_ = x_
                            while not isinstance(st_, ast.stmt):
                                st_ = parent(st_)
                            chk.ob("K2-loop-variable-after-loop", st_, f"`{nm}` read in `{src(st_)[:60]}` after `for {src(lp.target)} in {src(lp.iter)[:40]}`", False,
                                   f"after the loop Python leaves `{nm}` at the last value it took, the compiled Fortran/C loop at the first "
                                   f"value it did not take: `{src(st_)[:60]}` addresses a different element in the compiled kernel (one past the "
                                   "intended one)", file=rel, func=q)
                            break
    chk.ob("K2-loop-variable-after-loop", None, "kernels and variants", n2[0] == 0, f"{len(files)} kernel files scanned: no counter of a "
           "for loop is read after its loop" if n2[0] == 0 else f"{n2[0]} reads of a loop counter after its loop", file="pygyro",
           func="<kernels>", nontrivial=False)
    chk.ob("K1-no-negative-index-wrap", None, "kernels and variants", n == 0, f"{len(files)} kernel files scanned: no index of the form "
           "X - (Y % n), no one-sided or single-step wrap of a subtracted index, no unreduced index built from array data" if n == 0 else f"{n} indices rely on negative wrap-around", file="pygyro", func="<kernels>", nontrivial=False)


def build_witness(chk, tier):
    """B1: the documented compiler front end accepts the kernels of the working tree"""
    pyccel = "/venv/bin/pyccel"
    if not os.path.exists(pyccel):
        raise AnalysisError("pyccel not found in /venv")
    tmp = tempfile.mkdtemp(prefix="pgverif_c19_")
    try:
        shutil.copytree(chk.repo.root / "pygyro", os.path.join(tmp, "pygyro"),
                        ignore=shutil.ignore_patterns("__pycache__", "__pyccel__", "*.so", "*.o", "*.mod", "tests"))
        for f in ("Makefile",):
            shutil.copy(chk.repo.root / f, os.path.join(tmp, f))

        def one(rel):
            d, f = os.path.split(rel)
            p = subprocess.run([pyccel, "-t", f], cwd=os.path.join(tmp, d), capture_output=True, text=True, timeout=600,
                               env={**os.environ, "PYTHONWARNINGS": "ignore"})
            return rel, p.returncode, (p.stdout + p.stderr)[-1500:]
        # the advection kernel imports the three others: translate it after them (as the Makefile does)
        first = [r for r in BUILD_ORDER if r != U.ADVK]
        with ThreadPoolExecutor(max_workers=4) as ex:
            results = list(ex.map(one, first))
        results.append(one(U.ADVK))
        for rel, rc, out in results:
            errs = [l for l in out.splitlines() if "error" in l.lower() or "ERROR" in l]
            # a diagnosis of the compiler about the source (|error [stage]: file [line,col]| ...) is a verdict; anything else that
            # makes the process fail (crash of the tool, environment) decides nothing about the kernel
            diagnosed = any(re.search(r"\|\s*(error|fatal)\b|ERROR at .* stage", l) for l in out.splitlines())
            okb = True if rc == 0 else (False if diagnosed else None)
            chk.ob("B1-build-front-end", None, f"pyccel -t {rel}", okb, "translated (syntax, semantic/type analysis and code generation) "
                   "without error" if rc == 0 else ("pyccel rejects the kernel: " if diagnosed else "pyccel failed without a diagnosis of "
                                                    "the source (tool or environment problem?): ") + " | ".join(errs[-3:] or out.splitlines()[-3:]),
                   file=rel, func="<module>")
        if tier == "thorough":
            for lang in ("fortran", "c"):
                p = subprocess.run(["make", "ACC=pycc", f"LANGUAGE={lang}", "PYTHON=/venv/bin/python"], cwd=tmp, capture_output=True, text=True,
                                   timeout=1800, env={**os.environ, "PATH": "/venv/bin:" + os.environ.get("PATH", ""), "PYTHONWARNINGS": "ignore"})
                tail = (p.stdout + p.stderr).splitlines()[-4:]
                chk.ob("B1-documented-make", None, f"make ACC=pycc LANGUAGE={lang}", p.returncode == 0,
                       "the documented build completes" if p.returncode == 0 else "build fails: " + " | ".join(tail), file="Makefile",
                       func="<build>")
                subprocess.run(["make", "clean"], cwd=tmp, capture_output=True, text=True, timeout=600,
                               env={**os.environ, "PATH": "/venv/bin:" + os.environ.get("PATH", "")})
    finally:
        shutil.rmtree(tmp, ignore_errors=True)


def makefile_targets(chk):
    """the documented build compiles exactly the five kernel modules"""
    found = set()
    all_targets = []
    for d, names in (("pygyro/splines", ("spline_eval_funcs", "cubic_uniform_spline_eval_funcs")),
                     ("pygyro/initialisation", ("initialiser_funcs",)), ("pygyro/advection", ("accelerated_advection_steps",)),
                     ("pygyro/poisson", ("poisson_tools",))):
        txt = chk.repo.text(d + "/Makefile")
        for nm in names:
            all_targets.append((d, nm))
            if re.search(r"^" + nm + r"\$\(SO_EXT\):\s*(?:pythran_deps/)?\$\(NAME_PREFIX\)" + nm + r"\.py", txt, re.M):
                found.add(nm)
    ok = len(found) == 5
    if ok:
        chk.ob("B1-makefile-targets", None, "kernel targets of pygyro/*/Makefile", True, "the five kernels are the build targets, each built "
               "from $(NAME_PREFIX)<kernel>.py", file="pygyro/Makefile", func="<build>", nontrivial=False)
        return
    # a kernel whose rule is written differently: wrong only when a rule for it exists and names another source
    wrong = []
    for d, nm in all_targets:
        if nm in found:
            continue
        txt = chk.repo.text(d + "/Makefile")
        for m in re.finditer(r"^" + nm + r"\$\(SO_EXT\)\s*:\s*(\S+)", txt, re.M):
            first = m.group(1)
            if first.endswith(".py") and not first.endswith(nm + ".py"):
                wrong.append(f"{d}/Makefile builds {nm}$(SO_EXT) from `{first}`")
    chk.ob("B1-makefile-targets", None, "kernel targets of pygyro/*/Makefile", False if wrong else None,
           ("the documented build compiles another source than the kernel the library imports: " + "; ".join(wrong)) if wrong else
           f"the rules of {sorted(nm for _, nm in all_targets if nm not in found)} are not written in the recognised form "
           "`<kernel>$(SO_EXT): $(NAME_PREFIX)<kernel>.py` (the build witness B1 still translates the kernels themselves)",
           file="pygyro/Makefile", func="<build>", nontrivial=False)


def run(chk):
    chk.explanation = (
        "Compile-fail witness: pyccel (the repository's own compiler) translates each of the five kernels of the working tree on a "
        "scratch copy (thorough: the documented make for Fortran and C); every library call site of a kernel fits its signature; "
        "numba/pythran copies define the consumer-imported names, bind the reference's calls the same way, and export signatures of "
        "matching arity and argument types; duplicated pythran copies agree; each variant body is AST-identical to the reference, "
        "identical in canonical form (temporaries and hoisted invariants written back, early returns, merged arms, enumerate/range, "
        "operand order), proved against the same specification formula as the reference (engine F, helper functions inlined), or "
        "statement-for-statement equal with algebraically equal expressions - a recognisably different expression is a violation, "
        "anything else undecided; no kernel index relies on negative wrap-around (modulo lost, one-sided or single-step range "
        "correction, unreduced array data) and no loop counter is read after its loop. Equality of compiled and interpreted "
        "numerical results is inherently dynamic and is not decided.")
    chk.trusted.append("pyccel 2.0.1 front end (type/semantic analysis) from /venv")
    chk.in_file("pygyro")
    makefile_targets(chk)
    reference_inputs(chk)
    variant_agreement(chk)
    call_sites(chk)
    index_wrap(chk)
    build_witness(chk, chk.tier)
    chk.floor("B1-build-front-end", 5)
    chk.floor("V4-body-equivalence", 55)
    chk.floor("V1-", 60)
