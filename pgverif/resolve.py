"""Engine A: whole-program index and callee resolution for the analysed units.

Resolution is purpose-built for this repository (it has almost no type
annotations outside the kernels):  direct names through imports, ``self.m``
through the class hierarchy, receivers typed by parameter annotations, by a
constructor call in scope, or by the frozen receiver table below.
"""
from __future__ import annotations

import ast
from .core import Repo, Module, AnalysisError, src, enclosing_function, parent
from . import units as U

# attribute -> class, for un-annotated attributes (confirmed by reading)
RECEIVER_TABLE = {
    "self._layout_manager": ["LayoutHandler", "LayoutSwapper"],
    "self._managers[]": ["LayoutHandler"],
    "self._current_manager": ["LayoutHandler"],
    "self._layout": ["Layout"],
    "self._layouts[]": ["Layout"],
    "self._interpolator": ["SplineInterpolator1D", "SplineInterpolator2D"],
    "self._interp1": ["SplineInterpolator1D"],
    "self._interp2": ["SplineInterpolator1D"],
    "self._spline": ["Spline1D", "Spline2D"],
    "self._thetaSpline": ["Spline1D"],
    "self._real_spline": ["Spline1D"],
    "self._rspline": ["BSplines"],
    "self._basis": ["BSplines"],
    "self._basis1": ["BSplines"],
    "self._basis2": ["BSplines"],
}

# function -> class of (first element of) return value
RETURNS = {
    "getLayoutHandler": "LayoutHandler",
    "setupCylindricalGrid": "Grid",
    "setupFromFile": "Grid",
}

ANNOT_CLASSES = {"Grid", "Layout", "LayoutManager", "LayoutHandler", "LayoutSwapper", "BSplines", "Spline1D",
                 "Spline2D", "ParallelGradient"}

# method names that also exist on numpy arrays / builtins: never resolved by
# name-uniqueness alone
AMBIGUOUS = {"transpose", "reduce", "min", "max", "copy", "reshape", "flatten", "index", "count", "pop",
             "append", "extend", "items", "keys", "values", "get", "eval", "step", "format", "split", "close",
             "create", "sum", "all", "any", "solve", "dot", "conj", "remove", "update", "sort",
             "insert", "clear", "reverse", "fill", "view", "item", "tolist", "astype", "ravel", "squeeze", "mean", "prod",
             "send", "throw", "read", "write", "join", "find", "replace", "strip", "lower", "upper", "add", "discard",
             "setdefault", "popitem", "next", "start", "run", "put", "take", "round", "clip", "cumsum", "argsort", "swapaxes"}


class Program:
    def __init__(self, repo: Repo, units: list[str]):
        self.repo = repo
        self.mods: dict[str, Module] = {u: repo.mod(u) for u in units}
        self.classes: dict[str, tuple[str, ast.ClassDef]] = {}
        self.funcs: dict[str, tuple[str, ast.FunctionDef]] = {}     # top-level functions by bare name
        self.methods: dict[str, list[tuple[str, str, ast.FunctionDef]]] = {}   # name -> [(rel, Class, node)]
        for rel, m in self.mods.items():
            for st in m.tree.body:
                if isinstance(st, ast.ClassDef):
                    self.classes.setdefault(st.name, (rel, st))
                    for b in st.body:
                        if isinstance(b, ast.FunctionDef):
                            self.methods.setdefault(b.name, []).append((rel, st.name, b))
                elif isinstance(st, ast.FunctionDef):
                    self.funcs.setdefault(st.name, (rel, st))
        self.bases = {c: [src(b).split(".")[-1] for b in n.bases] for c, (_, n) in self.classes.items()}

    # -- class hierarchy helpers
    def mro(self, cls):
        out, todo = [], [cls]
        while todo:
            c = todo.pop(0)
            if c in out or c not in self.classes:
                continue
            out.append(c)
            todo.extend(self.bases.get(c, []))
        return out

    def subclasses(self, cls):
        return [c for c in self.classes if cls in self.mro(c) and c != cls]

    def find_method(self, cls, name):
        """definitions of method `name` visible on an object statically typed `cls`
        (own/base definition, or - for abstract bases - every subclass definition)."""
        res = []
        for c in self.mro(cls):
            rel, node = self.classes[c]
            for b in node.body:
                if isinstance(b, ast.FunctionDef) and b.name == name:
                    res.append((rel, c, b))
                    break
            if res:
                break
        for sc in self.subclasses(cls):
            rel, node = self.classes[sc]
            for b in node.body:
                if isinstance(b, ast.FunctionDef) and b.name == name and (rel, sc, b) not in res:
                    res.append((rel, sc, b))
        return res

    # -- receiver typing
    def type_of(self, expr, fn, cls_name):
        """static class candidates of an expression (list of class names) or []"""
        s = src(expr)
        if isinstance(expr, ast.Name):
            if expr.id == "self" and cls_name:
                return [cls_name]
            # parameter annotation
            if fn is not None:
                for a in fn.args.args + fn.args.kwonlyargs:
                    if a.arg == expr.id and a.annotation is not None:
                        t = src(a.annotation).split(".")[-1].strip("'\"")
                        if t in self.classes:
                            return [t]
                # constructor / factory call in scope.  AUDIT: the name may be bound several times; every class it is given by a
                # constructor / factory call is a candidate (a MAY set, as for the receiver table) - not only the first one met
                found = []
                for n in ast.walk(fn):
                    tg, val = None, None
                    if isinstance(n, ast.Assign) and isinstance(n.value, ast.Call):
                        tg, val = n.targets[0], n.value
                    elif isinstance(n, ast.AnnAssign) and isinstance(n.target, ast.Name) and n.target.id == expr.id:
                        t = src(n.annotation).split(".")[-1].strip("'\"")
                        if t in self.classes and t not in found:
                            found.append(t)
                        continue
                    elif isinstance(n, ast.NamedExpr) and isinstance(n.value, ast.Call):
                        tg, val = n.target, n.value
                    elif isinstance(n, ast.withitem) and n.optional_vars is not None and isinstance(n.context_expr, ast.Call):
                        continue          # `with C() as x`: x is what __enter__ returns, not the C object: not typed
                    if tg is None:
                        continue
                    names = [tg.id] if isinstance(tg, ast.Name) else \
                        [e.id for e in tg.elts[:1] if isinstance(e, ast.Name)] if isinstance(tg, ast.Tuple) else []
                    if expr.id in names:
                        f = val.func
                        fname = f.id if isinstance(f, ast.Name) else f.attr if isinstance(f, ast.Attribute) else ""
                        if fname in self.classes and isinstance(tg, ast.Name):
                            if fname not in found:
                                found.append(fname)
                        elif fname in RETURNS:
                            if RETURNS[fname] not in found:
                                found.append(RETURNS[fname])
                if found:
                    return found
            return []
        key = s
        if isinstance(expr, ast.Subscript):
            key = src(expr.value) + "[]"
        if key in RECEIVER_TABLE:
            return list(RECEIVER_TABLE[key])
        if isinstance(expr, ast.Call):
            f = expr.func
            fname = f.id if isinstance(f, ast.Name) else f.attr if isinstance(f, ast.Attribute) else ""
            if fname in self.classes:
                return [fname]
            if fname in RETURNS:
                return [RETURNS[fname]]
            if fname == "getLayout":
                return ["Layout"]
        return []

    def resolve(self, call: ast.Call, rel: str):
        """-> list of (rel, qualname, node) callee candidates, [] if external/unresolved."""
        fn = enclosing_function(call)
        cls_name = None
        p = parent(fn) if fn is not None else None
        while p is not None and not isinstance(p, ast.ClassDef):
            p = parent(p)
        if p is not None:
            cls_name = p.name
        f = call.func
        if isinstance(f, ast.Name) and f.id == "next" and call.args and f.id not in self.funcs:
            # next(g): the code that runs is the body of the generator g was made from
            return self.generator_sources(call.args[0], fn, rel)
        if isinstance(f, ast.Name):
            if f.id in self.classes:
                init = self.find_method(f.id, "__init__")
                return [(r, f"{c}.__init__", n) for r, c, n in init[:1]]
            if f.id in self.funcs:
                r, n = self.funcs[f.id]
                return [(r, f.id, n)]
            return []
        if isinstance(f, ast.Attribute):
            recv = f.value
            # ClassName.method(self, ...)
            if isinstance(recv, ast.Name) and recv.id in self.classes:
                return [(r, f"{c}.{f.attr}", n) for r, c, n in self.find_method(recv.id, f.attr)[:1]]
            # module alias: init.feq_vector
            if isinstance(recv, ast.Name) and f.attr in self.funcs and recv.id not in ("self",) \
                    and not self.type_of(recv, fn, cls_name):
                # only when recv is an imported module name
                if self._is_module_alias(recv.id, rel):
                    r, n = self.funcs[f.attr]
                    return [(r, f.attr, n)]
            types = self.type_of(recv, fn, cls_name)
            res = []
            for t in types:
                for r, c, n in self.find_method(t, f.attr):
                    if (r, f"{c}.{f.attr}", n) not in res:
                        res.append((r, f"{c}.{f.attr}", n))
            if res:
                return res
            # AUDIT: receiver of unknown type: every method of that name in the analysed units (a MAY set; see resolve_how).
            # Names that numpy arrays / builtins / MPI objects also have are never resolved this way (AMBIGUOUS)
            if not types and f.attr in self.methods and f.attr not in AMBIGUOUS and not f.attr.startswith("__"):
                return [(r, f"{c}.{f.attr}", n) for r, c, n in self.methods[f.attr]]
        return []

    @staticmethod
    def is_generator(fn):
        """does the function contain a yield of its own (not one of a nested function)?"""
        todo = list(fn.body)
        while todo:
            n = todo.pop()
            if isinstance(n, (ast.Yield, ast.YieldFrom)):
                return True
            if isinstance(n, (ast.FunctionDef, ast.AsyncFunctionDef, ast.Lambda, ast.ClassDef)):
                continue
            todo += list(ast.iter_child_nodes(n))
        return False

    def generator_sources(self, e, fn, rel, _depth=0):
        """the generator functions of the analysed units an iterator expression runs: a call of one, iter(<such a call>), or a
        local name bound to one in the enclosing function.  [] when unknown (never a guess by name)"""
        if _depth > 4 or e is None:
            return []
        if isinstance(e, ast.Call):
            f = e.func
            if isinstance(f, ast.Name) and f.id in ("iter", "enumerate", "reversed") and e.args:
                return self.generator_sources(e.args[0], fn, rel, _depth + 1)
            if isinstance(f, ast.Name) and f.id in ("zip", "map", "filter", "chain"):
                out = []
                for a in e.args:
                    out += [c for c in self.generator_sources(a, fn, rel, _depth + 1) if c not in out]
                return out
            return [(r, q, n) for r, q, n in self.resolve(e, rel) if self.is_generator(n)]
        if isinstance(e, ast.Name) and fn is not None:
            out = []
            for n in ast.walk(fn):
                val = None
                if isinstance(n, ast.Assign) and any(isinstance(t, ast.Name) and t.id == e.id for t in n.targets):
                    val = n.value
                elif isinstance(n, ast.NamedExpr) and isinstance(n.target, ast.Name) and n.target.id == e.id:
                    val = n.value
                if val is not None and not (isinstance(val, ast.Name) and val.id == e.id):
                    out += [c for c in self.generator_sources(val, fn, rel, _depth + 1) if c not in out]
            return out
        return []

    def resolve_how(self, call: ast.Call, rel: str):
        """-> (candidates, how) with how in 'none' | 'exact' (a name, a class, self/typed receiver) | 'by-name' (an untyped
        receiver whose method name is defined in the analysed units: a MAY set that can contain a callee the call never reaches,
        e.g. when the receiver is an object of a library).  Callers that turn `the callee does X` into a violation should require
        'exact'."""
        res = self.resolve(call, rel)
        if not res:
            return res, "none"
        f = call.func
        if isinstance(f, ast.Attribute) and not (isinstance(f.value, ast.Name) and (f.value.id in self.classes or self._is_module_alias(f.value.id, rel))):
            fn = enclosing_function(call)
            p = parent(fn) if fn is not None else None
            while p is not None and not isinstance(p, ast.ClassDef):
                p = parent(p)
            if not self.type_of(f.value, fn, p.name if p is not None else None):
                return res, "by-name"
        return res, "exact"

    def _is_module_alias(self, name, rel):
        for st in self.mods[rel].tree.body:
            if isinstance(st, ast.ImportFrom):
                for a in st.names:
                    if (a.asname or a.name) == name and a.name not in self.funcs and a.name not in self.classes:
                        return True
            if isinstance(st, ast.Import):
                for a in st.names:
                    if (a.asname or a.name.split(".")[0]) == name:
                        return True
        return False


def inline_locals(fn: ast.FunctionDef):
    """Map name -> RHS for locals assigned exactly once by a plain `name = expr`
    (never augmented, never a loop target).  Used to make rules insensitive to
    the introduction of temporaries."""
    counts: dict[str, int] = {}
    rhs: dict[str, ast.AST] = {}
    for n in ast.walk(fn):
        if isinstance(n, ast.Assign):
            for t in n.targets:
                for nm in _target_names(t):
                    counts[nm] = counts.get(nm, 0) + 1
                if isinstance(t, ast.Name):
                    rhs[t.id] = n.value
        elif isinstance(n, (ast.AugAssign, ast.AnnAssign)):
            for nm in _target_names(n.target):
                counts[nm] = counts.get(nm, 0) + 2
        elif isinstance(n, (ast.For, ast.comprehension)):
            for nm in _target_names(n.target):
                counts[nm] = counts.get(nm, 0) + 2
        elif isinstance(n, ast.With):
            for it in n.items:
                if it.optional_vars is not None:
                    for nm in _target_names(it.optional_vars):
                        counts[nm] = counts.get(nm, 0) + 2
    for a in fn.args.args + fn.args.kwonlyargs:
        counts[a.arg] = counts.get(a.arg, 0) + 2
    return {k: v for k, v in rhs.items() if counts.get(k) == 1}


def _target_names(t):
    if isinstance(t, ast.Name):
        return [t.id]
    if isinstance(t, (ast.Tuple, ast.List)):
        out = []
        for e in t.elts:
            out.extend(_target_names(e))
        return out
    if isinstance(t, ast.Starred):
        return _target_names(t.value)
    return []


class _Inliner(ast.NodeTransformer):
    def __init__(self, env, depth=6):
        self.env = env
        self.depth = depth

    def visit_Name(self, node):
        if isinstance(node.ctx, ast.Load) and node.id in self.env and self.depth > 0:
            sub = _clone(self.env[node.id])
            return _Inliner(self.env, self.depth - 1).visit(sub)
        return node


def _clone(expr):
    return ast.parse(ast.unparse(expr), mode="eval").body


def expand(expr, env, depth=6):
    """expr with single-assignment locals replaced by their definitions (fresh copy)."""
    e = _clone(expr)
    e = _Inliner(env, depth).visit(e)
    return ast.fix_missing_locations(e)
