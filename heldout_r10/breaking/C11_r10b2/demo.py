import sys, os; sys.path.insert(0, os.getcwd())
"""
C11 demo: v-parallel advection = evaluation of the interpolating spline at v - c*dt,
with the per-mode boundary rule; the grid-level steps use the parallel gradient at the
same global (r, z, theta) position as advection speed.

Everything is compared with an independent reference built on scipy's BSpline (dense
collocation solve + BSpline evaluation), not on pygyro's spline code.
Exit code 0: property holds, 1: violated.
"""
import types
import itertools
import numpy as np

# ----------------------------------------------------------------------------
# fake mpi4py (no MPI library in the sandbox)
# ----------------------------------------------------------------------------


class _FakeComm:
    def Get_rank(self): return 0
    def Get_size(self): return 1
    def Barrier(self): pass


_mpi4py = types.ModuleType('mpi4py')
_MPI = types.ModuleType('mpi4py.MPI')
_MPI.Comm = _FakeComm
_MPI.COMM_WORLD = _FakeComm()
for _n in ('DOUBLE', 'DOUBLE_COMPLEX', 'INT', 'MIN', 'MAX', 'SUM', 'IN_PLACE'):
    setattr(_MPI, _n, object())
_mpi4py.MPI = _MPI
sys.modules.setdefault('mpi4py', _mpi4py)
sys.modules.setdefault('mpi4py.MPI', _MPI)

import pygyro  # noqa: E402
assert os.path.abspath(pygyro.__file__).startswith(os.path.abspath(os.getcwd()) + os.sep), \
    "pygyro imported from %s, not from cwd" % pygyro.__file__

from scipy.interpolate import BSpline  # noqa: E402
from pygyro import splines as spl  # noqa: E402
from pygyro.initialisation.constants import Constants  # noqa: E402
from pygyro.model.layout import Layout  # noqa: E402
from pygyro.model.grid import Grid  # noqa: E402
from pygyro.advection.advection import VParallelAdvection, ParallelGradient  # noqa: E402

FAILURES = []


def report(ok, what):
    if not ok:
        FAILURES.append(what)
        if len(FAILURES) <= 15:
            print("VIOLATION:", what)


# ----------------------------------------------------------------------------
# independent reference
# ----------------------------------------------------------------------------
def ref_f_eq(r, v, c):
    n0 = c.CN0 * np.exp(-c.kN0 * c.deltaRN0 * np.tanh((r - c.rp) / c.deltaRN0))
    Ti = c.CTi * np.exp(-c.kTi * c.deltaRTi * np.tanh((r - c.rp) / c.deltaRTi))
    return n0 * np.exp(-0.5 * v * v / Ti) / np.sqrt(2.0 * np.pi * Ti)


def ref_step(f_old, pts, knots, deg, shift, r, mode, consts):
    """ value at pts - shift of the spline interpolating (pts, f_old); boundary rule """
    n = len(pts)
    colloc = BSpline(knots, np.eye(n), deg, extrapolate=False)(pts)
    colloc = np.nan_to_num(colloc)
    coeffs = np.linalg.solve(colloc, f_old)
    s = BSpline(knots, coeffs, deg, extrapolate=False)
    vMin, vMax = pts[0], pts[-1]
    out = np.empty(n)
    for i in range(n):
        v = pts[i] - shift
        if mode == 'periodic':
            w = vMax - vMin
            while v < vMin:
                v += w
            while v > vMax:
                v -= w
            out[i] = s(v)
        elif v < vMin or v > vMax:
            out[i] = ref_f_eq(r, v, consts) if mode == 'fEq' else 0.0
        else:
            out[i] = s(v)
    return out


def make_space(kind):
    if kind == 'cubic_uniform':
        breaks = np.linspace(-5, 5, 19)
        deg, uniform = 3, True
    elif kind == 'cubic_uniform_asym':
        breaks = np.linspace(-3, 6, 15)
        deg, uniform = 3, True
    elif kind == 'cubic_general':
        breaks = np.array([-5, -4.2, -3.7, -2.5, -1.9, -1.0, -0.2, 0.5, 1.1, 2.3, 2.9, 4.1, 5])
        deg, uniform = 3, False
    elif kind == 'quintic':
        breaks = np.linspace(-4, 4, 14)
        deg, uniform = 5, True
    knots = np.array(spl.make_knots(breaks, deg, False), dtype=float)
    basis = spl.BSplines(knots.copy(), deg, False, uniform)
    return basis, knots, deg


# ----------------------------------------------------------------------------
# 1. single line step
# ----------------------------------------------------------------------------
def check_steps():
    consts = Constants()
    rng = np.random.default_rng(11)
    for kind in ('cubic_uniform', 'cubic_uniform_asym', 'cubic_general', 'quintic'):
        basis, knots, deg = make_space(kind)
        pts = np.array(basis.greville, dtype=float)
        width = pts[-1] - pts[0]
        dx = width / (len(pts) - 3)
        shifts = [0.0, 0.31, -0.31, 1.7, -1.7, dx, -dx, 3 * dx, 0.999 * width, -0.999 * width,
                  width, -width, 1.23 * width, -1.23 * width, 2.57 * width, -2.57 * width, 7.1 * width]
        for mode in ('fEq', 'null', 'periodic'):
            # one operator object is used for the whole sequence of calls; a second one
            # (other mode) is alive at the same time
            adv = VParallelAdvection([0, 0, 0, pts], basis, consts, mode)
            other = VParallelAdvection([0, 0, 0, pts], basis, consts,
                                       'null' if mode != 'null' else 'fEq')
            order = list(shifts)
            rng.shuffle(order)
            for n_call, shift in enumerate(order + shifts):
                r = [0.5, 4.0, 11.3][n_call % 3]
                f_old = rng.standard_normal(len(pts)) + 2.0
                # split shift = c*dt in different ways, dt of either sign,
                # python floats / numpy scalars / 0-d arrays
                how = n_call % 4
                if how == 0:
                    dt, c = 0.1, shift / 0.1
                elif how == 1:
                    dt, c = -0.25, shift / -0.25
                elif how == 2:
                    dt, c = np.float64(0.5), np.float64(shift / 0.5)
                else:
                    dt, c = 2.0, np.array(shift / 2.0)
                true_shift = float(c) * float(dt)
                f = f_old.copy()
                adv.step(f, dt, c, r)
                exp = ref_step(f_old, pts, knots, deg, true_shift, r, mode, consts)
                err = np.max(np.abs(f - exp))
                report(err < 1e-9, "step %s/%s shift=%.4g r=%g (call %d): max err %.3e"
                       % (kind, mode, true_shift, r, n_call, err))
                if n_call % 5 == 0:
                    g = f_old.copy()
                    other.step(g, 0.3, 1.0, r)


# ----------------------------------------------------------------------------
# 2. grid level steps
# ----------------------------------------------------------------------------
class _Layouts:
    def __init__(self, layouts):
        self._l = {l.name: l for l in layouts}
        self.bufferSize = max(int(l.size) for l in layouts)

    def getLayout(self, name):
        return self._l[name]


def check_grid(npts, nprocs, rank, mode, seed):
    consts = Constants()
    rng = np.random.default_rng(seed)
    nr, nq, nz, nv = npts
    domain = [[0.5, 12.5], [0, 2 * np.pi], [0, 2 * np.pi * consts.R0], [-5, 5]]
    degs = [3, 3, 3, 3]
    period = [False, True, True, False]
    ncells = [nr - 3, nq, nz, nv - 3]
    breaks = [np.linspace(*d, num=n + 1) for d, n in zip(domain, ncells)]
    knots = [np.array(spl.make_knots(b, d, p), dtype=float)
             for b, d, p in zip(breaks, degs, period)]
    bspl = [spl.BSplines(k.copy(), d, p, True) for k, d, p in zip(knots, degs, period)]
    eta = [np.array(b.greville, dtype=float) for b in bspl]

    lay4 = Layout('v_parallel', list(nprocs), [0, 2, 1, 3], eta, list(rank))
    lay3 = Layout('v_parallel_2d', [nprocs[0], 1], [0, 2, 1], eta[:3], [rank[0], 0])
    comm = _FakeComm()
    grid = Grid(eta, bspl, _Layouts([lay4]), 'v_parallel', comm)
    phi = Grid(eta[:3], bspl[:3], _Layouts([lay3]), 'v_parallel_2d', comm, dtype=complex)

    grid._f[:] = rng.standard_normal(grid._f.shape) + 2.0
    amp = 4.0
    phi._f[:] = amp * rng.standard_normal(phi._f.shape) + 1j * rng.standard_normal(phi._f.shape)

    parGrad = ParallelGradient(bspl[1], eta, lay4, consts)
    refGrad = ParallelGradient(bspl[1], eta, lay4, consts)

    nr_loc = lay4.shape[0]
    z0, z1 = lay4.starts[1], lay4.ends[1]
    q0 = lay4.starts[2]
    r_loc = eta[0][lay4.starts[0]:lay4.ends[0]]
    assert lay4.shape[2] == nq and q0 == 0

    # expected gradient at every global position of the local radii
    G = np.zeros((nr_loc, nz, nq))
    for i in range(nr_loc):
        refGrad.parallel_gradient(np.real(phi._f[i]).copy(), i, G[i])

    adv = VParallelAdvection(eta, bspl[3], consts, mode)
    tag = "npts=%s nprocs=%s rank=%s mode=%s" % (npts, nprocs, rank, mode)

    def expected(f_before, dt):
        out = np.empty_like(f_before)
        for i in range(nr_loc):
            for j in range(z1 - z0):
                for k in range(nq):
                    out[i, j, k] = ref_step(f_before[i, j, k], eta[3], knots[3], 3,
                                            G[i, z0 + j, k] * dt, r_loc[i], mode, consts)
        return out

    # gridStep
    dt = 0.35
    before = grid._f.copy()
    phi_before = phi._f.copy()
    vals = np.full((nr_loc, nz, nq), np.nan)
    adv.gridStep(grid, phi, parGrad, vals, dt)
    report(np.array_equal(phi._f, phi_before), "gridStep modified phi (%s)" % tag)
    report(np.allclose(vals, G, rtol=1e-12, atol=1e-12),
           "gridStep: stored gradient differs from the parallel gradient (%s)" % tag)
    exp = expected(before, dt)
    err = np.max(np.abs(grid._f - exp))
    report(err < 1e-9, "gridStep result (%s): max err %.3e" % (tag, err))

    # gridStepKeepGradient with the kept gradient, backward step then forward step
    for dt2 in (-0.2, 0.45):
        before = grid._f.copy()
        kept = vals.copy()
        adv.gridStepKeepGradient(grid, vals, dt2)
        report(np.array_equal(vals, kept, equal_nan=True),
               "gridStepKeepGradient modified the kept gradient (%s)" % tag)
        exp = expected(before, dt2)
        err = np.max(np.abs(grid._f - exp))
        report(err < 1e-9, "gridStepKeepGradient dt=%g result (%s): max err %.3e" % (dt2, tag, err))


def check_grids():
    seed = 100
    for npts, nprocs, ranks in (
            ([5, 6, 8, 12], (1, 1), [(0, 0)]),
            ([5, 6, 8, 12], (1, 2), [(0, 0), (0, 1)]),
            ([6, 5, 9, 11], (2, 3), [(0, 0), (1, 1), (1, 2)]),
            ([5, 4, 8, 10], (1, 8), [(0, 5)]),
    ):
        for n, rank in enumerate(ranks):
            mode = ('fEq', 'periodic', 'null')[(seed + n) % 3]
            check_grid(npts, nprocs, rank, mode, seed)
            seed += 1


if __name__ == '__main__':
    check_steps()
    check_grids()
    if FAILURES:
        print("C11 VIOLATED: %d failing checks" % len(FAILURES))
        sys.exit(1)
    print("C11 holds on all checked inputs")
    sys.exit(0)
