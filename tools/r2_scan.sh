#!/bin/bash
# r2_scan.sh <out-root> <PID...>: run each property's check on its round-2 patches (scratch copies), print exit codes
root=$1; shift
for pid in "$@"; do
  for v in a b c; do
    p=$root/$pid/$v/patch.diff
    [ -f "$p" ] || { echo "$pid/$v: no patch"; continue; }
    rc=$(tools/try_patch.sh "$p" "$pid" 2>&1 | grep -E "exit=" | sed 's/.*exit=//')
    echo "$pid/$v: exit=$rc"
  done
done
