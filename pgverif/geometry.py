"""Symbolic block-shape lists (writer/reader geometry agreement, DESIGN 5 C01-3 / C02-3 / C03-4).

A *shape list* is `list(L.shape)` (or `[slice(x) for x in L.shape]`) with some
entries overridden: `shape[k] = v`.  Its product is compared between the site
that sizes the buffer, the packer and the unpacker, as
(base layout, set of overridden positions, product of the override values).
Position swaps (`shape[0], shape[a] = shape[a], shape[0]`) do not change the
product and are recorded separately for the axis-role rule.
"""
from __future__ import annotations

import ast
import re
from dataclasses import dataclass, field

from .core import src, AnalysisError


@dataclass
class ShapeList:
    base: str                         # e.g. 'layout_source.shape'
    over: dict = field(default_factory=dict)     # index-src -> value-src
    swaps: list = field(default_factory=list)    # [(i_src, j_src, lineno)]
    kind: str = "shape"               # 'shape' | 'slices'
    defined_at: int = 0
    cond_over: set = field(default_factory=set)  # override keys set under a condition that does not enclose the definition

    def copy(self):
        return ShapeList(self.base, dict(self.over), list(self.swaps), self.kind, self.defined_at, set(self.cond_over))


def _is_list_of_shape(v):
    """list(X.shape) / [slice(x) for x in X.shape] / [slice(n) for n in X.shape] -> (base, kind)"""
    if isinstance(v, ast.Call) and isinstance(v.func, ast.Name) and v.func.id == "list" and len(v.args) == 1 \
            and isinstance(v.args[0], ast.Attribute) and v.args[0].attr == "shape":
        return src(v.args[0]), "shape"
    if isinstance(v, ast.ListComp) and len(v.generators) == 1:
        g = v.generators[0]
        if isinstance(g.iter, ast.Attribute) and g.iter.attr == "shape" and isinstance(v.elt, ast.Call) \
                and isinstance(v.elt.func, ast.Name) and v.elt.func.id == "slice" and len(v.elt.args) == 1 \
                and isinstance(v.elt.args[0], ast.Name) and isinstance(g.target, ast.Name) \
                and v.elt.args[0].id == g.target.id:
            return src(g.iter), "slices"
    return None


def _is_list_of_list(v, lists):
    """[slice(x) for x in <shape list var>]"""
    if isinstance(v, ast.ListComp) and len(v.generators) == 1:
        g = v.generators[0]
        if isinstance(g.iter, ast.Name) and g.iter.id in lists and isinstance(v.elt, ast.Call) \
                and isinstance(v.elt.func, ast.Name) and v.elt.func.id == "slice" and len(v.elt.args) == 1 \
                and isinstance(v.elt.args[0], ast.Name) and isinstance(g.target, ast.Name) \
                and v.elt.args[0].id == g.target.id:
            return g.iter.id
    return None


class ShapeFlow:
    """Forward pass over a function body (statements in source order, branches merged
    by taking both): tracks shape lists and `size = np.prod(list)` snapshots.

    AUDIT - the facts callers turn into verdicts, and what makes them true:
      lists[name]  (base, overrides): the list is `list(<base>)` with exactly the recorded entries overridden.  True when every
                   statement that changes the list is one of the three forms read here (definition, `L[k] = v`, the two-element
                   exchange) AND was met on every path to the point of use.  Any other change (in-place methods, augmented
                   assignment, slice stores, deletion, rebinding by a loop / with / tuple target) makes the list UNKNOWN: it
                   is removed (`dropped` says why), so that callers find no list rather than a wrong one.  An override made under
                   a condition that does not enclose the definition is recorded AND listed in `cond_over`.
      prods[name]  snapshot of the list at `name = np.prod(L)`; `cut_extent_vars` / `prod_is_cut_extent(name)` say whether the
                   product is PROVEN to be the extent of a cut of a flat buffer (used as the bound of a slice / np.split) or
                   merely has the reference name.
      reshapes     (list name, snapshot at that point, lineno, call) for every `.reshape(L)` / `np.reshape(x, L)`: the shape
                   list a view is given is the list AS IT IS THERE, not as it is at the end of the function.
    """

    def __init__(self, fn: ast.FunctionDef):
        self.fn = fn
        self.lists: dict[str, ShapeList] = {}
        self.prods: dict[str, tuple[ShapeList, int]] = {}   # var -> (snapshot, lineno)
        self.subscripts: list = []                          # (listname, index_src, lineno, node, swaps_so_far)
        self.reshapes: list = []                            # (listname, snapshot, lineno, call node)
        self.dropped: dict[str, str] = {}                   # list name -> why it is no longer known
        self.ctx: list = []
        self._def_ctx: dict[str, tuple] = {}
        self.walk(fn.body)
        self.cut_extent_vars = self._cut_extents()

    # -- proven block-size variables
    def _cut_extents(self):
        """names of products used as the extent of a cut of a flat buffer: `buf[a:a+x]`, `buf[k*x:(k+1)*x]`, `np.split(buf, [x])`"""
        used = []
        for n in ast.walk(self.fn):
            if isinstance(n, ast.Call) and src(n.func) in ("np.split", "numpy.split", "np.array_split", "numpy.array_split") \
                    and len(n.args) >= 2 and isinstance(n.args[1], (ast.List, ast.Tuple)):
                for x in n.args[1].elts:
                    used += [y.id for y in ast.walk(x) if isinstance(y, ast.Name)]
            if isinstance(n, ast.Subscript):
                sls = [n.slice] if isinstance(n.slice, ast.Slice) else \
                    [x for x in n.slice.elts if isinstance(x, ast.Slice)] if isinstance(n.slice, ast.Tuple) else []
                for sl in sls:
                    if sl.upper is not None:
                        used += [y.id for y in ast.walk(sl.upper) if isinstance(y, ast.Name) and isinstance(y.ctx, ast.Load)]
        return [u for u in dict.fromkeys(used) if u in self.prods]

    def prod_is_cut_extent(self, name):
        return name in self.cut_extent_vars

    def size_var(self, prefer="size"):
        """-> (name of the product that is the block size, proven?): proven when exactly one product is used as a cut extent;
        otherwise the reference name (a GUESS: a caller must not report a violation from it) or None"""
        c = self.cut_extent_vars
        if len(c) == 1:
            return c[0], True
        if prefer in self.prods and (not c or prefer in c):
            return prefer, False
        return None, False

    # -- the pass
    def walk(self, stmts):
        for st in stmts:
            self.stmt(st)

    def _drop(self, name, why, node=None):
        if name in self.lists:
            del self.lists[name]
            self.dropped[name] = f"{why} (line {getattr(node, 'lineno', '?')})"
        self._def_ctx.pop(name, None)

    def _note_reshapes(self, st):
        """reshape calls in the expressions of this statement (not in nested blocks), with the lists as they are now"""
        todo = [c for f, c in ast.iter_fields(st) if f not in ("body", "orelse", "finalbody", "handlers", "cases")]
        nodes = []
        while todo:
            x = todo.pop()
            if isinstance(x, list):
                todo += x
            elif isinstance(x, ast.AST):
                nodes.append(x)
                todo += [c for _, c in ast.iter_fields(x)]
        for n in sorted((n for n in nodes if isinstance(n, ast.Call)), key=lambda c: (getattr(c, "lineno", 0), getattr(c, "col_offset", 0))):
            f = n.func
            arg = None
            if isinstance(f, ast.Attribute) and f.attr == "reshape":
                if isinstance(f.value, ast.Name) and f.value.id in ("np", "numpy"):
                    arg = n.args[1] if len(n.args) >= 2 else next((k.value for k in n.keywords if k.arg in ("newshape", "shape")), None)
                else:
                    arg = n.args[0] if len(n.args) == 1 else None
            if isinstance(arg, ast.Call) and isinstance(arg.func, ast.Name) and arg.func.id in ("tuple", "list") and len(arg.args) == 1:
                arg = arg.args[0]
            if isinstance(arg, ast.Name) and arg.id in self.lists:
                self.reshapes.append((arg.id, self.lists[arg.id].copy(), getattr(n, "lineno", 0), n))

    def _conditional_here(self, name):
        d = self._def_ctx.get(name)
        return d is not None and tuple(self.ctx[:len(d)]) != d or (d is not None and len(self.ctx) > len(d) and self._deeper_is_if(len(d)))

    def _deeper_is_if(self, k):
        return any(kind == "if" for _, _, kind in self.ctx[k:])

    def stmt(self, st):
        self._note_reshapes(st)
        if isinstance(st, ast.AnnAssign) and st.value is not None:
            st2 = ast.Assign(targets=[st.target], value=st.value)
            ast.copy_location(st2, st)
            return self.stmt(st2)
        if isinstance(st, ast.Assign) and len(st.targets) == 1:
            t, v = st.targets[0], st.value
            if isinstance(t, ast.Name):
                r = _is_list_of_shape(v)
                if r:
                    self.lists[t.id] = ShapeList(r[0], kind=r[1], defined_at=st.lineno)
                    self._def_ctx[t.id] = tuple(self.ctx)
                    self.dropped.pop(t.id, None)
                    return
                d = _is_list_of_list(v, self.lists)
                if d:
                    c = self.lists[d].copy()
                    c.kind = "slices"
                    c.defined_at = st.lineno
                    self.lists[t.id] = c
                    self._def_ctx[t.id] = tuple(self.ctx)
                    self.dropped.pop(t.id, None)
                    return
                if isinstance(v, ast.Call) and src(v.func) in ("np.prod", "numpy.prod", "prod") and v.args \
                        and isinstance(v.args[0], ast.Name) and v.args[0].id in self.lists:
                    self.prods[t.id] = (self.lists[v.args[0].id].copy(), st.lineno)
                    return
                if t.id in self.lists:
                    self._drop(t.id, "rebound to something that is not a shape list", st)
                self.prods.pop(t.id, None) if t.id in self.prods and not (isinstance(v, ast.Call) and "prod" in src(v.func)) else None
                return
            if isinstance(t, ast.Subscript) and isinstance(t.value, ast.Name) and t.value.id in self.lists:
                L = self.lists[t.value.id]
                if isinstance(t.slice, ast.Slice) or (isinstance(t.slice, ast.Tuple)):
                    self._drop(t.value.id, "a slice of the list is overwritten", st)
                    return
                k = src(t.slice)
                if self._conditional_here(t.value.id):
                    # AUDIT: the entry is overridden on SOME paths only (e.g. `if len(axis) != 0: blockshape[...] = ...` in
                    # LayoutHandler.__init__, which the callers model: the product is then used inside the same arm).  The
                    # override is recorded as before, and `cond_over` says which entries hold only under a condition, so that a
                    # caller using the list OUTSIDE that arm can tell
                    L.cond_over.add(k)
                self.subscripts.append((t.value.id, k, st.lineno, st, list(L.swaps)))
                L.over[k] = src(v)
                return
            if isinstance(t, ast.Tuple) and isinstance(v, ast.Tuple) and len(t.elts) == 2 and len(v.elts) == 2:
                a, b = t.elts
                if isinstance(a, ast.Subscript) and isinstance(b, ast.Subscript) and isinstance(a.value, ast.Name) \
                        and a.value.id in self.lists and src(a.value) == src(b.value) \
                        and src(v.elts[0]) == src(b) and src(v.elts[1]) == src(a):
                    L = self.lists[a.value.id]
                    i, j = src(a.slice), src(b.slice)
                    # (a position exchange does not change the product; recorded for the axis-role rule)
                    L.swaps.append((i, j, st.lineno))
                    return
            # any other form of assignment that binds or stores into a tracked list
            self._forget_targets(t, st)
            return
        if isinstance(st, ast.Assign):
            for t in st.targets:
                self._forget_targets(t, st)
            return
        if isinstance(st, ast.AugAssign):
            self._forget_targets(st.target, st)
            return
        if isinstance(st, ast.Delete):
            for t in st.targets:
                self._forget_targets(t, st)
            return
        if isinstance(st, ast.Expr) and isinstance(st.value, ast.Call) and isinstance(st.value.func, ast.Attribute) \
                and isinstance(st.value.func.value, ast.Name) and st.value.func.value.id in self.lists \
                and st.value.func.attr in ("reverse", "sort", "insert", "append", "extend", "pop", "remove", "clear"):
            self._drop(st.value.func.value.id, f"changed in place by .{st.value.func.attr}()", st)
            return
        if isinstance(st, (ast.FunctionDef, ast.AsyncFunctionDef, ast.ClassDef)):
            return
        for hdr in ("target",):
            h = getattr(st, hdr, None)
            if h is not None and not isinstance(st, (ast.AugAssign, ast.AnnAssign)):
                self._forget_targets(h, st)
        for it_ in getattr(st, "items", []) or []:
            if getattr(it_, "optional_vars", None) is not None:
                self._forget_targets(it_.optional_vars, st)
        kind = "if" if isinstance(st, (ast.If, ast.Try, ast.While)) or hasattr(st, "cases") else "loop" if isinstance(st, (ast.For, ast.AsyncFor)) else "with"
        arms = [(f, getattr(st, f, None)) for f in ("body", "orelse", "finalbody")]
        arms += [("handler%d" % i, h.body) for i, h in enumerate(getattr(st, "handlers", []) or [])]
        arms += [("case%d" % i, c.body) for i, c in enumerate(getattr(st, "cases", []) or [])]
        for f, sub in arms:
            if sub and isinstance(sub, list) and sub and isinstance(sub[0], ast.stmt):
                k2 = "with" if (isinstance(st, ast.Try) and f in ("body", "finalbody")) else "if" if f != "body" else kind
                self.ctx.append((id(st), f, k2))
                self.walk(sub)
                self.ctx.pop()

    def _forget_targets(self, t, st):
        for n in ast.walk(t):
            if isinstance(n, ast.Name) and n.id in self.lists and (isinstance(n.ctx, ast.Store) or isinstance(getattr(n, "_p", None), ast.Subscript)):
                self._drop(n.id, "bound or changed by a statement form that is not read", st)
            elif isinstance(n, ast.Subscript) and isinstance(n.value, ast.Name) and n.value.id in self.lists:
                self._drop(n.value.id, "changed by a statement form that is not read", st)


def rename(s: str, mapping: dict) -> str:
    for a, b in mapping.items():
        s = re.sub(r"\b" + re.escape(a) + r"\b", b, s)
    return s


def canon_product(sl: ShapeList, mapping: dict, extra_factor: str | None = None):
    """-> (base, frozenset(overridden positions), sympy product of override values [* extra])"""
    import sympy
    base = rename(sl.base, mapping)
    keys = frozenset(rename(k, mapping) for k in sl.over)
    expr = sympy.Integer(1)
    atoms = {}

    def atom(text):
        text = rename(text, mapping)
        # split on top-level '*' only for simple products `A*mpi_size`
        parts = _split_mul(text)
        e = sympy.Integer(1)
        for p in parts:
            p = p.strip()
            if re.fullmatch(r"\d+", p):
                e *= sympy.Integer(int(p))
            else:
                e *= atoms.setdefault(p, sympy.Symbol(p))
        return e
    for k, v in sl.over.items():
        expr *= atom(v)
    if extra_factor:
        expr *= atom(extra_factor)
    return base, keys, sympy.expand(expr)


def _split_mul(text):
    parts, depth, cur = [], 0, ""
    for ch in text:
        if ch in "([":
            depth += 1
        elif ch in ")]":
            depth -= 1
        if ch == "*" and depth == 0:
            parts.append(cur)
            cur = ""
        else:
            cur += ch
    parts.append(cur)
    return parts
