#!/bin/bash
# benign.sh <variant> <PID...>: build the benign variant under /tmp/pgv_benign/<repo state>/<variant> (if missing) and run the checks on it
v=$1; shift
head=$(git -C /repo rev-parse --short HEAD 2>/dev/null)$(git -C /repo status --porcelain -- pygyro fullSimulation.py | md5sum | cut -c1-6)
root=/tmp/pgv_benign/$head/$v
if [ ! -d $root ]; then
  mkdir -p /tmp/pgv_benign/$head
  /venv/bin/python -c "
import sys; sys.path.insert(0,'/verif')
from pathlib import Path
from pgverif import selftest
selftest.make_variant('$v', Path('$root'))
"
fi
for pid in "$@"; do
  PGVERIF_REPO=$root PGVERIF_EVIDENCE_DIR=/tmp/pgv_benign/ev /venv/bin/python -m pgverif check $pid 2>&1 | grep -E "VIOLATED|ANALYSIS-ERROR" | cut -c1-${W:-300}
  echo "  -> $v $pid exit=${PIPESTATUS[0]}"
done
