"""C20 - process-grid selection (narrow claim: the structural clauses).

Every rule is three-valued.  HOLDS: the statements carrying the argument are found (up to the names of locals, tuple
assignments, hoisted loop invariants, helper functions written back in place, keyword arguments, `<`/`<=` with a
shifted integer bound).  VIOLATED: a recognised wrong form (wrong dimension under a bound, failure test that is not the
negated scan bound, process count of another communicator, extents replaced one without the other, a memoised table
changed in place, an iteration that changes nothing).  Anything else is UNDECIDED.
"""
from __future__ import annotations

import ast
import copy

from ..core import src, AnalysisError, parent, same_expr, increment_of
from .. import units as U
from .. import ispace as I
from .. import lints

GRID = "compute_2d_process_grid"
FROM_MAX = "compute_2d_process_grid_from_max"
SUBCOMM_CALLS = {"Split", "Split_type", "Create", "Create_group", "Create_cart", "Sub", "Create_graph"}


# ---------------------------------------------------------------------------------------------------------
# local normal form of the two small integer functions of process_grid.py (on a copy of the syntax tree)
# ---------------------------------------------------------------------------------------------------------
_PURE_CALLS = {"min", "max", "abs", "int", "len"}


def _blocks_of(node):
    """every statement list under node"""
    for n in ast.walk(node):
        for f in ("body", "orelse", "finalbody"):
            b = getattr(n, f, None)
            if isinstance(b, list) and b and isinstance(b[0], ast.stmt):
                yield b


def _root_name(e):
    while isinstance(e, (ast.Subscript, ast.Attribute)):
        e = e.value
    return e.id if isinstance(e, ast.Name) else None


def _pure(e):
    for n in ast.walk(e):
        if isinstance(n, ast.Call):
            if not (isinstance(n.func, ast.Name) and n.func.id in _PURE_CALLS) or n.keywords:
                return False
        elif isinstance(n, (ast.Lambda, ast.Await, ast.Yield, ast.YieldFrom, ast.NamedExpr, ast.ListComp, ast.GeneratorExp,
                            ast.SetComp, ast.DictComp, ast.Starred, ast.Attribute)):
            return False
    return True


def _written(fn):
    """names whose value, or the object they name, can change inside fn"""
    out = set()
    for n in ast.walk(fn):
        if isinstance(n, ast.Name) and isinstance(n.ctx, (ast.Store, ast.Del)):
            out.add(n.id)
        elif isinstance(n, (ast.Subscript, ast.Attribute)) and isinstance(n.ctx, (ast.Store, ast.Del)):
            r = _root_name(n)
            if r:
                out.add(r)
        elif isinstance(n, ast.Call) and isinstance(n.func, ast.Attribute) and n.func.attr in lints.MUTATING_METHODS:
            r = _root_name(n.func.value)
            if r:
                out.add(r)
    return out


def _split_tuple_assigns(fn):
    """`a, b = x, y` with no target read on the right is `a = x; b = y`"""
    for blk in list(_blocks_of(fn)):
        k = 0
        while k < len(blk):
            st = blk[k]
            if isinstance(st, ast.Assign) and len(st.targets) == 1 and isinstance(st.targets[0], ast.Tuple) \
                    and isinstance(st.value, ast.Tuple) and len(st.value.elts) == len(st.targets[0].elts) \
                    and all(isinstance(t, ast.Name) for t in st.targets[0].elts) \
                    and not any(isinstance(v, ast.Starred) for v in st.value.elts):
                tn = [t.id for t in st.targets[0].elts]
                read = {n.id for v in st.value.elts for n in ast.walk(v) if isinstance(n, ast.Name)}
                if len(set(tn)) == len(tn) and not (set(tn) & read):
                    new = [ast.copy_location(ast.Assign(targets=[t], value=v), st) for t, v in zip(st.targets[0].elts, st.value.elts)]
                    blk[k:k + 1] = new
                    k += len(new)
                    continue
            k += 1


class _Subst(ast.NodeTransformer):
    def __init__(self, name, expr):
        self.name, self.expr = name, expr

    def visit_Name(self, node):
        if node.id == self.name and isinstance(node.ctx, ast.Load):
            new = copy.deepcopy(self.expr)
            for x in ast.walk(new):
                ast.copy_location(x, node)
            return new
        return node


def _inline_invariants(fn):
    """a local assigned once from an expression over names that never change in fn (`upper1 = min(mpi_size, max_proc1)`,
    `stop = upper1 + 1`) has that value at every use: the uses are replaced by the expression"""
    params = {a.arg for a in fn.args.args + fn.args.kwonlyargs + fn.args.posonlyargs}
    done = []
    changed = True
    while changed and len(done) < 50:
        changed = False
        written = _written(fn)
        nstores = {}
        for n in ast.walk(fn):
            if isinstance(n, ast.Name) and isinstance(n.ctx, (ast.Store, ast.Del)):
                nstores[n.id] = nstores.get(n.id, 0) + 1
        for blk in list(_blocks_of(fn)):
            for k, st in enumerate(blk):
                if not (isinstance(st, ast.Assign) and len(st.targets) == 1 and isinstance(st.targets[0], ast.Name)):
                    continue
                nm = st.targets[0].id
                if nm in params or nstores.get(nm) != 1 or not _pure(st.value):
                    continue
                read = {n.id for n in ast.walk(st.value) if isinstance(n, ast.Name)}
                if read & written:
                    continue
                del blk[k]
                if not blk:
                    blk.append(ast.copy_location(ast.Pass(), st))
                _Subst(nm, st.value).visit(fn)
                done.append(nm)
                changed = True
                break
            if changed:
                break
    return done


def _normal_form(tree, names):
    """copy of the module with the named functions in local normal form -> (tree copy, {name: FunctionDef})"""
    t2 = copy.deepcopy(tree)
    out = {}
    for st in t2.body:
        if isinstance(st, ast.FunctionDef) and st.name in names:
            _split_tuple_assigns(st)
            _inline_invariants(st)
            ast.fix_missing_locations(st)
            out[st.name] = st
    return t2, out


# ---------------------------------------------------------------------------------------------------------
# integer comparisons in canonical form
# ---------------------------------------------------------------------------------------------------------
class _SortMinMax(ast.NodeTransformer):
    def visit_Call(self, n):
        self.generic_visit(n)
        if isinstance(n.func, ast.Name) and n.func.id in ("min", "max") and not n.keywords \
                and not any(isinstance(a, ast.Starred) for a in n.args):
            n.args = sorted(n.args, key=ast.unparse)
        return n


def _canon(e):
    """text of an expression, operands of min/max in a fixed order"""
    return ast.unparse(_SortMinMax().visit(copy.deepcopy(e)))


def _int_const(e):
    return isinstance(e, ast.Constant) and type(e.value) is int


def _lin(e):
    """e = base + c with an integer constant c -> (canonical text of base, c)"""
    if isinstance(e, ast.BinOp) and isinstance(e.op, (ast.Add, ast.Sub)):
        if _int_const(e.right):
            b, c = _lin(e.left)
            return b, c + (e.right.value if isinstance(e.op, ast.Add) else -e.right.value)
        if isinstance(e.op, ast.Add) and _int_const(e.left):
            b, c = _lin(e.right)
            return b, c + e.left.value
    return _canon(e), 0


_OPS = {ast.LtE: ("le", 0), ast.Lt: ("le", -1), ast.Gt: ("gt", 0), ast.GtE: ("gt", -1)}
_FLIP = {ast.LtE: ast.GtE, ast.Lt: ast.Gt, ast.Gt: ast.Lt, ast.GtE: ast.LtE}


def _cmp(test, names, taken=True):
    """the integer comparison `test` (as decided: taken) about one of `names`, as
    (name, 'le', base, k): name <= base + k   or   (name, 'gt', base, k): name > base + k ; None when it is none"""
    if isinstance(test, ast.UnaryOp) and isinstance(test.op, ast.Not):
        return _cmp(test.operand, names, not taken)
    if not (isinstance(test, ast.Compare) and len(test.ops) == 1):
        return None
    l, op, r = test.left, type(test.ops[0]), test.comparators[0]
    if op not in _OPS:
        return None
    if isinstance(l, ast.Name) and l.id in names:
        nm, other = l.id, r
    elif isinstance(r, ast.Name) and r.id in names:
        nm, other, op = r.id, l, _FLIP[op]
    else:
        return None
    kind, adj = _OPS[op]
    base, c = _lin(other)
    if not taken:
        kind = "gt" if kind == "le" else "le"
    return nm, kind, base, c + adj


def _facts(test, taken):
    """(test, taken) pairs that all hold when `test` evaluates to `taken`"""
    if isinstance(test, ast.UnaryOp) and isinstance(test.op, ast.Not):
        return _facts(test.operand, not taken)
    if isinstance(test, ast.BoolOp) and ((isinstance(test.op, ast.And) and taken) or (isinstance(test.op, ast.Or) and not taken)):
        return [f for v in test.values for f in _facts(v, taken)]
    return [(test, taken)]


def _bound_text(base, k):
    return base if k == 0 else f"{base} {'+' if k > 0 else '-'} {abs(k)}"


# ---------------------------------------------------------------------------------------------------------
# the divisor scan  `while v <= B and M % v != 0: v += 1`
# ---------------------------------------------------------------------------------------------------------
def _is_nondiv(c, v, M):
    return same_expr(c, f"{M} % {v} != 0") or same_expr(c, f"0 != {M} % {v}") or same_expr(c, f"{M} % {v}") \
        or same_expr(c, f"{M} % {v} > 0")


def _scan_at(st, M):
    if not isinstance(st, ast.While) or st.orelse or len(st.body) != 1:
        return None
    inc = increment_of(st.body[0])
    if not inc or not (_int_const(inc[1]) and inc[1].value == 1):
        return None
    v = inc[0]
    conj = st.test.values if isinstance(st.test, ast.BoolOp) and isinstance(st.test.op, ast.And) else [st.test]
    bound = nondiv = None
    for c in conj:
        if _is_nondiv(c, v, M):
            nondiv = c
            continue
        f = _cmp(c, {v})
        if f and f[1] == "le" and bound is None:
            bound = f
        else:
            return None
    if bound is None or nondiv is None:
        return None
    return {"loop": st, "var": v, "base": bound[2], "k": bound[3], "nondiv": nondiv}


def _scans_in(stmts, M):
    """[(block, index, scan)] for every divisor scan under the statements"""
    out = []
    holder = ast.Module(body=list(stmts), type_ignores=[])
    for blk in _blocks_of(holder):
        for k, st in enumerate(blk):
            s = _scan_at(st, M)
            if s:
                out.append((blk if blk is not holder.body else stmts, k, s))
    return out


def _scan_start(blk, k, v):
    """value of the scan variable when the scan at blk[k] starts, as (name, c): name + c with `name` the value a variable
    has on entry of the block; None when the statements before the scan are not plain assignments"""
    want, off = v, 0
    for j in range(k - 1, -1, -1):
        st = blk[j]
        inc = increment_of(st)
        if inc and inc[0] == want:
            if not _int_const(inc[1]):
                return None
            off += inc[1].value
            continue
        if isinstance(st, ast.Assign) and len(st.targets) == 1 and isinstance(st.targets[0], ast.Name):
            if st.targets[0].id != want:
                continue
            e = st.value
            if isinstance(e, ast.Name):
                want = e.id
                continue
            if isinstance(e, ast.BinOp) and isinstance(e.op, ast.Add) and isinstance(e.left, ast.Name) and _int_const(e.right):
                want, off = e.left.id, off + e.right.value
                continue
            if isinstance(e, ast.BinOp) and isinstance(e.op, ast.Add) and isinstance(e.right, ast.Name) and _int_const(e.left):
                want, off = e.right.id, off + e.left.value
                continue
            return None
        if isinstance(st, ast.AugAssign) and isinstance(st.target, ast.Name) and st.target.id == want:
            return None
        if isinstance(st, (ast.While, ast.For, ast.If, ast.With, ast.Try)) and \
                any(isinstance(n, ast.Name) and isinstance(n.ctx, ast.Store) and n.id == want for n in ast.walk(st)):
            return None
    return want, off


def _aliases_after(blk, k, v):
    """names holding the scanned value after the scan at blk[k] (`w = v` statements), and the index of the first
    statement that is not such an assignment"""
    al = {v}
    j = k + 1
    while j < len(blk):
        st = blk[j]
        if isinstance(st, ast.Assign) and len(st.targets) == 1 and isinstance(st.targets[0], ast.Name) \
                and isinstance(st.value, ast.Name) and st.value.id in al:
            al.add(st.targets[0].id)
            j += 1
            continue
        break
    return al, j


# ---------------------------------------------------------------------------------------------------------
# positions and path conditions inside a loop body
# ---------------------------------------------------------------------------------------------------------
def _preorder(stmts):
    out = []

    def rec(b):
        for st in b:
            out.append(st)
            for f in ("body", "orelse", "finalbody"):
                sub = getattr(st, f, None)
                if isinstance(sub, list) and sub and isinstance(sub[0], ast.stmt):
                    rec(sub)
            for h in getattr(st, "handlers", []) or []:
                rec(h.body)
    rec(stmts)
    return out


def _own_stores(st):
    if isinstance(st, ast.Assign):
        return {n.id for t in st.targets for n in ast.walk(t) if isinstance(n, ast.Name) and isinstance(n.ctx, ast.Store)}
    if isinstance(st, (ast.AugAssign, ast.AnnAssign)):
        return {n.id for n in ast.walk(st.target) if isinstance(n, ast.Name) and isinstance(n.ctx, ast.Store)}
    if isinstance(st, ast.For):
        return {n.id for n in ast.walk(st.target) if isinstance(n, ast.Name)}
    if isinstance(st, ast.With):
        return {n.id for it in st.items if it.optional_vars is not None for n in ast.walk(it.optional_vars) if isinstance(n, ast.Name)}
    return set()


def _stored_between(order, i, j, names):
    return any(_own_stores(order[p]) & names for p in range(max(i + 1, 0), j))


def _ends_in_jump(b):
    return bool(b) and isinstance(b[-1], (ast.Break, ast.Continue, ast.Return, ast.Raise))


def _chain_to(stmts, target):
    """[(block, index)] from the statement list down to the block holding `target`"""
    for k, st in enumerate(stmts):
        if st is target:
            return [(stmts, k)]
        for f in ("body", "orelse", "finalbody"):
            sub = getattr(st, f, None)
            if isinstance(sub, list) and sub and isinstance(sub[0], ast.stmt):
                c = _chain_to(sub, target)
                if c:
                    return [(stmts, k)] + c
    return None


def _path_facts(loop, target):
    """[(position, test, taken)]: decisions every path from the head of an iteration of `loop` to `target` has taken
    (position -1 = the loop test).  Nested loops contribute nothing."""
    order = _preorder(loop.body)
    pos = {id(s): p for p, s in enumerate(order)}
    chain = _chain_to(loop.body, target)
    if chain is None:
        return None, order, pos
    out = [(-1, loop.test, True)]
    for lvl, (blk, k) in enumerate(chain):
        for sib in blk[:k]:
            if isinstance(sib, ast.If):
                if _ends_in_jump(sib.body) and not _ends_in_jump(sib.orelse):
                    out.append((pos[id(sib)], sib.test, False))
                elif _ends_in_jump(sib.orelse) and not _ends_in_jump(sib.body):
                    out.append((pos[id(sib)], sib.test, True))
        if lvl + 1 < len(chain):
            st = blk[k]
            nxt = chain[lvl + 1][0]
            if isinstance(st, ast.If):
                out.append((pos[id(st)], st.test, nxt is st.body))
            elif isinstance(st, (ast.While, ast.For)):
                return None, order, pos        # inside a nested loop: not handled
    return out, order, pos


# ---------------------------------------------------------------------------------------------------------
# calls: arguments by parameter name
# ---------------------------------------------------------------------------------------------------------
def _params(fn):
    return [a.arg for a in fn.args.posonlyargs + fn.args.args]


def _bind(call, params):
    """{parameter: argument expression}, or None (starred arguments, unknown keyword)"""
    if any(isinstance(a, ast.Starred) for a in call.args) or any(k.arg is None for k in call.keywords) or len(call.args) > len(params):
        return None
    out = dict(zip(params, call.args))
    for k in call.keywords:
        if k.arg not in params or k.arg in out:
            return None
        out[k.arg] = k.value
    return out


# ---------------------------------------------------------------------------------------------------------
# N1: the bounds of compute_2d_process_grid cover the standard layouts
# ---------------------------------------------------------------------------------------------------------
def _dims_under(e, npts):
    """(function, set of dimensions d) for  f(npts[d], ...)  with f in min/max (nested allowed) or a single npts[d]"""
    if isinstance(e, ast.Subscript) and isinstance(e.value, ast.Name) and e.value.id == npts:
        s = e.slice
        if isinstance(s, ast.UnaryOp) and isinstance(s.op, ast.USub) and _int_const(s.operand):
            return "min", {4 - s.operand.value}
        if _int_const(s):
            return "min", {s.value}
        return None
    if isinstance(e, ast.Call) and isinstance(e.func, ast.Name) and e.func.id in ("min", "max") and not e.keywords and e.args:
        dims, fun = set(), e.func.id
        for a in e.args:
            sub = _dims_under(a, npts)
            if sub is None or (sub[0] != fun and isinstance(a, ast.Call)):
                return None
            dims |= sub[1]
        return fun, dims
    return None


def bounds_vs_layouts(chk, nf):
    chk.func(U.PROCGRID, GRID)
    fn = nf[GRID]
    kw = dict(file=U.PROCGRID, func=GRID)
    try:
        O = I.load_layout_tables(chk)
        std = [O[(n, 4)] for n in ("flux_surface", "v_parallel", "poloidal")]
    except (AnalysisError, KeyError) as e:
        for k in (0, 1):
            chk.ob("N1-bounds-cover-layouts", fn, f"bound of process direction {k}", None,
                   f"the standard layout dictionaries could not be read from the set-up code ({e}): nothing to compare the bounds with", **kw)
        return
    fparams = _params(nf[FROM_MAX]) if FROM_MAX in nf else []
    gparams = _params(fn)
    rets = [n for n in ast.walk(fn) if isinstance(n, ast.Return)]
    call = rets[0].value if len(rets) == 1 and rets[0] is fn.body[-1] else None
    b = None
    if isinstance(call, ast.Call) and isinstance(call.func, ast.Name) and call.func.id == FROM_MAX and len(fparams) == 3 and len(gparams) >= 2:
        b = _bind(call, fparams)
        if b is not None and len(b) != 3:
            b = None
    if b is None:
        for k in (0, 1):
            chk.ob("N1-bounds-cover-layouts", fn, f"bound of process direction {k}", None,
                   f"`return {FROM_MAX}(bound1, bound2, mpi_size)` not found at the end of {GRID}: the expressions that bound the "
                   "two process directions cannot be extracted", **kw)
        chk.ob("N1-bounds-cover-layouts", fn, f"return {FROM_MAX}(bound1, bound2, mpi_size)", None, "call not found", **kw)
        return
    npts, count = gparams[0], gparams[1]
    for k in (0, 1):
        e = b[fparams[k]]
        dims = {o[k] for o in std}
        got = _dims_under(e, npts) if npts not in _written(fn) else None
        construct = f"{fparams[k]} = min(npts[d] for d distributed along process direction {k})"
        if got is None:
            chk.ob("N1-bounds-cover-layouts", e, construct, None,
                   f"the bound `{src(e)[:80]}` is not a minimum over entries `{npts}[d]` with literal d: the dimensions it covers "
                   "cannot be extracted", **kw)
            continue
        fun, have = got
        if fun == "max" and len(have) > 1:
            chk.ob("N1-bounds-cover-layouts", e, construct, False,
                   f"the bound of process direction {k} is the LARGEST extent among dimensions {sorted(have)} (`{src(e)}`): a process "
                   "count between the smallest and the largest extent leaves processes without points of the smaller dimension", **kw)
            continue
        ok = have == dims
        chk.ob("N1-bounds-cover-layouts", e, construct, ok,
               f"the bound of process direction {k} is the smallest extent among the dimensions {sorted(dims)} that the standard layouts "
               f"distribute along it" if ok else f"{fparams[k]} is the minimum over dimensions {sorted(have)} but the "
               f"standard layouts distribute dimensions {sorted(dims)} along process direction {k}: a process can be left without "
               "points of an unchecked dimension (or a valid grid refused)", **kw)
    e = b[fparams[2]]
    changed = [n for n in ast.walk(fn) if (isinstance(n, ast.AugAssign) and isinstance(n.target, ast.Name) and n.target.id == count)
               or (isinstance(n, ast.Assign) and any(isinstance(t, ast.Name) and t.id == count for t in n.targets))]
    okr = isinstance(e, ast.Name) and e.id == count and not changed
    bad = None
    if isinstance(e, ast.Name) and e.id == count and changed:
        bad = (f"the process count is changed (`{src(changed[0])}`) before the search: the grid multiplies to the changed value, not to "
               "the number of processes of the communicator the caller lays it on")
    chk.pat("N1-bounds-cover-layouts", rets[0], f"return {FROM_MAX}(bound1, bound2, mpi_size)", okr,
            "the two bounds and the unchanged process count are handed to the search, each to its own parameter", bad, **kw)


# ---------------------------------------------------------------------------------------------------------
# N1: call sites in setups.py
# ---------------------------------------------------------------------------------------------------------
def _defs(f, name):
    """(values assigned to the plain name in f (None for a destructuring assignment), augmented assignments)"""
    vals, augs = [], []
    for n in ast.walk(f):
        if isinstance(n, ast.Assign):
            for t in n.targets:
                if isinstance(t, ast.Name) and t.id == name:
                    vals.append(n.value)
                elif isinstance(t, (ast.Tuple, ast.List)) and any(isinstance(x, ast.Name) and x.id == name for x in ast.walk(t)):
                    vals.append(None)
        elif isinstance(n, ast.AugAssign) and isinstance(n.target, ast.Name) and n.target.id == name:
            augs.append(n)
        elif isinstance(n, (ast.For, ast.With)):
            tg = [n.target] if isinstance(n, ast.For) else [it.optional_vars for it in n.items if it.optional_vars is not None]
            if any(isinstance(x, ast.Name) and x.id == name for t in tg for x in ast.walk(t)):
                vals.append(None)
    return vals, augs


def _resolve(f, e, depth=0):
    """an expression, through names assigned exactly once -> (expression or None, [adjusting statements])"""
    adj = []
    while isinstance(e, ast.Name) and depth < 6:
        vals, augs = _defs(f, e.id)
        adj += augs
        if len(vals) == 1 and vals[0] is not None:
            e = vals[0]
            depth += 1
            continue
        if not vals:
            return e, adj            # a parameter / global
        return None, adj
    return e, adj


def _comm_of_size(e):
    """`X.Get_size()` under integer arithmetic -> (text of X, [arithmetic wrapped around it]); (None, _) otherwise"""
    arith = []
    while isinstance(e, ast.BinOp):
        l = any(isinstance(n, ast.Attribute) and n.attr == "Get_size" for n in ast.walk(e.left))
        r = any(isinstance(n, ast.Attribute) and n.attr == "Get_size" for n in ast.walk(e.right))
        if l == r:
            return None, arith
        arith.append(src(e))
        e = e.left if l else e.right
    if isinstance(e, ast.Call) and isinstance(e.func, ast.Attribute) and e.func.attr == "Get_size" and not e.args and not e.keywords:
        return src(e.func.value), arith
    return None, arith


def _is_subcomm(f, hc, cm):
    """is the communicator expression `hc` (possibly) a part of `cm` obtained by splitting?"""
    try:
        e = ast.parse(hc, mode="eval").body
    except SyntaxError:
        return False
    exprs = [e]
    if isinstance(e, ast.Name):
        vals, _ = _defs(f, e.id)
        exprs = [v for v in vals if v is not None]
    return any(isinstance(n, ast.Call) and isinstance(n.func, ast.Attribute) and n.func.attr in SUBCOMM_CALLS
               for x in exprs for n in ast.walk(x))


def _same_comm(f, hc, cm):
    if hc == cm:
        return True
    for a, b in ((hc, cm), (cm, hc)):
        if a.isidentifier():
            vals, augs = _defs(f, a)
            if len(vals) == 1 and vals[0] is not None and not augs and src(vals[0]) == b:
                return True
    return False


def _site(chk, f, c, label, gparams, hparams, via_helper=False):
    kw = dict(file=U.SETUPS, func=getattr(f, "_qual", f.name))
    construct = f"{label}: {GRID}(constants.npts, <layout communicator>.Get_size()) -> getLayoutHandler"
    good = "the grid sizes and the size of the communicator the layouts are built on; the result is the handler's process grid"

    def undecided(why):
        chk.ob("N1-call-site", c, construct, None, why, **kw)

    if any(isinstance(a, ast.Starred) for a in c.args) or any(k.arg is None for k in c.keywords):
        return undecided("starred arguments: the process count cannot be extracted")
    b = _bind(c, gparams) if gparams else None
    if b is None:
        # more arguments than the function declares / unknown keywords: bind the first two by position or name
        b = {}
        for p, a in zip(("npts", "mpi_size"), c.args):
            b[p] = a
        for k in c.keywords:
            b.setdefault(k.arg, k.value)
        gparams = list(b)
    if len(gparams) < 2 or gparams[0] not in b or gparams[1] not in b:
        return undecided("the grid sizes and the process count are not both passed")
    extra = [f"{p}={src(b[p])}" for p in b if p not in gparams[:2]]
    handlers = [h for h in ast.walk(f) if isinstance(h, ast.Call) and isinstance(h.func, ast.Name) and h.func.id == "getLayoutHandler"]
    hb = [_bind(h, hparams) for h in handlers]
    if not handlers or any(x is None or "comm" not in x or "nprocs" not in x for x in hb):
        return undecided(f"no getLayoutHandler(comm, layouts, nprocs, eta_grids) call in {f.name} to compare the communicator with")
    pairs = {(src(x["comm"]), src(x["nprocs"])) for x in hb}
    if len(pairs) != 1:
        return undecided(f"layout handlers are built on several communicator/grid pairs {sorted(pairs)}")
    hc, hn = next(iter(pairs))
    size, adj = _resolve(f, b[gparams[1]])
    cm, arith = _comm_of_size(size) if size is not None else (None, [])
    adjusted = [src(a) for a in adj] + arith + extra
    if cm is None:
        return undecided(f"the process count `{src(b[gparams[1]])}` is not read as `<communicator>.Get_size()`")
    same = _same_comm(f, hc, cm)
    if not same and _is_subcomm(f, hc, cm):
        through = f" (adjusted through {adjusted})" if adjusted else ""
        chk.ob("N1-call-site", c, construct, False,
               f"the process count is the size of `{cm}`{through} but the layouts are built on `{hc}`, a part of a split communicator: "
               "on a rank where the two differ (the plot-only rank) the grid does not multiply to the size of the communicator it is "
               "laid on, and the cartesian topology cannot be created", **kw)
        return
    if not same:
        return undecided(f"the process count is the size of `{cm}`, the layouts are built on `{hc}`: cannot decide that the two are "
                         "the same communicator")
    if adjusted:
        return undecided(f"the size of `{cm}` is adjusted ({adjusted}) before it is used as process count")
    grid_sizes, gadj = _resolve(f, b[gparams[0]])
    is_param = via_helper and isinstance(grid_sizes, ast.Name) and grid_sizes.id in _params(f) and not gadj
    if not is_param and (grid_sizes is None or gadj or src(grid_sizes) != "constants.npts"):
        return undecided(f"the grid sizes `{src(b[gparams[0]])}` are not recognised as `constants.npts`")
    tgt = parent(c)
    if not (isinstance(tgt, ast.Assign) and len(tgt.targets) == 1 and src(tgt.targets[0]) == hn):
        return undecided(f"the result of {GRID} is not the value `{hn}` handed to getLayoutHandler as process grid")
    chk.ob("N1-call-site", c, construct, True, good, **kw)


def call_sites(chk):
    smod = chk.mod(U.SETUPS)
    pmod = chk.mod(U.PROCGRID)
    gparams = _params(pmod.func(GRID)) if pmod.has(GRID) else []
    hparams = ["comm", "layouts", "nprocs", "eta_grids"]
    try:
        lmod = chk.mod(U.LAYOUT)
        if lmod.has("getLayoutHandler"):
            hparams = _params(lmod.func("getLayoutHandler"))
    except AnalysisError:
        pass
    funcs = [st for st in smod.tree.body if isinstance(st, ast.FunctionDef)]

    def grid_calls(g):
        return [c for c in ast.walk(g) if isinstance(c, ast.Call) and isinstance(c.func, ast.Name) and c.func.id == GRID]
    for q in ("setupCylindricalGrid", "setupFromFile"):
        f = chk.func(U.SETUPS, q)
        calls = grid_calls(f)
        if calls:
            for c in calls:
                _site(chk, f, c, q, gparams, hparams)
            continue
        called = {c.func.id for c in ast.walk(f) if isinstance(c, ast.Call) and isinstance(c.func, ast.Name)}
        helpers = [g for g in funcs if g is not f and g.name in called and grid_calls(g)]
        if not helpers:
            chk.ob("N1-call-site", f, f"{q}: {GRID}(constants.npts, <layout communicator>.Get_size()) -> getLayoutHandler", None,
                   f"no call of {GRID} in {q} or in a function of setups.py it calls", file=U.SETUPS, func=q)
            continue
        for g in helpers:
            chk.func(U.SETUPS, g.name)
            for c in grid_calls(g):
                # inside a helper the grid sizes arrive as a parameter: only the communicator and the use of the result are decided
                _site(chk, g, c, q, gparams, hparams, via_helper=True)


# ---------------------------------------------------------------------------------------------------------
# N4: the answer is a function of the arguments alone
# ---------------------------------------------------------------------------------------------------------
_TABLE_CALLS = {"dict", "list", "set", "defaultdict", "OrderedDict", "deque", "Counter"}


def pure_search(chk, tree, fn):
    kw = dict(file=U.PROCGRID)
    if not lints.memo_selftest():
        raise AnalysisError("C20: the memoised-result lint no longer recognises its own positive example")
    memo, muts = lints.memoised_result_mutations(tree)
    for f_, node, desc in muts:
        chk.ob("N4-pure-search", node, f"memoised table changed in {f_.name}", False,
               desc + ": the cache hands the same object to every later call, so the next call with the same process count starts "
               "from the changed table and can refuse a grid that exists (or return another one)", func=f_.name, **kw)
    # module-level tables (hand-written memoisation): filling is fine, changing a stored object in place is not
    tables = set()
    for st in tree.body:
        tg, val = ([t for t in st.targets], st.value) if isinstance(st, ast.Assign) else \
            ([st.target], st.value) if isinstance(st, ast.AnnAssign) and st.value is not None else ([], None)
        if isinstance(val, (ast.Dict, ast.List, ast.Set, ast.ListComp, ast.DictComp, ast.SetComp)) or \
                (isinstance(val, ast.Call) and src(val.func).split(".")[-1] in _TABLE_CALLS):
            tables |= {t.id for t in tg if isinstance(t, ast.Name)}
    nstate = nviol = 0
    if tables:
        for f_ in [n for n in ast.walk(tree) if isinstance(n, ast.FunctionDef)]:
            for node, desc in lints.shared_state_mutations(f_, lambda s_: s_ in tables):
                recv = node.func.value if isinstance(node, ast.Call) and isinstance(node.func, ast.Attribute) else \
                    node.target if isinstance(node, ast.AugAssign) else \
                    next((t.value for t in getattr(node, "targets", []) if isinstance(t, ast.Subscript)), None)
                if isinstance(recv, ast.Subscript) and isinstance(node, ast.AugAssign):
                    recv = recv.value
                direct = isinstance(recv, ast.Name) and recv.id in tables
                fill = direct and (isinstance(node, ast.Assign) or (isinstance(node, ast.Call) and node.func.attr in ("setdefault", "update")))
                if fill:
                    continue
                nstate += 1
                nviol += not direct
                chk.ob("N4-pure-search", node, f"module-level table changed in {f_.name}", None if direct else False,
                       desc.replace("the stored", "the module-level table") + (
                           ": a call changes module-level state; cannot decide that a later call does not read it" if direct else
                           ": the object is kept in a module-level table, so a later call reads the changed object and its answer "
                           "depends on the calls made before"), func=f_.name, **kw)
    chk.ob("N4-pure-search", fn, "no call changes state that a later call reads", True if not muts and not nstate else False if muts or nviol else None,
           f"memoised helpers: {sorted(memo) or 'none'}; module-level tables: {sorted(tables) or 'none'}; no in-place change of a "
           "memoised or stored result" if not muts and not nstate else "see the in-place changes reported above",
           func=FROM_MAX, nontrivial=False, **kw)
    glob = [n for n in ast.walk(tree) if isinstance(n, (ast.Global, ast.Nonlocal))]
    chk.ob("N4-pure-search", glob[0] if glob else fn, "no global/nonlocal state in process_grid.py", not glob,
           "the search functions declare no global or nonlocal variable" if not glob else
           f"`{src(glob[0])}`: the result of a call can depend on earlier calls", func=FROM_MAX, nontrivial=False, **kw)


# ---------------------------------------------------------------------------------------------------------
# N2 / N3: the search in compute_2d_process_grid_from_max
# ---------------------------------------------------------------------------------------------------------
def _first_loop(fn, P1, P2, M, r1, r2):
    """the feasibility loop and its parts -> dict (status per clause) ; names are the returned pair (r1, r2)"""
    out = {"w1": None, "guard": (None, "the loop that looks for the first admissible divisor (the top-level `while` holding the "
                                 "`raise`) was not found"), "fact": (None, "first search loop not found"), "scan": None}
    tops = [n for n in fn.body if isinstance(n, ast.While)]
    cands = [w for w in tops if any(isinstance(n, ast.Raise) for n in ast.walk(w))]
    if len(cands) != 1:
        cands = [w for w in tops if _cmp(w.test, {r2}) is not None and _cmp(w.test, {r2})[1] == "gt"]
        if len(cands) != 1:
            return out
    w1 = out["w1"] = cands[0]
    scans = _scans_in(w1.body, M)
    if len(scans) != 1:
        why = f"{len(scans)} divisor scans `while v <= B and {M} % v != 0: v += 1` in the first search loop (one expected)"
        out["guard"] = out["fact"] = (None, why)
        return out
    blk, k, sc = scans[0]
    out["scan"] = sc
    v = sc["var"]
    al, j = _aliases_after(blk, k, v)
    B = _bound_text(sc["base"], sc["k"])
    # ---- failure guard: judged against the bound of the specification, min(process count, bound of direction 0).  The scan may
    # run further than that bound (the test still sorts every value correctly) but not stop short of it.
    true_base = _canon(ast.parse(f"min({M}, {P1})", mode="eval").body)
    T = f"min({M}, {P1})"
    nxt = blk[j] if j < len(blk) else None
    if isinstance(nxt, ast.If) and not nxt.orelse and any(isinstance(x, ast.Raise) for x in nxt.body):
        f = _cmp(nxt.test, al)
        if any(_is_nondiv(nxt.test, a, M) for a in al):
            out["guard"] = (False, f"after `while {src(sc['loop'].test)}` the failure test is `{src(nxt.test)}`, not the exceeded bound "
                                   f"`{v} > {T}`: a value that stepped past the bound onto a divisor is returned as a valid grid (a process "
                                   "gets no point of a distributed dimension)")
        elif f and f[1] == "le":
            out["guard"] = (False, f"the error is raised when `{src(nxt.test)}`, i.e. when the scan FOUND a value within the bound, and "
                                   "not when it ran past it")
        elif f and f[1] == "gt" and f[2] == true_base and f[3] != 0:
            out["guard"] = (False, f"the error is raised when `{f[0]} > {_bound_text(T, f[3])}` instead of `{f[0]} > {T}`: " +
                                   (f"values up to {_bound_text(T, f[3])} pass although they exceed the bound (a process gets no point of a "
                                    "distributed dimension)" if f[3] > 0 else
                                    "an admissible divisor equal to the bound is refused although a valid grid exists"))
        elif f and f[1] == "gt" and f[2] == true_base and sc["base"] == true_base and sc["k"] < 0:
            out["guard"] = (False, f"the scan stops at `{v} = {_bound_text(T, sc['k'] + 1)}` whether or not that value divides `{M}`, and the "
                                   f"failure test `{src(nxt.test)}` lets it pass: a non-divisor within the bound is taken as first extent, the "
                                   "grid does not multiply to the process count")
        elif f and f[1] == "gt" and f[2] == true_base and sc["base"] == true_base:
            out["guard"] = (True, f"the scan stops at the first divisor or beyond {B}; the error is raised exactly when the value found exceeds "
                                  f"{T}, so a value that passes is a divisor within the bound")
        else:
            out["guard"] = (None, f"the failure test `{src(nxt.test)[:80]}` / the scan bound `{B}` are not comparisons of the scanned value "
                                  f"with `{T}`: cannot decide that the error is raised exactly when that bound is exceeded")
    else:
        out["guard"] = (None, "the statement after the divisor scan is not `if <scanned value> > <bound>: raise`")
    # ---- factorisation
    start = _scan_start(blk, k, v)
    asg = [n for n in blk[j:] if isinstance(n, ast.Assign) and len(n.targets) == 1 and isinstance(n.targets[0], ast.Name)
           and n.targets[0].id == r2]
    test = _cmp(w1.test, {r2})
    init = {}
    for st in fn.body[:fn.body.index(w1)]:
        if isinstance(st, ast.Assign) and len(st.targets) == 1 and isinstance(st.targets[0], ast.Name) and st.targets[0].id in (r1, r2):
            init[st.targets[0].id] = st.value
            continue
        for n in ast.walk(st):
            if isinstance(n, ast.Name) and isinstance(n.ctx, ast.Store) and n.id in (r1, r2):
                init[n.id] = None
    why = None
    verdict = None
    if len(asg) != 1 or blk is not w1.body:
        why = f"no single assignment `{r2} = {M} // <divisor>` after the scan in the first search loop"
    else:
        e = asg[0].value
        if isinstance(e, ast.BinOp) and isinstance(e.left, ast.Name) and e.left.id == M and isinstance(e.right, ast.Name) and e.right.id in al:
            if isinstance(e.op, ast.Div):
                verdict, why = False, (f"`{src(asg[0])}` is a true division: the second extent becomes a float, which is no valid number of "
                                       "processes for the cartesian topology")
            elif not isinstance(e.op, ast.FloorDiv):
                why = f"`{src(asg[0])}` is not the quotient `{M} // {e.right.id}`"
        else:
            why = f"`{src(asg[0])}` is not the quotient of {M} by the scanned divisor ({sorted(al)})"
        if why is None and r1 not in al:
            why = f"the scanned divisor ({sorted(al)}) is not stored in the returned first extent `{r1}`"
        if why is None and start != (r1, 1):
            why = (f"the scan does not start at `{r1} + 1`" + (f" but at `{start[0]} + {start[1]}`" if start else "") +
                   ": cannot decide that every divisor is visited once, in increasing order")
    if why is None:
        if not (test and test[1] == "gt" and test[2] == P2):
            why = f"the loop test `{src(w1.test)}` is not a comparison of `{r2}` with its bound `{P2}`"
        elif test[3] != 0:
            verdict = False
            why = (f"the first search loop runs while `{src(w1.test)}` instead of `{r2} > {P2}`: " +
                   ("a second extent equal to its bound is admissible but is skipped (a valid grid can be refused)" if test[3] < 0 else
                    f"it stops while the second extent still exceeds the bound `{P2}` (a process gets no point)"))
    if why is None:
        i1, i2 = init.get(r1), init.get(r2)
        if not (i1 is not None and _int_const(i1) and i1.value == 1 and isinstance(i2, ast.Name) and i2.id == M):
            why = f"the search does not start from `{r1} = 1`, `{r2} = {M}`"
    if why is None:
        out["fact"] = (True, "the second extent is the exact quotient by a divisor found by the scan: the grid multiplies to the process "
                             "count; the search continues while the second extent exceeds its bound")
    else:
        out["fact"] = (verdict, why)
    return out


def _second_loop(fn, w1, P1, P2, M, r1, r2):
    """the refinement loop -> dict: w2, step=(verdict, why), cand=(a, b) names of the accepted candidate, mono: bool"""
    out = {"w2": None, "step": (None, "the refinement loop (the top-level `while` after the first search that stores the returned "
                                "extents) was not found"), "cand": None, "mono": False}
    tops = [n for n in fn.body if isinstance(n, ast.While) and n is not w1
            and any(isinstance(x, ast.Name) and isinstance(x.ctx, ast.Store) and x.id in (r1, r2) for x in ast.walk(n))]
    if w1 is not None:
        tops = [n for n in tops if fn.body.index(n) > fn.body.index(w1)]
    if len(tops) != 1:
        return out
    w2 = out["w2"] = tops[0]
    # acceptance blocks: where the returned extents are replaced
    acc = []
    for blk in [w2.body] + [b for b in _blocks_of(w2) if b is not w2.body]:
        st1 = [s for s in blk if isinstance(s, ast.Assign) and len(s.targets) == 1 and isinstance(s.targets[0], ast.Name) and s.targets[0].id == r1]
        st2 = [s for s in blk if isinstance(s, ast.Assign) and len(s.targets) == 1 and isinstance(s.targets[0], ast.Name) and s.targets[0].id == r2]
        if st1 or st2:
            acc.append((blk, st1, st2))
    other = [n for n in ast.walk(w2) if isinstance(n, (ast.AugAssign, ast.For)) and _own_stores(n) & {r1, r2}]
    if other or not acc:
        out["step"] = (None, f"the returned extents are changed by `{src(other[0])[:60]}`" if other else "no assignment of the returned extents")
        return out
    for blk, st1, st2 in acc:
        if len(st1) != len(st2):
            lone = (st1 or st2)[0]
            out["step"] = (False, f"`{src(lone)}` replaces one extent of the grid without the other in the same branch: the pair no longer "
                                  f"multiplies to the process count `{M}`")
            return out
    if len(acc) != 1 or len(acc[0][1]) != 1:
        out["step"] = (None, "the returned extents are replaced at several places of the refinement loop")
        return out
    blk, (s1,), (s2,) = acc[0]
    if not isinstance(s1.value, ast.Name):
        out["step"] = (None, f"`{src(s1)}`: the accepted first extent is not a plain candidate variable")
        return out
    a = s1.value.id
    first = s1 if blk.index(s1) < blk.index(s2) else s2
    facts, order, pos = _path_facts(w2, first)
    if facts is None:
        out["step"] = (None, "the acceptance lies inside a nested loop")
        return out
    here = pos[id(first)]
    # the second extent of the candidate
    b = None
    e = s2.value
    if isinstance(e, ast.Name):
        b = e.id
        chain_blocks = [c[0] for c in _chain_to(w2.body, first)]
        defs = [s for s in order[:here] if isinstance(s, ast.Assign) and len(s.targets) == 1 and isinstance(s.targets[0], ast.Name)
                and s.targets[0].id == b]
        d = defs[-1] if defs else None
        if d is None or not any(d in cb for cb in chain_blocks) or _stored_between(order, pos[id(d)], here, {a, b}):
            out["step"] = (None, f"the definition of the candidate's second extent `{b}` that reaches the acceptance was not found")
            return out
        e = d.value
    if not (isinstance(e, ast.BinOp) and isinstance(e.left, ast.Name) and e.left.id == M and isinstance(e.right, ast.Name) and e.right.id == a):
        out["step"] = (None, f"the accepted second extent `{src(e)}` is not the quotient `{M} // {a}`")
        return out
    if isinstance(e.op, ast.Div):
        out["step"] = (False, f"the candidate's second extent `{src(e)}` is a true division: a float is returned as number of processes")
        return out
    if not isinstance(e.op, ast.FloorDiv):
        out["step"] = (None, f"the accepted second extent `{src(e)}` is not the quotient `{M} // {a}`")
        return out
    out["cand"] = (a, b)
    # bounds known at the acceptance
    want1 = _canon(ast.parse(f"min({M}, {P1})", mode="eval").body)
    got1 = got2 = None
    for p, t, taken in facts:
        for t2, tk in _facts(t, taken):
            f = _cmp(t2, {a} | ({b} if b else set()), tk)
            if not f or f[1] != "le" or _stored_between(order, p, here, {f[0]}):
                continue
            if f[0] == a and f[2] == want1:
                got1 = f if got1 is None or f[3] < got1[3] else got1
            if b and f[0] == b and f[2] == P2:
                got2 = f if got2 is None or f[3] < got2[3] else got2
    for g, nm, bound in ((got1, a, f"min({M}, {P1})"), (got2, b, P2)):
        if g is not None and g[3] > 0:
            out["step"] = (False, f"a candidate is accepted when `{nm} <= {_bound_text(g[2], g[3])}`, beyond its bound `{bound}`: "
                                  "a process gets no point of a distributed dimension")
            return out
    if got1 is None or got2 is None:
        miss = f"`{a} <= min({M}, {P1})`" if got1 is None else f"`{b or src(e)} <= {P2}`"
        out["step"] = (None, f"no condition {miss} is known to hold where the candidate is accepted")
        return out
    out["step"] = (True, "a candidate replaces the current grid only where it is known to respect both bounds, and both extents are "
                         "replaced together by a divisor and its exact quotient")
    # monotonicity argument for N3: the candidate's first extent comes from a scan that starts above the current first extent
    for sblk, k, sc in _scans_in(w2.body, M):
        if sblk is not w2.body:
            continue
        al, _ = _aliases_after(sblk, k, sc["var"])
        if a in al and _scan_start(sblk, k, sc["var"]) == (r1, 1):
            out["mono"] = True
    return out


def search_rules(chk, fn, nf_tree):
    kw = dict(file=U.PROCGRID, func=FROM_MAX)
    P = _params(fn)
    rets = [n for n in ast.walk(fn) if isinstance(n, ast.Return)]
    pair = None
    if len(P) == 3 and len(rets) == 1 and rets[0] is fn.body[-1] and isinstance(rets[0].value, ast.Tuple) and len(rets[0].value.elts) == 2 \
            and all(isinstance(x, ast.Name) for x in rets[0].value.elts) and rets[0].value.elts[0].id != rets[0].value.elts[1].id:
        pair = tuple(x.id for x in rets[0].value.elts)
    first = second = None
    order_bad = None
    if pair:
        P1, P2, M = P
        r1, r2 = pair
        first = _first_loop(fn, P1, P2, M, r1, r2)
        if first["fact"][0] is None and first["scan"] is not None:
            # are the roles of the returned names the other way round?
            swapped = _first_loop(fn, P1, P2, M, r2, r1)
            if swapped["fact"][0] is True:
                order_bad = (f"`{src(rets[0])}`: `{r1}` is the quotient `{M} // {r2}` bounded by `{P2}` (process direction 1) and `{r2}` the "
                             f"divisor bounded by `{P1}` (direction 0): the pair is returned in the wrong order, each extent is laid on the "
                             "direction whose bound it was not checked against")
                first, (r1, r2) = swapped, (r2, r1)
        second = _second_loop(fn, first["w1"], P1, P2, M, r1, r2)
    chk.pat("N2-factorisation", rets[0] if rets else fn, "return nprocs1, nprocs2", bool(pair) and not order_bad,
            "the pair is returned in (direction 0, direction 1) order", order_bad, nontrivial=False, **kw)
    und = "the function does not end in `return <first extent>, <second extent>` of two local names (or has not three parameters)"
    g_ok, g_why = first["guard"] if first else (None, und)
    f_ok, f_why = first["fact"] if first else (None, und)
    s_ok, s_why = second["step"] if second else (None, und)
    w1 = first["w1"] if first else None
    w2 = second["w2"] if second else None
    import builtins
    own = {st.name for st in nf_tree.body if isinstance(st, ast.FunctionDef)} | set(dir(builtins))
    closed = not any(isinstance(n, (ast.Raise, ast.Assert)) or
                     (isinstance(n, ast.Call) and not (isinstance(n.func, ast.Name) and n.func.id in own)) for n in ast.walk(nf_tree))
    if g_ok is None and closed and first and first["scan"] is not None:
        g_ok, g_why = False, ("process_grid.py raises no error at all (no raise, assert, or call of foreign code): when no divisor within the bound exists the scan result is returned "
                              "as if it were a valid grid")
    node = (first["scan"]["loop"] if first and first["scan"] else None) or w1 or fn
    chk.ob("N2-failure-guard", node, "raise exactly when no divisor <= bound exists", g_ok, g_why, **kw)
    chk.ob("N2-factorisation", w1 or fn, "nprocs2 = mpi_size // nprocs1 for a divisor nprocs1", f_ok, f_why, **kw)
    chk.ob("N2-improvement-step", w2 or fn, "candidate accepted only within both bounds, as a pair", s_ok, s_why, **kw)

    # N3: no iteration of a search loop can leave the loop-carried state unchanged (it would repeat forever)
    mono = bool(second and second["mono"] and f_ok is True and s_ok is True and second["cand"] and second["cand"][1])
    for lp in [n for n in ast.walk(fn) if isinstance(n, ast.While)]:
        carried, stuck, npaths = lints.stuck_iterations(lp)
        stored = {n.id for n in ast.walk(lp) if isinstance(n, ast.Name) and isinstance(n.ctx, ast.Store)}
        for dec, end in stuck:
            # a path that takes a constant test against its value does not exist
            if any(isinstance(t, ast.Constant) and bool(t.value) != taken for t, taken in dec):
                continue
            # a state-preserving path that decides `new_n2 > max_proc2` is infeasible: new_n1 > nprocs1, so
            # new_n2 = mpi_size // new_n1 <= mpi_size // nprocs1 = nprocs2 <= max_proc2 (exit condition of the first loop, kept by every
            # acceptance); accepted only while the statements carrying that argument are in place.  Whether the argument is
            # recognised or not, a path of that shape is never reported as a violation: its feasibility is what is undecided.
            shape = discharged = False
            for t, taken in dec:
                for t2, tk in _facts(t, taken):
                    f = _cmp(t2, stored, tk)
                    if f and f[1] == "gt" and f[3] >= 0 and (len(P) != 3 or f[2] == P[1]):
                        shape = True
                        if mono and lp is w2 and f[0] == second["cand"][1]:
                            discharged = True
            if discharged:
                continue
            chk.ob("N3-no-stuck-iteration", dec[-1][0] if dec else lp, f"iteration path ending at {end}", None if shape else False,
                   "the state-preserving path of the refinement loop is infeasible only because new_n2 <= nprocs2 <= max_proc2; the statements "
                   "carrying that argument (first search loop, candidate scan starting at nprocs1 + 1, new_n2 = mpi_size // new_n1, acceptance "
                   "within both bounds) were not all recognised" if shape else
                   "the path " + " / ".join(f"`{src(t)}` is {v}" for t, v in dec) + f" reaches the next iteration ({end}) without changing any of the "
                   f"loop-carried values {sorted(carried)}: the same iteration repeats forever, the search does not terminate", **kw)
        chk.ob("N3-no-stuck-iteration", lp, f"while {src(lp.test)[:60]}", True, f"{npaths} iteration paths to the back edge examined; "
               f"loop-carried values {sorted(carried)}", nontrivial=False, **kw)


def run(chk):
    chk.explanation = (
        "Narrow structural claim: for each process-grid direction the dimensions under the min() that bounds it are exactly the "
        "dimensions the standard layout dictionaries of setups.py distribute along that direction; both set-up functions pass "
        "constants.npts and the layout communicator's size and use the result as the handler's grid; the failure test after the "
        "divisor scan is the negation of the scan's bound condition; the second extent is the exact quotient by a divisor; an "
        "improved candidate is accepted only where both bounds are known to hold, both extents together; no iteration path of a "
        "search loop reaches the back edge with the loop-carried state unchanged (a necessary condition of termination); no call "
        "changes a memoised or module-level table in place. The rules work on a local normal form (tuple assignments split, loop "
        "invariants written back, comparisons as `v <= B + k`). Termination in general, optimality and 'raises exactly when none "
        "exists' over the whole input space quantify over divisor arithmetic and are not decided.")
    chk.in_file(U.PROCGRID)
    mod = chk.mod(U.PROCGRID)
    chk.func(U.PROCGRID, FROM_MAX)
    nf_tree, nf = _normal_form(mod.tree, (GRID, FROM_MAX))
    # the purity rule needs no recognition of the search: it runs first, so its verdict stands whatever the other rules can decide
    pure_search(chk, mod.tree, mod.func(FROM_MAX))
    bounds_vs_layouts(chk, nf)
    call_sites(chk)
    search_rules(chk, nf[FROM_MAX], nf_tree)
    chk.floor("N1-", 4)
    chk.floor("N2-", 4)
    chk.floor("N3-", 1)
    chk.floor("N4-", 2)
