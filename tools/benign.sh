#!/bin/bash
# benign.sh <variant> <PID...>: build the benign variant under /tmp/pgv_benign/<variant> (if missing) and run the checks on it
v=$1; shift
root=/tmp/pgv_benign/$v
if [ ! -d $root ]; then
  mkdir -p /tmp/pgv_benign
  /venv/bin/python -c "
import sys; sys.path.insert(0,'/verif')
from pathlib import Path
from pgverif import selftest
selftest.make_variant('$v', Path('$root'))
"
fi
for pid in "$@"; do
  PGVERIF_REPO=$root PGVERIF_EVIDENCE_DIR=/tmp/pgv_benign/ev /venv/bin/python -m pgverif check $pid 2>&1 | grep -E "VIOLATED|ANALYSIS-ERROR" | cut -c1-${W:-300}
  echo "  -> $v $pid exit=${PIPESTATUS[0]}"
done
