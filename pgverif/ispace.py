"""Engine C: index-space and window typing (DESIGN 4.2).

Abstract interpretation of the grid-level operators with a domain of *index-space
tags*: an integer is a local or a global index along a physical dimension, a layout
axis or a dimension number; an array carries one window per axis - Global(d),
Local(d), a prefix, a unit/stencil axis.  The rules:

  C-sort     starts/ends/shape/... are subscripted by layout axes, eta_grid/_Vals/...
             by dimensions; `X[starts[a]:ends[a]]` on a Global(d) table needs dim(a) == d
  C-window   a Global(d) axis is subscripted by a global index (a local one only when
             d is not distributed in the ambient layout), a Local(d) axis by a local one;
             a prefix `table[:n_local]` of a global table is not the local block
  C-same-index  one index value used for a Local(d) and a Global(d) axis of a distributed d
  C-slice-param a per-slice routine whose tables need the local index of a looped
             dimension gets that loop's index (not a default constant)

Only tags are computed; no array contents, no index arithmetic.

SOUNDNESS (audit, `# AUDIT:` comments below).  Every VIOLATED verdict of this engine is a statement about TAGS: "this axis is
a Global(d) window and this subscript is a local index".  It is true of the code only when the tags are.  The engine therefore
distinguishes two untyped values:

  OTHER  a value the rules have no interest in and that the engine takes for a scalar (a literal, a loop counter of an untyped
         range, a parameter or local that was never bound to anything the engine could not read);
  UNK    the result of a construct the engine does NOT model (a call of a function it has no transfer function for, a subscript
         of an untyped container, a comprehension / lambda / dict, an attribute it does not know, ...).  It may be an array of any
         rank, a slice object, a sequence.  Every transfer function that meets UNK where the rank or the axis placement of its
         result depends on it answers UNK again and records NO obligation about the affected axes.

Numpy functions, array methods and array attributes are modelled by explicit tables; the fall-through of every table is UNK
(never "element-wise", "same as the operand" or "no effect").  Keyword / star arguments are bound by name where the callee is
known and make the call unmodelled otherwise.  Names bound by statements the engine does not interpret are forgotten (UNK); values
that differ between the paths into a program point (branches, loop-carried values, handlers) are joined to OTHER / UNK.
"""
from __future__ import annotations

import ast
from dataclasses import dataclass, field

from .core import src, AnalysisError, parent
from . import units as U

DIMNAMES = {0: "r", 1: "theta", 2: "z", 3: "v"}

# ---- tags (plain tuples)
OTHER = ("other",)
UNK = ("other", "?")          # not modelled: may be an array of any rank, a slice, a sequence, an object
UNIT = ("1",)
STENCIL = ("S",)


def G(d):
    return ("G", d)


def L(d):
    return ("L", d)


def arr(windows, elem=None):
    return ("arr", tuple(windows), elem)


def is_arr(t):
    return isinstance(t, tuple) and len(t) == 3 and t[0] == "arr"


def wname(w):
    if w is None:
        return "?"
    if w[0] in ("G", "L", "P"):
        d = w[1]
        return {"G": "Global", "L": "Local", "P": "Prefix"}[w[0]] + "(" + (DIMNAMES.get(d, str(d)) if d is not None else "?") + ")"
    if w[0] == "Gm":
        return f"Global({DIMNAMES.get(w[1], w[1])})-{w[2]}"
    return {"1": "unit", "S": "stencil", "U": "uniform"}.get(w[0], str(w))


def tname(t):
    if not isinstance(t, tuple):
        return str(t)
    if t == UNK:
        return str(OTHER)          # callers recognise "not typed" by the text of OTHER
    if t[0] in ("lidx", "gidx", "coord", "dim", "start", "end"):
        return f"{t[0]}({DIMNAMES.get(t[1], t[1])})"
    if t[0] == "arr":
        return "array[" + ", ".join(wname(w) for w in t[1]) + "]"
    return str(t)


@dataclass
class Ctx:
    """ambient layouts: variable name of a grid/layout -> (dims_order tuple or None, ndist or None)"""
    grids: dict = field(default_factory=dict)
    dist_dims: set | None = None          # dims distributed in the ambient layout; None = unknown (assume all may be)

    def distributed(self, d):
        if self.dist_dims is None:
            return True
        return d in self.dist_dims


# tags of integer scalars (index positions): a subscript item with one of these removes its axis
_INDEX_KINDS = {"lit", "lidx", "gidx", "param", "start", "end", "size", "rank", "dim", "dim_at_value", "axis", "axis_of", "wrongstart"}
# builtins whose result is a scalar whatever the engine knows about the argument
_SCALAR_BUILTINS = {"int", "float", "len", "abs", "min", "max", "round", "bool", "complex"}
_NONSCALAR_ANNOT = ("ndarray", "slice", "list", "tuple", "List", "Tuple", "Sequence", "Iterable", "dict", "Dict", "array")


_LIST_MUTATORS = {"append", "extend", "insert", "pop", "remove", "sort", "reverse", "clear"}


class _MuteChk:
    """stands for the Check during a dry pass (loop-carried values): nothing is recorded"""

    def __init__(self, chk):
        self._chk = chk
        self.functions = set()

    def ob(self, *a, **k):
        return None

    def pat(self, *a, **k):
        return None

    def note(self, *a, **k):
        return None

    def floor(self, *a, **k):
        return None

    def __getattr__(self, k):
        return getattr(self._chk, k)


def _stored_names(nodes):
    """(local names, self attributes) bound anywhere inside the statements / expressions `nodes`"""
    names, attrs = set(), set()
    for root in nodes:
        for n in ast.walk(root):
            if isinstance(n, ast.Name) and isinstance(n.ctx, (ast.Store, ast.Del)):
                names.add(n.id)
            elif isinstance(n, ast.Attribute) and isinstance(n.ctx, (ast.Store, ast.Del)) and isinstance(n.value, ast.Name) and n.value.id == "self":
                attrs.add(n.attr)
            elif isinstance(n, (ast.FunctionDef, ast.AsyncFunctionDef, ast.ClassDef)):
                names.add(n.name)
            elif isinstance(n, ast.ExceptHandler) and n.name:
                names.add(n.name)
            elif isinstance(n, ast.alias):
                names.add((n.asname or n.name).split(".")[0])
            elif isinstance(n, (ast.Global, ast.Nonlocal)):
                names.update(n.names)
            elif type(n).__name__ in ("MatchAs", "MatchStar") and getattr(n, "name", None):
                names.add(n.name)
            elif type(n).__name__ == "MatchMapping" and getattr(n, "rest", None):
                names.add(n.rest)
    return names, attrs


def join_tags(a, b):
    """least upper bound of the tags a value has on two paths"""
    if a == b:
        return a
    if a == OTHER and b == OTHER:
        return OTHER
    scal = lambda t: isinstance(t, tuple) and t and (t == OTHER or t[0] in _INDEX_KINDS or t[0] in ("coord", "none"))
    if scal(a) and scal(b):
        return OTHER
    return UNK


def join_vals(a, b):
    """join of two environment values (tags or python lists of tags)"""
    if a == b:
        return a
    # a list that is empty on one path and a table over one window on the other (one entry appended per position of a typed
    # iteration): the empty list is the table over an empty window
    if a == [] and is_arr(b) and len(b[1]) == 1:
        return b
    if b == [] and is_arr(a) and len(a[1]) == 1:
        return a
    if isinstance(a, list) or isinstance(b, list):
        if isinstance(a, list) and isinstance(b, list) and len(a) == len(b) and type(a) is type(b):
            return type(a)(join_vals(x, y) for x, y in zip(a, b))
        return UNK
    return join_tags(a, b)


class IS:
    """one function's abstract interpretation"""

    def __init__(self, chk, rel, q, fn: ast.FunctionDef, env: dict, ctx: Ctx, attrs: dict | None = None,
                 summaries: dict | None = None, rule_prefix="C"):
        self.chk, self.rel, self.q, self.fn = chk, rel, q, fn
        self.env = dict(env)
        self.ctx = ctx
        self.attrs = attrs if attrs is not None else {}      # self.X -> tag
        self.summaries = summaries or {}                     # method name -> {param: required tag}
        self.methods: dict = {}                              # same-class methods available for inlining
        self.obj_summaries: dict = {}                        # (class, method) -> summary, for receivers tagged ('obj', class)
        self.depth = 0
        self.param_req: dict[str, list] = {}                 # param -> [(tag, node, why)]
        self.params = {a.arg for a in fn.args.args}
        self.loopvars: list[tuple] = []                      # (name, tag) of enclosing loops
        self.node_tags: dict = {}                            # id(expr node) -> tag at its (last) evaluation
        self.sort_req: dict[str, list] = {}                  # param -> [(sort 'axis'|'dim', node)]
        self.nobs = 0
        # AUDIT: a parameter the caller gave no tag is taken for a scalar (OTHER) - except when its annotation says it is an array,
        # a slice or a sequence, or it is *args / **kwargs: those are UNK
        a_ = fn.args
        for p_ in list(getattr(a_, "posonlyargs", [])) + list(a_.args) + list(a_.kwonlyargs):
            if p_.arg not in self.env and p_.annotation is not None and any(k in src(p_.annotation) for k in _NONSCALAR_ANNOT):
                self.env[p_.arg] = UNK
        for p_ in (a_.vararg, a_.kwarg):
            if p_ is not None and p_.arg not in self.env:
                self.env[p_.arg] = UNK

    # ------------------------------------------------------------------ reporting
    def ob(self, rule, node, ok, msg, construct=None):
        self.nobs += 1
        self.chk.ob(rule, node, construct or src(node)[:110], ok, msg, file=self.rel, func=self.q)

    # ------------------------------------------------------------------ what is a scalar
    def scalar_index(self, node, t):
        """is the subscript item `node` (tag t) an integer scalar, i.e. does it remove its axis?
        AUDIT: typed integers are; an untyped value (OTHER) is when the expression is a name / an integer literal / arithmetic of such /
        int(), len(): names with OTHER were never bound to anything the engine could not read (those are UNK).  Everything else
        (UNK, untyped attributes, subscripts of untyped containers, calls) may be a slice object, a mask or an index array: not a scalar"""
        if isinstance(t, tuple) and t and t[0] in _INDEX_KINDS:
            return True
        if t != OTHER:
            return False
        return self._plain_scalar(node)

    def _plain_scalar(self, node):
        if isinstance(node, ast.Constant):
            return isinstance(node.value, int) and not isinstance(node.value, bool)
        if isinstance(node, ast.Name):
            return True
        if isinstance(node, ast.UnaryOp) and isinstance(node.op, (ast.USub, ast.UAdd, ast.Invert)):
            return self.scalar_index(node.operand, self.node_tags.get(id(node.operand), OTHER))
        if isinstance(node, ast.BinOp) and not isinstance(node.op, ast.MatMult):
            return all(self.scalar_index(x, self.node_tags.get(id(x), OTHER)) or
                       (isinstance(x, ast.Constant) and isinstance(x.value, (int, float)) and not isinstance(x.value, bool))
                       for x in (node.left, node.right))
        if isinstance(node, ast.IfExp):
            return all(self.scalar_index(x, self.node_tags.get(id(x), OTHER)) for x in (node.body, node.orelse))
        if isinstance(node, ast.Call) and isinstance(node.func, ast.Name) and node.func.id in ("int", "len", "abs", "min", "max", "round"):
            return True
        return False

    @staticmethod
    def maybe_array(t):
        """may the untyped operand `t` of an array expression have a rank of its own (so that the rank of the result is not that of
        the typed operands)?  AUDIT: OTHER / typed scalars / untyped attributes are taken for scalars or for arrays of at most the rank
        of the typed operands (the windows of the result, aligned from the right, are then those of the typed operands)"""
        if is_arr(t):
            return False
        if isinstance(t, list):
            return True
        if not isinstance(t, tuple) or not t:
            return True
        return t == UNK or t[0] in ("grid", "layout", "iter", "obj", "sliceobj", "constants") or \
            (isinstance(t[0], str) and t[0].startswith(("layout.", "grid.")) and t[0].split(".", 1)[1] not in ("ndims", "size", "name"))

    def forget(self, names=(), attrs=()):
        for n in names:
            if n in self.env:
                self.env[n] = UNK
        for a in attrs:
            if a in self.attrs:
                self.attrs[a] = UNK

    # ------------------------------------------------------------------ expressions
    def ev(self, e):
        m = getattr(self, "ev_" + type(e).__name__, None)
        if m is None:
            # AUDIT: an expression form without a transfer function (dict / set displays, f-strings, await, yield, ...): its parts are
            # typed for their own obligations, its value is not modelled
            for ch in ast.iter_child_nodes(e):
                if isinstance(ch, ast.expr):
                    self.ev(ch)
            self.node_tags[id(e)] = UNK
            return UNK
        t = m(e)
        self.node_tags[id(e)] = t
        return t

    def ev_Constant(self, e):
        if isinstance(e.value, int) and not isinstance(e.value, bool):
            return ("lit", e.value)
        if e.value is None:
            return ("none",)
        if e.value is Ellipsis or isinstance(e.value, (str, bytes)):
            return UNK
        return OTHER

    def ev_Name(self, e):
        return self.env.get(e.id, OTHER)

    def ev_Tuple(self, e):
        out = []
        for x in e.elts:
            if isinstance(x, ast.Starred):
                v = self.ev(x.value)
                if isinstance(v, list):
                    out.extend(v)
                    continue
                # AUDIT: a starred element of unknown length shifts every later position: the display is not modelled
                for y in e.elts:
                    if y is not x and not (isinstance(y, ast.Starred) and id(y.value) in self.node_tags):
                        self.ev(y.value if isinstance(y, ast.Starred) else y)
                return UNK
            out.append(self.ev(x))
        return out

    ev_List = ev_Tuple

    # ---- comprehensions, lambdas, walrus
    def _comp_scope(self, generators, parts):
        """type the parts of a comprehension in its own scope (targets bound to the element tags of what they iterate over); the
        scope's bindings do not leak"""
        saved = dict(self.env)
        try:
            for g in generators:
                it = self.ev(g.iter)
                self.bind_loop(g.target, self.element_tags(it))
                for c in g.ifs:
                    self.ev(c)
            return [self.ev(p) for p in parts]
        finally:
            self.env = saved

    def ev_SetComp(self, e):
        self._comp_scope(e.generators, [e.elt])
        return UNK

    ev_GeneratorExp = ev_SetComp

    def ev_DictComp(self, e):
        self._comp_scope(e.generators, [e.key, e.value])
        return UNK

    def ev_Lambda(self, e):
        # AUDIT: the body runs later, with the values the free names have THEN: not typed here
        return UNK

    def ev_NamedExpr(self, e):
        v = self.ev(e.value)
        self.assign(e.target, v, e, e.value)
        return v

    def ev_ListComp(self, e):
        g = e.generators[0]
        if len(e.generators) != 1 or g.ifs or getattr(g, "is_async", 0):
            # AUDIT: a filter or a second generator makes the result a list over another index range than the iterated one
            self._comp_scope(e.generators, [e.elt])
            return UNK
        it = self.ev(g.iter)
        names = {n.id for n in ast.walk(g.target) if isinstance(n, ast.Name)}
        used = {n.id for n in ast.walk(e.elt) if isinstance(n, ast.Name)}
        if isinstance(it, list):
            saved = dict(self.env)
            out = []
            for x in it:
                self.bind_loop(g.target, x)
                out.append(self.ev(e.elt))
            self.env = saved
            return out
        w = self.iter_window(it)
        saved = dict(self.env)
        self.bind_loop(g.target, self.element_tags(it))
        el = self.ev(e.elt)
        self.env = saved
        if w is None:
            return UNK
        if not (names & used):
            return arr((("U",),), None)
        return arr((w,), el if isinstance(el, tuple) and el and el[0] in ("coord", "gidx", "lidx") else None)

    def iter_window(self, it):
        """the window the POSITIONS of an iteration run over (entry k of a list built from it belongs to position k of that window)"""
        if is_arr(it) and it[1]:
            return it[1][0]
        if isinstance(it, tuple) and it and it[0] == "iter":
            if len(it) > 2:
                return it[2]
        return None

    def element_tags(self, it):
        """tags of the values an iteration over `it` yields (UNK when the iterable is not modelled)"""
        if isinstance(it, tuple) and it and it[0] == "iter":
            return it[1]
        if is_arr(it) and it[1]:
            if len(it[1]) == 1:
                return it[2] if it[2] is not None else OTHER
            return arr(it[1][1:], it[2])
        if isinstance(it, list):
            ts = {repr(x) for x in it}
            return it[0] if len(ts) == 1 else UNK
        return UNK

    def ev_Starred(self, e):
        self.ev(e.value)
        return UNK

    def ev_UnaryOp(self, e):
        v = self.ev(e.operand)
        if is_arr(v):
            return arr(v[1], None)
        if isinstance(v, tuple) and v[0] == "lit" and isinstance(e.op, ast.USub):
            return ("lit", -v[1])
        return UNK if self.maybe_array(v) else OTHER

    def ev_BinOp(self, e):
        a, b = self.ev(e.left), self.ev(e.right)
        return self.binop(e.op, a, b, e)

    def binop(self, op, a, b, node):
        if isinstance(op, ast.MatMult):
            return UNK                                       # AUDIT: a contraction, not an entry-by-entry pairing
        if is_arr(a) or is_arr(b):
            return self.broadcast([a, b], node)
        if self.maybe_array(a) or self.maybe_array(b):
            return UNK
        # index arithmetic keeps the index space for +/- literals; start + lidx -> gidx
        if isinstance(a, tuple) and isinstance(b, tuple):
            if isinstance(op, (ast.Add, ast.Sub)):
                pair = {a[0], b[0]}
                if a[0] in ("lidx", "gidx") and b[0] == "lit":
                    return a
                if b[0] in ("lidx", "gidx") and a[0] == "lit" and isinstance(op, ast.Add):
                    return b
                if isinstance(op, ast.Add) and pair == {"lidx", "start"} and a[1] == b[1]:
                    return ("gidx", a[1])
                if isinstance(op, ast.Sub) and a[0] == "gidx" and b[0] == "start" and a[1] == b[1]:
                    return ("lidx", a[1])
                if isinstance(op, ast.Sub) and a[0] == "end" and b[0] == "start" and a[1] == b[1]:
                    return ("size", L(a[1]))
                if isinstance(op, ast.Add) and pair == {"start", "size"}:
                    st_, sz_ = (a, b) if a[0] == "start" else (b, a)
                    if sz_[1] == L(st_[1]):
                        return ("end", st_[1])               # start + local length = end of the block
            if isinstance(op, ast.Mult) and {a[0], b[0]} == {"rank", "size"}:
                sz = a if a[0] == "size" else b
                rk = a if a[0] == "rank" else b
                if sz[1] and sz[1][0] in ("Lmax", "L") and (rk[1] == sz[1][1]):
                    return ("wrongstart", sz[1][1])
            if isinstance(op, ast.Add) and a[0] == "wrongstart":
                return OTHER
        return OTHER

    def ev_Compare(self, e):
        vs = [self.ev(e.left)] + [self.ev(c) for c in e.comparators]
        if any(is_arr(v) for v in vs) and len(vs) == 2 and isinstance(e.ops[0], (ast.Eq, ast.NotEq, ast.Lt, ast.LtE, ast.Gt, ast.GtE)):
            # an entry-by-entry comparison: the mask has the broadcast windows of its operands (no obligation of its own is recorded)
            return self.broadcast(vs, e, report=False)
        return UNK if any(is_arr(v) or self.maybe_array(v) for v in vs) else OTHER

    def ev_BoolOp(self, e):
        vs = [self.ev(v) for v in e.values]
        return UNK if any(is_arr(v) or self.maybe_array(v) for v in vs) else OTHER

    def ev_IfExp(self, e):
        self.ev(e.test)
        a, b = self.ev(e.body), self.ev(e.orelse)
        return join_vals(a, b)

    def ev_Attribute(self, e):
        if isinstance(e.value, ast.Name) and e.value.id == "self":
            return self.attrs.get(e.attr, ("selfattr", e.attr))
        base = self.ev(e.value)
        a = e.attr
        if isinstance(base, tuple):
            if base[0] == "arr":
                if a == "size" and len(base[1]) == 1:
                    return ("size", base[1][0])
                if a == "size":
                    return OTHER
                if a == "ndim":
                    return ("lit", len(base[1]))
                if a == "shape":
                    return [("size", w) for w in base[1]]
                if a in ("T",):
                    return arr(tuple(reversed(base[1])), base[2])
                if a in ("real", "imag"):
                    return base
                if a == "flat" and len(base[1]) == 1:
                    return base
                return UNK                                   # AUDIT: an array attribute the engine has no transfer function for
            if base[0] == "grid" and a == "eta_grid":
                n = len(base[1]) if base[1] is not None else 4
                return DimList(eta_grid_tag()[:n])
            if base[0] in ("layout", "grid"):
                return (base[0] + "." + a, base)
            if base[0] == "constants":
                if a == "npts":
                    return DimList([("size", G(d)) for d in range(4)])
                return OTHER
            if base == UNK or base[0] in ("obj", "iter", "sliceobj") or (isinstance(base[0], str) and base[0].startswith(("layout.", "grid."))):
                return UNK
        if isinstance(base, list):
            return UNK
        return OTHER

    def layout_axis_to_dim(self, lay, a):
        """dimension carried by axis tag `a` of layout `lay`"""
        order = lay[1]
        if isinstance(a, tuple) and a[0] == "param":
            return ("dim_of_axis", a[1])
        if isinstance(a, tuple) and a[0] == "axis" and isinstance(a[1], str):
            return ("dim_of_axis", a[1])
        if isinstance(a, tuple):
            if a[0] == "axis_of":
                return a[1]
            if a[0] == "lit":
                if order is not None and -len(order) <= a[1] < len(order):
                    return order[a[1]]
                return ("dim_at", a[1])
            if a[0] == "axis":
                if order is not None and isinstance(a[1], int):
                    return order[a[1]]
                return ("dim_at", a[1])
        return None

    def ev_Subscript(self, e):
        base = self.ev(e.value)
        # layout tables
        if isinstance(base, tuple) and isinstance(base[0], str) and base[0].startswith(("layout.", "grid.")):
            kind, attr = base[0].split(".", 1)
            lay = base[1]
            idx = self.ev(e.slice) if not isinstance(e.slice, ast.Slice) else None
            if attr in ("starts", "ends", "shape", "max_block_shape", "nprocs", "fullShape", "ranks"):
                if isinstance(e.slice, ast.Slice):
                    return UNK
                # C-sort: axis lists are subscripted by axes
                # AUDIT (three C-sort verdicts below): true when (1) the base is one of the per-AXIS tables of a Layout (its tag comes
                # from the attribute name on a value tagged layout/grid by the caller's environment - the Layout API) and (2) the
                # subscript's tag is a dimension number: it comes from dims_order[<axis>] or from a DimList position, never from a
                # guess (untyped subscripts give no obligation)
                if isinstance(idx, tuple) and idx[0] in ("dim", "dim_at_value"):
                    self.ob("C-sort", e, False, f"`{src(e.value)}` is ordered by layout axis but is subscripted by the "
                            f"dimension number `{src(e.slice)}` (use inv_dims_order to get the axis)")
                    return OTHER
                d = self.layout_axis_to_dim(lay, idx)
                if isinstance(idx, tuple) and idx[0] in ("lit", "axis", "axis_of"):
                    self.ob("C-sort", e, True, f"`{src(e.value)}` subscripted by a layout axis", construct=src(e))
                if isinstance(idx, tuple) and idx[0] == "param":
                    self.sort_req.setdefault(idx[1], []).append(("axis", e))
                if isinstance(idx, tuple) and idx[0] == "dim_of_axis":
                    self.ob("C-sort", e, False, f"`{src(e.value)}` is ordered by layout axis but is subscripted by `{src(e.slice)}`, "
                            "which is a dimension number (dims_order[...] of an axis)")
                    return OTHER
                if d is None or (isinstance(d, tuple) and d[0] != "dim_of_axis"):
                    return OTHER
                if attr == "ranks":
                    return ("rank", d)
                return {"starts": ("start", d), "ends": ("end", d), "shape": ("size", L(d)),
                        "max_block_shape": ("size", ("Lmax", d)), "fullShape": ("size", G(d)),
                        "nprocs": OTHER}[attr]
            if attr == "dims_order":
                if isinstance(e.slice, ast.Slice):
                    return UNK
                if isinstance(idx, tuple) and idx[0] == "dim":
                    # a dimension number used where an axis is expected
                    return ("dim_at_value", idx[1])
                if isinstance(idx, tuple) and idx[0] in ("lit", "axis"):
                    d = self.layout_axis_to_dim(lay, idx)
                    if isinstance(d, int):
                        return ("dim", d)
                    if isinstance(d, tuple) and d[0] == "dim_of_axis":
                        return ("dim", d)
                    return ("dim_at_value", idx[1])
                if isinstance(idx, tuple) and idx[0] == "param":
                    self.sort_req.setdefault(idx[1], []).append(("axis", e))
                    return ("dim", ("dim_of_axis", idx[1]))
                return OTHER
            if attr == "inv_dims_order":
                if isinstance(idx, tuple) and idx[0] == "param":
                    self.sort_req.setdefault(idx[1], []).append(("dim", e))
                    return ("axis_of", ("param", idx[1]))
                if isinstance(idx, tuple) and idx[0] in ("lit", "dim"):
                    d = idx[1]
                    order = lay[1]
                    if order is not None and d in order:
                        return ("axis", order.index(d))
                    return ("axis_of", d)
                return OTHER
            if not isinstance(e.slice, ast.Slice) and attr in ("mpi_starts", "mpi_lengths"):
                return OTHER
            return UNK                                       # AUDIT: an attribute of Layout / Grid the engine has no table for
        # DimLists: python lists of tags
        if isinstance(base, list):
            if isinstance(e.slice, ast.Slice):
                lo = self.ev(e.slice.lower) if e.slice.lower else ("lit", None)
                hi = self.ev(e.slice.upper) if e.slice.upper else ("lit", None)
                st = self.ev(e.slice.step) if e.slice.step else ("lit", None)
                if all(isinstance(x, tuple) and x[0] == "lit" for x in (lo, hi, st)) and st[1] != 0:
                    return base[slice(lo[1], hi[1], st[1])]
                return UNK
            idx = self.ev(e.slice)
            if isinstance(idx, tuple) and idx[0] in ("lit", "dim") and isinstance(idx[1], int) and -len(base) <= idx[1] < len(base):
                return base[idx[1]]
            if isinstance(idx, tuple) and idx[0] == "param" and isinstance(base, DimList):
                self.sort_req.setdefault(idx[1], []).append(("dim", e))
                d = ("param", idx[1])
                return retag(base[0], d) if base else OTHER
            if isinstance(idx, tuple) and idx[0] == "dim" and isinstance(idx[1], tuple) and isinstance(base, DimList):
                self.ob("C-sort", e, True, f"`{src(e.value)}` (ordered by dimension) subscripted by a dimension number", construct=src(e))
                return retag(base[0], idx[1]) if base else OTHER
            if isinstance(idx, tuple) and idx[0] in ("axis", "axis_of") and isinstance(base, DimList):
                # AUDIT: the base is a list ordered by DIMENSION (DimList tags are given by the caller's environment or come from
                # grid.eta_grid / constants.npts) and the subscript is typed as a layout axis (inv_dims_order[...] or a literal axis
                # of a known ordering)
                self.ob("C-sort", e, False, f"`{src(e.value)}` is ordered by dimension but is subscripted by a layout axis `{src(e.slice)}`")
            return UNK
        if is_arr(base):
            return self.index_array(base, e)
        # AUDIT: subscript of a value that is not typed as an array / table: the parts are typed for their own obligations, the
        # value is not modelled (it may be a row, a slice object, an element of any kind)
        for x in ([e.slice.lower, e.slice.upper, e.slice.step] if isinstance(e.slice, ast.Slice) else [e.slice]):
            if x is not None:
                self.ev_index_part(x)
        return UNK

    def ev_index_part(self, x):
        if isinstance(x, ast.Tuple):
            for y in x.elts:
                self.ev_index_part(y)
        elif isinstance(x, ast.Slice):
            for y in (x.lower, x.upper, x.step):
                if y is not None:
                    self.ev(y)
        else:
            self.ev(x)

    @staticmethod
    def _is_newaxis(it, t=None):
        return (isinstance(it, ast.Constant) and it.value is None) or \
            (isinstance(it, ast.Attribute) and it.attr == "newaxis" and isinstance(it.value, ast.Name) and it.value.id in ("np", "numpy")) or \
            (isinstance(it, ast.Name) and it.id == "newaxis") or (t == ("none",))

    def index_array(self, base, e):
        """AUDIT: the axis an item applies to is found by COUNTING the items before it: None / np.newaxis insert an axis, `...` stands
        for the axes not named, an integer scalar removes its axis, a slice keeps it, ONE rank-1 index array replaces it.  Any other
        item (a value that is not known to be a scalar: it may be a slice object, a mask, an index array; two index arrays, which numpy
        broadcasts against each other and may move to the front) makes the placement of the LATER axes unknown: the result is UNK
        and no obligation is recorded for those items"""
        wins = list(base[1])
        sl = e.slice
        items = list(sl.elts) if isinstance(sl, ast.Tuple) else [sl]
        if any(isinstance(it, ast.Starred) for it in items):
            for it in items:
                self.ev_index_part(it.value if isinstance(it, ast.Starred) else it)
            return UNK
        # `...`: expand to the full slices it stands for
        ell = [k for k, it in enumerate(items) if isinstance(it, ast.Constant) and it.value is Ellipsis]
        pre_tags = {}
        if ell:
            if len(ell) > 1:
                return UNK
            for it in items:
                if not isinstance(it, (ast.Slice,)) and not (isinstance(it, ast.Constant) and it.value is Ellipsis):
                    pre_tags[id(it)] = self.ev(it)
            consuming = 0
            for it in items:
                if isinstance(it, ast.Constant) and it.value is Ellipsis:
                    continue
                if isinstance(it, ast.Slice):
                    consuming += 1
                elif self._is_newaxis(it, pre_tags.get(id(it))):
                    continue
                elif self.scalar_index(it, pre_tags[id(it)]) or (is_arr(pre_tags[id(it)]) and len(pre_tags[id(it)][1]) == 1):
                    consuming += 1
                else:
                    return UNK
            fill = len(wins) - consuming
            if fill < 0:
                return UNK
            full = [ast.copy_location(ast.Slice(lower=None, upper=None, step=None), items[ell[0]]) for _ in range(fill)]
            items = items[:ell[0]] + full + items[ell[0] + 1:]
        out = []
        k = 0
        fancy = 0
        for it in items:
            if isinstance(it, ast.Slice):
                if k >= len(wins):
                    return UNK
                w = wins[k]
                if it.lower is None and it.upper is None and it.step is None:
                    out.append(w)
                else:
                    out.append(self.slice_window(w, it, e))
                k += 1
                continue
            t = pre_tags[id(it)] if id(it) in pre_tags else self.ev(it)
            if self._is_newaxis(it, t):
                out.append(UNIT)
                continue
            if k >= len(wins):
                return UNK                                   # more indices than typed axes: the rank is not what the engine believes
            w = wins[k]
            if is_arr(t):
                # fancy indexing by an index array
                fancy += 1
                if len(t[1]) != 1 or fancy > 1:
                    return UNK
                el = t[2]
                if el is not None and el[0] in ("gidx", "lidx"):
                    self.check_index(w, el, e, it)
                    out.append(L(el[1]) if t[1] and t[1][0] is not None and t[1][0][0] == "L" else t[1][0] if t[1] else w)
                else:
                    out.append(OTHER)
                k += 1
                continue
            if not self.scalar_index(it, t):
                return UNK
            self.check_index(w, t, e, it)
            k += 1
        out.extend(wins[k:])
        if not out:
            return base[2] if base[2] is not None else OTHER
        return arr(out, base[2])

    @staticmethod
    def _lit_or_none(x):
        return x is None or (isinstance(x, tuple) and x[0] == "lit")

    def slice_window(self, w, it: ast.Slice, e):
        lo = self.ev(it.lower) if it.lower is not None else None
        hi = self.ev(it.upper) if it.upper is not None else None
        st = self.ev(it.step) if it.step is not None else None
        if st is not None and st != ("lit", 1):
            # AUDIT: a stride / a reversal selects other rows than the window's: the axis is not typed
            return STENCIL
        if w is not None and w[0] == "G":
            d = w[1]
            if lo is not None and hi is not None and isinstance(lo, tuple) and isinstance(hi, tuple) \
                    and lo[0] == "start" and hi[0] == "end":
                # AUDIT: VIOLATED when the table is typed Global(d) and the bounds are typed start/end of ANOTHER dimension (all three
                # dimensions known); an unknown dimension on either side is not a mismatch
                known = lo[1] is not None and hi[1] is not None
                ok = lo[1] == hi[1] and (d is None or lo[1] == d)
                if not ok and not known:
                    ok = None
                self.ob("C-window", e, ok, f"{wname(w)} table cut to the local block [start:end) of "
                        f"{DIMNAMES.get(lo[1], lo[1])}/{DIMNAMES.get(hi[1], hi[1])}" +
                        ("" if ok else " - start/end belong to a different dimension than the table" if ok is False else
                         " - the dimension of the bounds is not established"))
                return L(d if d is not None else lo[1]) if ok else None
            if lo is None and hi is not None and isinstance(hi, tuple) and hi[0] == "size" and hi[1] and hi[1][0] in ("L", "Lmax"):
                # AUDIT: the first n_local entries are the block of the process at the origin; true defect when the dimension of the
                # table is distributed in the ambient layout (a Ctx without dist_dims stands for EVERY layout: the routine must be
                # right for the ones that distribute d).  When d is not distributed the prefix is the whole table = the local block
                hd = hi[1][1]
                same = d is None or hd is None or d == hd
                if same and hi[1][0] == "L" and not self.ctx.distributed(d if d is not None else hd):
                    self.ob("C-window", e, True, f"{wname(w)} table cut to its first n_local entries: {DIMNAMES.get(d, d)} is not "
                            "distributed in this layout (the block is the whole table)")
                    return L(d if d is not None else hd)
                self.ob("C-window", e, False if same else None, f"{wname(w)} table cut to its first n_local entries: these are the entries of the "
                        "first block, not of this process's block (must be [start:end))")
                return ("P", d)
            lo_se = lo is not None and isinstance(lo, tuple) and lo[0] in ("start", "end")
            hi_se = hi is not None and isinstance(hi, tuple) and hi[0] in ("start", "end")
            if lo_se or hi_se:
                # AUDIT: one bound is the block's start / end.  A defect when both bounds are typed and are not [start_d:end_d) (two
                # starts, end before start, bounds of two dimensions, a length used as a position).  When the other bound is absent or a
                # literal the result is the tail / head of the global table from the block on - not the block, but `X[start:][:n]` or
                # `X[start:][i]` are right: not decided here; when it is a value the engine does not type (e.g. start + n) the range
                # may well be the block: UNDECIDED
                other = hi if lo_se else lo
                known_other = (lo_se and hi_se) or (isinstance(other, tuple) and other[0] in ("size", "lidx", "gidx"))
                self.ob("C-window", e, False if known_other else None, f"{wname(w)} table cut by a mixed/partial local range `{src(it)}`" +
                        ("" if known_other else " - one bound is not typed: whether the range is the local block is not established"))
                return None
        if w is not None and w[0] in ("G", "Gm") and self._lit_or_none(lo) and self._lit_or_none(hi):
            # a literal cut of a global table: `x[1:]`, `x[:-1]`, `x[1:-1]` - the number of entries removed at the two ends
            a_ = 0 if lo is None else lo[1]
            b_ = 0 if hi is None else -hi[1]
            if a_ is not None and b_ is not None and a_ >= 0 and b_ >= 0 and (hi is None or hi[1] < 0):
                k = w[2] if w[0] == "Gm" else 0
                return ("Gm", w[1], k + a_ + b_)
            return STENCIL
        if w is not None and w[0] == "G" and lo is not None and isinstance(lo, tuple) and lo[0] == "wrongstart":
            # AUDIT: lo is rank(d') x (max) block length of the SAME d' (checked where the product is typed); a defect for uneven blocks
            same = w[1] is None or lo[1] is None or w[1] == lo[1]
            self.ob("C-window", e, False if same else None, f"{wname(w)} table cut from `rank x max block length`: that is not the global start of "
                    "this process's block when the blocks are uneven (use starts/ends or getGlobalIdxVals)")
            return ("P", w[1])
        return w if (lo is None and hi is None) else STENCIL

    def check_index(self, w, t, e, it):
        """AUDIT (all C-window verdicts here): true when the window `w` of the axis and the index tag `t` are.  Windows come from
        the constructions the engine models (cuts [start:end), allocations from typed sizes, Grid accessors, broadcasting of typed
        operands); index tags from loops over typed ranges / getCoords / getGlobalIdxVals and from index arithmetic.  `distributed(d)`
        is the caller's statement about the ambient layout (dist_dims=None: for every layout, i.e. d may be distributed)"""
        if w is None or not isinstance(t, tuple):
            return
        if w[0] in ("G", "L", "P") and t[0] in ("lidx", "gidx"):
            d = w[1]
            td = t[1]
            if d is not None and td is not None and isinstance(td, int) and isinstance(d, int) and td != d:
                self.ob("C-window", e, False, f"axis {wname(w)} of `{src(e.value)}` is subscripted by `{src(it)}`, an index along "
                        f"{DIMNAMES.get(td, td)}")
                return
            dd = d if d is not None else td
            if w[0] == "G" and t[0] == "lidx":
                ok = not self.ctx.distributed(dd)
                if not ok and dd is None:
                    ok = None                                # dimension of neither side known
                self.ob("C-window", e, ok, f"axis {wname(w)} of `{src(e.value)}` is subscripted by the local index `{src(it)}`" +
                        (f" ({DIMNAMES.get(dd, dd)} is not distributed in this layout)" if ok else
                         f" while {DIMNAMES.get(dd, dd)} is distributed in this layout: rows of another process's block are used"))
            elif w[0] == "L" and t[0] == "gidx":
                ok = not self.ctx.distributed(dd)
                if not ok and dd is None:
                    ok = None
                self.ob("C-window", e, ok, f"axis {wname(w)} of `{src(e.value)}` is subscripted by the global index `{src(it)}`" +
                        ("" if ok else f" while {DIMNAMES.get(dd, dd)} is distributed"))
            elif w[0] == "P":
                self.ob("C-window", e, False, f"axis {wname(w)} of `{src(e.value)}` (a prefix of a global table) is used as a local table")
            else:
                self.ob("C-window", e, True, f"axis {wname(w)} of `{src(e.value)}` subscripted by {tname(t)}")
        elif w[0] in ("G", "L") and t[0] == "param":
            self.param_req.setdefault(t[1], []).append((("gidx" if w[0] == "G" else "lidx", w[1]), e,
                                                        f"subscripts axis {wname(w)} of `{src(e.value)}`"))

    def broadcast(self, vals, node, report=True):
        """AUDIT: callers pass the operands of an ENTRY-BY-ENTRY numpy operation (arithmetic operators, the ufuncs of the tables
        below, stores `X[...] = v`).  Entries are paired axis by axis from the right; unit axes pair with anything.  VIOLATED: two
        typed windows on the same axis that cover different index ranges - different known dimensions, or Global(d) with Local(d) /
        a prefix for a d that is (may be) distributed.  Axes of unknown dimension are UNDECIDED.  An operand that is not typed and may
        be an array of higher rank makes the RESULT unmodelled (the verdicts between the typed operands stand: alignment is from the
        right)"""
        arrs = [v for v in vals if is_arr(v)]
        if not arrs:
            return UNK
        n = max(len(a[1]) for a in arrs)
        out = []
        for k in range(1, n + 1):
            ws = [a[1][-k] for a in arrs if len(a[1]) >= k]
            ws2 = [w for w in ws if w is not None and w != UNIT]
            w = ws2[0] if ws2 else (UNIT if all(x is not None for x in ws) else None)
            for w2 in ws2[1:]:
                if w2 != w and w[0] in ("G", "L", "P") and w2[0] in ("G", "L", "P"):
                    same_dim = w[1] == w2[1] or w[1] is None or w2[1] is None
                    d = w[1] if w[1] is not None else w2[1]
                    if not same_dim or ({w[0], w2[0]} != {"G", "L"} or self.ctx.distributed(d)):
                        ok = False
                        if same_dim and d is None:
                            ok = None
                        if report:
                            self.ob("C-window", node, ok, f"element-wise combination of axes {wname(w)} and {wname(w2)}: the "
                                    "operands cover different index ranges (lengths may agree, rows do not correspond)" +
                                    ("" if ok is False else " - a dimension is not established"))
            out.append(w)
        if any(self.maybe_array(v) for v in vals if not is_arr(v)):
            return UNK
        return arr(tuple(reversed(out)), None)

    # ---- numpy tables.  AUDIT: a function is entry-by-entry / shape-preserving / a reduction only when it is LISTED; everything
    # else is not modelled (UNK, no obligation)
    NP_UNARY = {"real", "imag", "sqrt", "exp", "floor", "ceil", "abs", "absolute", "fabs", "cos", "sin", "tan", "tanh", "cosh", "sinh",
                "arccos", "arcsin", "arctan", "log", "log10", "log2", "log1p", "expm1", "conj", "conjugate", "negative", "positive",
                "square", "sign", "rint", "trunc", "isnan", "isfinite", "isinf", "logical_not", "invert", "reciprocal", "angle",
                "float64", "int64", "complex128", "nan_to_num",
                "full_like", "empty_like", "zeros_like", "ones_like", "copy", "ascontiguousarray", "asfortranarray", "asarray",
                "asanyarray", "array", "atleast_1d"}
    NP_KEEP_ELEM = {"real", "atleast_1d", "array", "asarray", "asanyarray", "copy", "ascontiguousarray", "asfortranarray"}
    NP_NARY = {"mod", "remainder", "fmod", "add", "subtract", "multiply", "divide", "true_divide", "floor_divide", "power", "maximum",
               "minimum", "fmax", "fmin", "arctan2", "hypot", "equal", "not_equal", "less", "greater", "less_equal", "greater_equal",
               "logical_and", "logical_or", "logical_xor", "isclose", "copysign", "clip"}
    NP_REDUCE = {"prod", "sum", "amin", "amax", "min", "max", "mean", "std", "var", "any", "all", "nansum", "nanmin", "nanmax", "nanprod"}
    NP_SAFE_KW = {"dtype", "casting", "order", "subok", "copy", "equal_nan", "rtol", "atol", "like"}

    def reduce_windows(self, a, ax, keep):
        """windows of a reduction of `a` over axis tag `ax` (None: all axes) with keepdims `keep` (True / False / None = not a literal)"""
        ws = list(a[1])
        if keep is None:
            return UNK
        if ax is None or ax == ("none",):
            return arr([UNIT] * len(ws), None) if keep else OTHER
        axes = [ax] if isinstance(ax, tuple) else ax if isinstance(ax, list) else None
        if axes is None or not all(isinstance(x, tuple) and x[0] == "lit" and -len(ws) <= x[1] < len(ws) for x in axes):
            return UNK                                       # AUDIT: which axis disappears is not known
        idx = {x[1] % len(ws) for x in axes}
        out = [(UNIT if k in idx else w) for k, w in enumerate(ws)] if keep else [w for k, w in enumerate(ws) if k not in idx]
        if not out:
            return OTHER
        return arr(out, None)

    @staticmethod
    def _lit_bool(node):
        return node.value if isinstance(node, ast.Constant) and isinstance(node.value, bool) else None

    def np_call(self, e, name, args, kw):
        kwn = {k.arg: k.value for k in e.keywords}
        arrs = [a for a in args if is_arr(a)]
        # ---- allocation from a shape
        if name in ("empty", "zeros", "ones", "ndarray", "full") and args:
            shp = args[0]
            if set(kw) - {"dtype", "order", "fill_value", "like"}:
                return UNK                                   # buffer= / strides= / shape= ...: another view
            if isinstance(shp, list):
                if any(isinstance(s, list) or is_arr(s) or self.maybe_array(s) for s in shp):
                    return UNK
                return arr(tuple(s[1] if isinstance(s, tuple) and s[0] == "size" and s[1] is not None else
                                 (UNIT if s == ("lit", 1) else STENCIL) for s in shp), None)
            if isinstance(shp, tuple) and shp[0] == "size" and shp[1] is not None:
                return arr((shp[1],), None)
            if isinstance(shp, tuple) and shp[0] == "lit":
                return arr((UNIT if shp[1] == 1 else STENCIL,), None)
            # AUDIT: a shape that is not a display of typed sizes may be a tuple of any length: the rank is not known
            return UNK
        if name == "array" and e.args and isinstance(e.args[0], (ast.List, ast.Tuple)) and not (set(kw) - {"dtype", "order", "copy"}):
            elts = e.args[0].elts
            stars = [x for x in elts if isinstance(x, ast.Starred)]
            if len(stars) == 1:
                mid = self.node_tags.get(id(stars[0].value))
                plain = all(not (is_arr(self.node_tags.get(id(x))) or isinstance(self.node_tags.get(id(x)), list) or
                                 self.node_tags.get(id(x)) == UNK) for x in elts if x is not stars[0])
                if is_arr(mid) and len(mid[1]) == 1 and mid[1][0] and mid[1][0][0] == "Gm" and len(elts) - 1 == mid[1][0][2] and plain:
                    # a global table with k entries cut off at its ends and k scalar entries put back: as long as the global table
                    return arr((G(mid[1][0][1]),), None)
                if is_arr(mid) and len(mid[1]) == 1 and plain:
                    return arr((STENCIL,), None)
                return UNK
            if stars:
                return UNK
            ts = args[0] if isinstance(args[0], list) else None
            if ts is None or any(is_arr(t) or isinstance(t, list) or self.maybe_array(t) for t in ts):
                return UNK                                   # nested displays / array elements: rank not known
            return arr((STENCIL,), None)
        safe = not (set(kw) - self.NP_SAFE_KW - {"out", "where"}) and "shape" not in kw
        if name in self.NP_UNARY:
            if not safe or (name in ("array", "asarray", "asanyarray") and "ndmin" in kw):
                return UNK
            extra = [kw[k] for k in ("out", "where") if k in kw]
            if args and is_arr(args[0]):
                more = [a for a in args[1:] if is_arr(a)] + [x for x in extra if is_arr(x)]
                if any(self.maybe_array(a) for a in args[1:] + extra):
                    return UNK
                if name in ("full_like", "empty_like", "zeros_like", "ones_like"):
                    return arr(args[0][1], None)             # the fill value is not paired with the prototype
                return self.broadcast([args[0]] + more, e) if more else arr(args[0][1], args[0][2] if name in self.NP_KEEP_ELEM else None)
            if args and not self.maybe_array(args[0]) and not isinstance(args[0], list):
                return OTHER                                 # function of a scalar
            return UNK
        if name in self.NP_NARY or (name == "where" and len(e.args) == 3):
            if not safe:
                return UNK
            ops = list(args) + [kw[k] for k in ("out", "where") if k in kw]
            if any(isinstance(a, list) for a in ops):
                return UNK
            if not arrs and not any(is_arr(x) for x in ops):
                return UNK if any(self.maybe_array(a) for a in ops) else OTHER
            return self.broadcast(ops, e)
        if name in self.NP_REDUCE and args and is_arr(args[0]):
            if set(kw) - {"axis", "keepdims", "dtype", "initial"} or len(e.args) > 2:
                return UNK                                   # out= / where= / positional dtype ...
            ax = kw.get("axis") if "axis" in kw else (args[1] if len(e.args) > 1 else None)
            keep = False if "keepdims" not in kwn else self._lit_bool(kwn["keepdims"])
            return self.reduce_windows(args[0], ax, keep)
        if name in ("arange", "linspace", "eye", "fftfreq"):
            if name == "fftfreq" and args and isinstance(args[0], tuple) and args[0][0] == "size" and args[0][1] is not None:
                return arr((args[0][1],), None)
            if name == "fftfreq":
                return arr((("G", None),), None)
            if name == "arange" and len(e.args) == 1 and isinstance(args[0], tuple) and args[0][0] == "size" and args[0][1] is not None \
                    and not (set(kw) - {"dtype"}):
                return arr((args[0][1],), None)
            if any(is_arr(a) or isinstance(a, list) for a in args):
                return UNK
            if name == "linspace" and (set(kw) - {"num", "endpoint", "dtype"}):
                return UNK                                   # retstep=True returns a pair, axis= ...
            return arr((STENCIL,) * (2 if name == "eye" else 1), None)
        if name == "atleast_2d" and len(e.args) == 1 and not kw and is_arr(args[0]):
            return arr((UNIT,) + tuple(args[0][1]), args[0][2]) if len(args[0][1]) == 1 else args[0]
        # ---- axis placement
        if name == "expand_dims" and len(args) + len(kw) == 2 and arrs and is_arr(args[0]) and not (set(kw) - {"axis"}):
            ax = kw.get("axis") if "axis" in kw else args[1]
            axes = [ax] if isinstance(ax, tuple) else ax if isinstance(ax, list) else None
            n = len(args[0][1]) + (len(axes) if axes else 0)
            if axes and all(isinstance(x, tuple) and x[0] == "lit" and -n <= x[1] < n for x in axes):
                pos = sorted({x[1] % n for x in axes})
                if len(pos) == len(axes):
                    ws = list(args[0][1])
                    out = []
                    for k in range(n):
                        out.append(UNIT if k in pos else ws.pop(0))
                    return arr(out, args[0][2])
            return UNK
        if name == "transpose" and args and is_arr(args[0]) and not (set(kw) - {"axes"}):
            perm = kw.get("axes") if "axes" in kw else (args[1] if len(args) > 1 else None)
            return self.permute(args[0], perm)
        if name == "swapaxes" and len(args) == 3 and not kw and is_arr(args[0]):
            n = len(args[0][1])
            if all(isinstance(x, tuple) and x[0] == "lit" and -n <= x[1] < n for x in args[1:]):
                ws = list(args[0][1])
                i, j = args[1][1] % n, args[2][1] % n
                ws[i], ws[j] = ws[j], ws[i]
                return arr(ws, args[0][2])
            return UNK
        if name == "moveaxis" and len(args) == 3 and not kw and is_arr(args[0]):
            n = len(args[0][1])
            if all(isinstance(x, tuple) and x[0] == "lit" and -n <= x[1] < n for x in args[1:]):
                ws = list(args[0][1])
                w_ = ws.pop(args[1][1] % n)
                ws.insert(args[2][1] % n, w_)
                return arr(ws, args[0][2])
            return UNK
        if name == "outer" and len(args) == 2 and not kw and all(is_arr(a) and len(a[1]) == 1 for a in args):
            return arr((args[0][1][0], args[1][1][0]), None)
        if name in ("ravel", "flatten") and len(args) == 1 and is_arr(args[0]) and len(args[0][1]) == 1:
            return args[0]
        # AUDIT: every other numpy function (dot, einsum, meshgrid, concatenate, stack, take, diff, cumsum, reshape, squeeze, roll,
        # tile, repeat, searchsorted, ...) is not modelled: no pairing of its operands is claimed
        return UNK

    def permute(self, a, perm):
        if perm is None or perm == ("none",):
            return arr(tuple(reversed(a[1])), a[2])
        n = len(a[1])
        if isinstance(perm, list) and len(perm) == n and all(isinstance(x, tuple) and x[0] == "lit" and -n <= x[1] < n for x in perm) \
                and len({x[1] % n for x in perm}) == n:
            return arr([a[1][x[1] % n] for x in perm], a[2])
        return UNK

    def array_method(self, recv, e, name, args, kw):
        kwn = {k.arg: k.value for k in e.keywords}
        if name in ("copy", "conj", "astype"):
            return recv
        if name in ("conjugate", "round", "clip"):
            return arr(recv[1], None) if not any(is_arr(a) or self.maybe_array(a) for a in list(args) + list(kw.values())) else UNK
        if name in ("flatten", "ravel"):
            return recv if len(recv[1]) == 1 else UNK        # AUDIT: flattening a table of rank > 1 merges its axes
        if name in self.NP_REDUCE:
            if set(kw) - {"axis", "keepdims", "dtype", "initial"} or len(e.args) > 1:
                return UNK
            ax = kw.get("axis") if "axis" in kw else (args[0] if e.args else None)
            keep = False if "keepdims" not in kwn else self._lit_bool(kwn["keepdims"])
            return self.reduce_windows(recv, ax, keep)
        if name == "transpose" and not kw:
            if not args:
                return self.permute(recv, None)
            return self.permute(recv, args[0] if len(args) == 1 and isinstance(args[0], list) else list(args))
        if name == "swapaxes" and len(args) == 2 and not kw:
            n = len(recv[1])
            if all(isinstance(x, tuple) and x[0] == "lit" and -n <= x[1] < n for x in args):
                ws = list(recv[1])
                i, j = args[0][1] % n, args[1][1] % n
                ws[i], ws[j] = ws[j], ws[i]
                return arr(ws, recv[2])
            return UNK
        if name in ("fill", "sort", "itemset", "setflags", "tofile", "dump"):
            return ("none",)
        if name == "item":
            return OTHER
        return UNK                                           # AUDIT: reshape, squeeze, take, dot, nonzero, ...: not modelled

    def own_class_methods(self):
        cls = self.q.split(".")[0] if "." in self.q else None
        if not cls:
            return {}
        cache = self.__dict__.setdefault("_own_methods", None)
        if cache is None:
            try:
                cache = dict(self.chk.mod(self.rel).methods(cls))
            except Exception:                                # noqa: BLE001 - the class is not in the module (a copy under analysis)
                cache = {}
            cache.update(self.methods)
            self._own_methods = cache
        return cache

    def forget_effects_of(self, mname, seen=None):
        """a same-class method the engine does not step into (summarised / too deep) may store instance attributes: forget those"""
        seen = seen if seen is not None else set()
        if mname in seen:
            return
        seen.add(mname)
        m = self.own_class_methods().get(mname)
        if m is None:
            return
        _, attrs = _stored_names([m])
        for n in ast.walk(m):
            if isinstance(n, ast.Call) and isinstance(n.func, ast.Attribute) and isinstance(n.func.value, ast.Name) and n.func.value.id == "self":
                self.forget_effects_of(n.func.attr, seen)
            if isinstance(n, ast.Call) and isinstance(n.func, ast.Attribute) and n.func.attr in _LIST_MUTATORS and \
                    isinstance(n.func.value, ast.Attribute) and isinstance(n.func.value.value, ast.Name) and n.func.value.value.id == "self":
                attrs.add(n.func.value.attr)
        self.forget(attrs=attrs)

    def ev_Call(self, e):
        f = e.func
        name = f.attr if isinstance(f, ast.Attribute) else f.id if isinstance(f, ast.Name) else ""
        recv = self.ev(f.value) if isinstance(f, ast.Attribute) and not (isinstance(f.value, ast.Name) and f.value.id in ("np", "numpy", "math")) else None
        if not isinstance(f, (ast.Attribute, ast.Name)):
            self.ev(f)
        star = any(isinstance(a, ast.Starred) for a in e.args) or any(k.arg is None for k in e.keywords)
        args = [self.ev(a.value if isinstance(a, ast.Starred) else a) for a in e.args]
        kw = {k.arg: self.ev(k.value) for k in e.keywords}
        isnp = isinstance(f, ast.Attribute) and isinstance(f.value, ast.Name) and f.value.id in ("np", "numpy")
        self_call = isinstance(f, ast.Attribute) and isinstance(f.value, ast.Name) and f.value.id == "self"
        # in-place mutation of a python list the engine has a tag for: the tag no longer describes it
        if isinstance(f, ast.Attribute) and name in _LIST_MUTATORS and isinstance(recv, list):
            if isinstance(f.value, ast.Name):
                self.env[f.value.id] = UNK
            elif isinstance(f.value, ast.Attribute) and isinstance(f.value.value, ast.Name) and f.value.value.id == "self":
                self.attrs[f.value.attr] = UNK
            return UNK
        if star:
            # AUDIT: star-expanded arguments are not bound to parameters: the call is not modelled.  For a summarised per-slice
            # routine that is an obligation the engine cannot decide (not a silent pass)
            if self_call and name in self.summaries:
                self.ob("C-slice-param", e, None, f"`{name}` is called with star-expanded arguments: which value reaches its index "
                        "parameters is not established", construct=src(e)[:90])
            if isinstance(recv, tuple) and recv[0] == "obj" and (recv[1], name) in self.obj_summaries:
                self.ob("C-slice-param", e, None, f"`{name}` is called with star-expanded arguments: which value reaches its index "
                        "parameters is not established", construct=src(e)[:90])
            if self_call:
                self.forget_effects_of(name)
            return UNK
        # ---- grid accessors.  AUDIT: the meaning of Grid.getCoords / getCoordVals / getGlobalIdxVals / get2DSlice / get1DSlice /
        # getAllData / getLayout is the Grid API (the receiver is tagged `grid` by the caller's environment); C02 checks the
        # methods themselves.  Arguments passed by keyword are not bound: not modelled
        if isinstance(recv, tuple) and recv[0] == "grid":
            order, ndist = recv[1], recv[2]

            def dim_of(a):
                if isinstance(a, tuple) and a[0] == "lit" and order is not None and -len(order) <= a[1] < len(order):
                    return order[a[1]]
                return None
            if kw:
                return UNK
            if name == "getCoords" and len(args) == 1:
                d = dim_of(args[0])
                return ("iter", [("lidx", d), ("coord", d)], L(d))
            if name == "getCoordVals" and len(args) == 1:
                d = dim_of(args[0])
                return arr((L(d),), ("coord", d))
            if name == "getGlobalIdxVals" and len(args) == 1:
                d = dim_of(args[0])
                return arr((L(d),), ("gidx", d))
            if name in ("get2DSlice", "get1DSlice"):
                keep = 2 if name == "get2DSlice" else 1
                if order is None or len(args) != len(order) - keep:
                    # AUDIT: selector k belongs to axis k only when all leading axes are selected
                    return UNK
                # AUDIT (selector verdict): every leading axis has its selector (checked above), so selector k addresses axis k of the
                # ambient ordering `order` (the caller's statement about the layout); VIOLATED when the selector is typed as an index
                # of another dimension, or as a global index of a distributed one; untyped selectors give no obligation
                for k, a in enumerate(args):
                    want = order[k]
                    if isinstance(a, tuple) and a[0] in ("lidx", "gidx") and want is not None:
                        ok = a == ("lidx", want) or (a == ("gidx", want) and not self.ctx.distributed(want))
                        if not ok and a[1] is None:
                            ok = None
                        self.ob("C-window", e, ok, f"slice selector {k} of `{src(e)[:50]}` must be the local index along "
                                f"{DIMNAMES.get(want, want)}, got {tname(a)}", construct=src(e)[:80] + f" [selector {k}]")
                    elif isinstance(a, tuple) and a[0] == "param":
                        self.param_req.setdefault(a[1], []).append((("lidx", want), e, f"selects the slice in `{src(e)[:40]}`"))
                return arr(tuple(G(d) for d in order[-keep:]), None)
            if name == "getAllData" and not args:
                if order is not None:
                    nd_ = ndist if ndist is not None else 2
                    return arr(tuple(L(d) if k < nd_ else G(d) for k, d in enumerate(order)), None)
                return UNK
            if name == "getLayout" and len(e.args) == 1:
                # getLayout(grid.currentLayout) -> ambient layout; getLayout('name') -> named
                a0 = e.args[0]
                if isinstance(a0, ast.Constant) and isinstance(a0.value, str):
                    o = LAYOUT_ORDERS.get(a0.value)
                    return ("layout", o, None)
                if isinstance(a0, ast.Attribute) and a0.attr == "currentLayout" and src(a0.value) == src(f.value):
                    return ("layout", order, ndist)
                return ("layout", None, None)                # AUDIT: a layout named by a value: its ordering is not known
            return UNK
        if isinstance(recv, tuple) and recv[0] == "layout" and name in ("mpi_starts", "mpi_lengths"):
            return OTHER
        # ---- builtins
        if isinstance(f, ast.Name) and name == "enumerate" and args:
            a = args[0]
            shifted = len(e.args) > 1 or bool(kw)            # enumerate(x, start): the counter is not the position
            if is_arr(a) and a[1]:
                w = a[1][0]
                it = ("gidx", w[1]) if w and w[0] == "G" else ("lidx", w[1]) if w and w[0] == "L" else OTHER
                el = a[2] if len(a[1]) == 1 and a[2] is not None else (arr(a[1][1:], a[2]) if len(a[1]) > 1 else OTHER)
                return ("iter", [OTHER if shifted else it, el], w)
            if isinstance(a, tuple) and a[0] == "iter":
                first = a[1][0] if isinstance(a[1], list) and a[1] else a[1]
                cnt = OTHER
                w = a[2] if len(a) > 2 else None
                if not shifted and w is not None and w[0] in ("G", "L"):
                    cnt = ("gidx" if w[0] == "G" else "lidx", w[1])
                return ("iter", [cnt, a[1]], w)
            if isinstance(a, list):
                return ("iter", [OTHER, self.element_tags(a)])
            return ("iter", [OTHER, UNK])
        if isinstance(f, ast.Name) and name == "range" and args and not kw:
            hi = args[-1] if len(args) <= 2 else args[1]
            lo = args[0] if len(args) >= 2 else None
            if isinstance(hi, tuple) and hi[0] == "size" and hi[1] and hi[1][0] in ("G", "L") and len(args) == 1:
                return ("iter", ("gidx" if hi[1][0] == "G" else "lidx", hi[1][1]), hi[1])
            if isinstance(hi, tuple) and hi[0] == "size" and hi[1] and hi[1][0] in ("G", "L"):
                return ("iter", ("gidx" if hi[1][0] == "G" else "lidx", hi[1][1]))
            if len(args) == 2 and isinstance(lo, tuple) and isinstance(hi, tuple) and lo[0] == "start" and hi[0] == "end" and lo[1] == hi[1]:
                return ("iter", ("gidx", lo[1]), L(lo[1]))   # the global indices of the block, in order
            return ("iter", OTHER)
        if isinstance(f, ast.Name) and name == "zip":
            els = []
            ws = []
            for a in args:
                if isinstance(a, tuple) and a[0] == "iter":
                    els.append(a[1])
                    ws.append(a[2] if len(a) > 2 else None)
                elif is_arr(a) and a[1]:
                    els.append(self.element_tags(a))
                    ws.append(a[1][0])
                else:
                    els.append(UNK if (self.maybe_array(a) or isinstance(a, list)) else OTHER)
                    ws.append(None)
            w = ws[0] if ws and all(x is not None and x == ws[0] for x in ws) else None
            return ("iter", els, w) if w is not None else ("iter", els)
        if isinstance(f, ast.Name) and name == "len" and args:
            a = args[0]
            if is_arr(a) and a[1] and a[1][0] is not None:
                return ("size", a[1][0])
            return OTHER
        if isinstance(f, ast.Name) and name in ("float", "int", "abs"):
            return args[0] if args and isinstance(args[0], tuple) and args[0][0] in ("coord", "lidx", "gidx") else OTHER
        if isinstance(f, ast.Name) and name in _SCALAR_BUILTINS:
            return OTHER
        if isinstance(f, ast.Attribute) and isinstance(f.value, ast.Name) and f.value.id == "math":
            return OTHER
        # ---- numpy
        if isnp or (isinstance(f, ast.Name) and name in ("empty", "zeros", "ones", "ndarray")):
            return self.np_call(e, name, args, kw)
        if isinstance(f, ast.Attribute) and src(f.value) in ("np.fft", "numpy.fft") and name == "fftfreq":
            if args and isinstance(args[0], tuple) and args[0][0] == "size" and args[0][1] is not None:
                return arr((args[0][1],), None)
            return arr((("G", None),), None)
        # array methods
        if is_arr(recv):
            return self.array_method(recv, e, name, args, kw)
        # calls of repo functions with elementwise semantics (constants.iota(r))
        # AUDIT: by NAME - `iota` is the safety-factor profile of the Constants object (evaluated point by point at the radii it is
        # given); only the windows of the argument are kept, the values are not typed
        if name == "iota" and len(args) == 1 and not kw and is_arr(args[0]):
            return arr(args[0][1], None)
        # method summaries: self.step(...)
        if self_call and name in self.summaries:
            self.check_call_against_summary(e, name, args, kw)
            self.forget_effects_of(name)
            return UNK
        if isinstance(recv, tuple) and recv[0] == "obj" and (recv[1], name) in self.obj_summaries:
            self.check_call_against_summary(e, name, args, kw, self.obj_summaries[(recv[1], name)])
            return UNK
        if self_call and name in self.methods and self.depth < 3:
            m = self.methods[name]
            ps = [a.arg for a in m.args.args if a.arg != "self"]
            env = {}
            for p_, a_ in zip(ps, args):
                env[p_] = a_
            for k_, v_ in kw.items():
                env[k_] = v_
            sub = IS(self.chk, self.rel, self.q.split(".")[0] + "." + name, m, env, self.ctx, self.attrs, self.summaries)
            sub.methods = self.methods
            sub.depth = self.depth + 1
            sub.run()
            self.nobs += sub.nobs
            self.chk.functions.add(f"{self.rel}:{sub.q}")
            return getattr(sub, "ret", ("none",))
        if self_call:
            self.forget_effects_of(name)
        return UNK                                           # AUDIT: a call the engine has no transfer function for

    def check_call_against_summary(self, e, name, args, kw, summ=None):
        """AUDIT (C-slice-param): `req[p]` is the index space the callee's own table look-ups need for parameter p (from its
        summary); the value that reaches p is found by binding the call's positional and keyword arguments to the callee's parameter
        list (star-expanded calls never get here).  VIOLATED (1) the call passes an index typed in another space / along another
        dimension; (2) p is not passed (keeps its default - it has one, or the call would fail) while the call sits in a loop over
        that very dimension.  A passed value the engine cannot type gives no obligation"""
        summ = summ or self.summaries[name]            # {"params": [names], "req": {param: tag}}
        params = summ["params"]
        bound = {}
        for p, a in zip(params, args):
            bound[p] = a
        for k, v in kw.items():
            bound[k] = v
        for p, want in summ["req"].items():
            got = bound.get(p)
            if not (isinstance(want, tuple) and len(want) == 2 and want[0] in ("lidx", "gidx")):
                continue
            if got is None:
                if p not in params or len(args) > len(params):
                    continue                                 # not a parameter of this summary: nothing is claimed
                # default used: is a loop over that dimension active?
                active = [n for n, t in self.loopvars if isinstance(t, tuple) and t[0] in ("lidx", "gidx") and t[1] == want[1] and want[1] is not None]
                if active:
                    self.ob("C-slice-param", e, False,
                            f"`{name}` looks up per-{DIMNAMES.get(want[1], want[1])} tables with parameter `{p}` ({tname(want)}); the call is "
                            f"inside the loop over `{active[0]}` along {DIMNAMES.get(want[1], want[1])} and selects its slice with it, but "
                            f"`{p}` keeps its default: every {DIMNAMES.get(want[1], want[1])} uses the tables of local index 0",
                            construct=src(e)[:90] + f" [{p}]")
                else:
                    self.ob("C-slice-param", e, True, f"`{p}` of `{name}` left at its default outside any loop over that dimension",
                            construct=src(e)[:90] + f" [{p}]")
                continue
            if isinstance(got, tuple) and got[0] in ("lidx", "gidx"):
                ok = got == want or (got[1] == want[1] and not self.ctx.distributed(want[1]))
                if not ok and (got[1] is None or want[1] is None):
                    ok = None                                # a dimension is not established
                self.ob("C-slice-param", e, ok, f"`{p}` of `{name}` needs {tname(want)}; the call passes {tname(got)}",
                        construct=src(e)[:90] + f" [{p}]")
            elif isinstance(got, tuple) and got[0] == "param":
                self.param_req.setdefault(got[1], []).append((want, e, f"passed as `{p}` to `{name}`"))

    # ------------------------------------------------------------------ statements
    def run(self):
        self.block(self.fn.body)
        self.finish_params()
        return self

    def finish_params(self):
        """C-same-index: one parameter must not be required in two index spaces"""
        for p, reqs in self.sort_req.items():
            kinds = {k for k, _ in reqs}
            if kinds == {"axis", "dim"}:
                a = [n for k, n in reqs if k == "axis"][0]
                d = [n for k, n in reqs if k == "dim"][0]
                # AUDIT: both uses are subscripts of tables whose ORDERING is known (per-axis tables of a Layout / DimLists) by the
                # one parameter, which is never re-bound in the function (checked below): the two sorts coincide only for the identity
                rebound = self.param_rebound(p)
                self.ob("C-sort", d, None if rebound else False, f"parameter `{p}` is used as a layout axis in `{src(a)[:50]}` and as a dimension number in "
                        f"`{src(d)[:50]}`: the two only coincide for the identity ordering" +
                        (" - but the parameter is re-bound in the function: the two uses may see different values" if rebound else ""),
                        construct=f"{p}: {src(a)[:40]} / {src(d)[:40]}")
            else:
                n = reqs[0][1]
                self.ob("C-sort", n, True, f"parameter `{p}` is consistently a {'layout axis' if 'axis' in kinds else 'dimension number'}",
                        construct=f"{p}: {sorted(kinds)}")
        for p, reqs in list(self.param_req.items()):
            tags = {}
            for t, node, why in reqs:
                tags.setdefault(t, []).append((node, why))
            kinds = {t for t in tags}
            by_dim = {}
            for t in kinds:
                by_dim.setdefault(t[1], set()).add(t[0])
            for d, ks in by_dim.items():
                if ks == {"lidx", "gidx"} and self.ctx.distributed(d if d is not None else 0):
                    a = tags[("lidx", d)][0]
                    b = tags[("gidx", d)][0]
                    # AUDIT: the two subscripts use the SAME value (the parameter is not re-bound between them) on a Local(d) and on a
                    # Global(d) axis of a known d
                    und = self.param_rebound(p) or d is None
                    self.ob("C-same-index", a[0], None if und else False,
                            f"parameter `{p}` {a[1]} (a local index) and also {b[1]} (a global index): for a distributed "
                            f"{DIMNAMES.get(d, d)} one of the two tables is read at another process's rows" +
                            (" - not established (the parameter is re-bound / the dimension is unknown)" if und else ""),
                            construct=f"{p}: {src(a[0])[:40]} / {src(b[0])[:40]}")
                elif len(ks) == 1:
                    pass
            dims = {d for d in by_dim if d is not None}
            if len(dims) > 1:
                # AUDIT: one parameter required as an index along two DIFFERENT dimensions: no single requirement can be handed to the
                # callers (a summary that picked one of them would judge the call sites against an arbitrary choice)
                a = reqs[0]
                self.ob("C-same-index", a[1], None, f"parameter `{p}` subscripts axes of different dimensions "
                        f"({', '.join(sorted(str(DIMNAMES.get(d, d)) for d in dims))}): its index space is not established",
                        construct=f"{p}: {', '.join(sorted(str(DIMNAMES.get(d, d)) for d in dims))}")
                del self.param_req[p]

    def param_rebound(self, p):
        return any(isinstance(n, ast.Name) and n.id == p and isinstance(n.ctx, (ast.Store, ast.Del)) for n in ast.walk(self.fn))

    def block(self, stmts):
        for st in stmts:
            self.stmt(st)

    # ---- dry passes
    def _snapshot(self):
        return (dict(self.env), dict(self.attrs), {k: list(v) for k, v in self.param_req.items()}, {k: list(v) for k, v in self.sort_req.items()},
                dict(self.node_tags), list(self.loopvars), self.nobs, self.__dict__.get("ret", _NORET), self.chk,
                {k: (list(v) if isinstance(v, list) else v) for k, v in self.__dict__.items() if k in ("iter_windows",)})

    def _restore(self, snap):
        env, attrs, pr, sr, nt, lv, nobs, ret, chk, extra = snap
        self.env = env
        self.attrs.clear()
        self.attrs.update(attrs)
        self.param_req, self.sort_req, self.node_tags, self.loopvars, self.nobs, self.chk = pr, sr, nt, lv, nobs, chk
        if ret is _NORET:
            self.__dict__.pop("ret", None)
        else:
            self.ret = ret
        self.__dict__.update(extra)

    def loop_carried(self, st, bind):
        """AUDIT: the body of a loop is typed once, with the values its names have on ENTRY to an iteration.  A name / attribute the
        body re-binds with another tag has, at the top of the next iteration, the tag from the END of the body: a dry pass over the
        body finds those; they are joined before the body is typed for the record"""
        names, attrs = _stored_names(st.body)
        calls_self = any(isinstance(n, ast.Call) and isinstance(n.func, ast.Attribute) and isinstance(n.func.value, ast.Name) and n.func.value.id == "self"
                         for b_ in st.body for n in ast.walk(b_))
        if not ((names & set(self.env)) or (attrs & set(self.attrs)) or (calls_self and self.attrs)):
            return
        for _ in range(3):
            snap = self._snapshot()
            env0, attrs0 = dict(self.env), dict(self.attrs)
            self.chk = _MuteChk(snap[8])
            try:
                bind()
                self.block(st.body)
                env1, attrs1 = dict(self.env), dict(self.attrs)
            finally:
                self._restore(snap)
            changed = False
            for k, v in env0.items():
                if k in env1 and env1[k] != v:
                    j = v if v == [] and is_arr(env1[k]) and len(env1[k][1]) == 1 else join_vals(v, env1[k])
                    if j != v:
                        self.env[k] = j
                        changed = True
            for k, v in attrs0.items():
                if k in attrs1 and attrs1[k] != v:
                    j = v if v == [] and is_arr(attrs1[k]) and len(attrs1[k][1]) == 1 else join_vals(v, attrs1[k])
                    if j != v:
                        self.attrs[k] = j
                        changed = True
            if not changed:
                return

    def join_env(self, env1, env2, attrs1=None, attrs2=None):
        out = {}
        for k in set(env1) | set(env2):
            if k in env1 and k in env2:
                out[k] = join_vals(env1[k], env2[k])
            else:
                out[k] = env1[k] if k in env1 else env2[k]     # bound on one path only (a use elsewhere would be a NameError)
        self.env = out
        if attrs1 is not None:
            outa = {}
            for k in set(attrs1) | set(attrs2):
                if k in attrs1 and k in attrs2:
                    outa[k] = join_vals(attrs1[k], attrs2[k])
                else:
                    outa[k] = attrs1[k] if k in attrs1 else attrs2[k]
            self.attrs.clear()
            self.attrs.update(outa)

    @staticmethod
    def _leaves(stmts):
        """does the block always leave (return / raise / continue / break as its last statement)?"""
        return bool(stmts) and isinstance(stmts[-1], (ast.Return, ast.Raise, ast.Continue, ast.Break))

    def stmt(self, st):
        if isinstance(st, ast.Assign):
            v = self.ev(st.value)
            for t in st.targets:
                self.assign(t, v, st, st.value)
        elif isinstance(st, ast.AugAssign):
            v = self.ev(st.value)
            cur = self.ev(st.target)
            if is_arr(cur) and is_arr(v):
                self.broadcast([cur, v], st)                 # in place: the target keeps its windows
            elif is_arr(cur):
                pass
            elif isinstance(st.target, (ast.Name, ast.Attribute)):
                # AUDIT: `i += start` changes the index space of i: the new tag is that of `i + start`
                self.assign(st.target, self.binop(st.op, cur, v, st), st, None)
        elif isinstance(st, ast.AnnAssign):
            if st.value is not None:
                self.assign(st.target, self.ev(st.value), st, st.value)
        elif isinstance(st, ast.Expr):
            self.ev(st.value)
        elif isinstance(st, (ast.For, ast.AsyncFor)):
            it = self.ev(st.iter)
            tags = self.element_tags(it)

            def bind():
                return self.bind_loop(st.target, tags)
            self.loop_carried(st, bind)
            env0, attrs0 = dict(self.env), dict(self.attrs)
            names = bind()
            self.loopvars.extend(names)
            self.block(st.body)
            for _ in names:
                self.loopvars.pop()
            self.join_env(env0, self.env, attrs0, dict(self.attrs))      # zero iterations
            self.block(st.orelse)
        elif isinstance(st, ast.While):
            self.loop_carried(st, lambda: None)
            self.ev(st.test)
            env0, attrs0 = dict(self.env), dict(self.attrs)
            self.block(st.body)
            self.join_env(env0, self.env, attrs0, dict(self.attrs))
            self.block(st.orelse)
        elif isinstance(st, ast.If):
            self.ev(st.test)
            env0, attrs0 = dict(self.env), dict(self.attrs)
            self.block(st.body)
            env1, attrs1 = self.env, dict(self.attrs)
            self.env = dict(env0)
            self.attrs.clear()
            self.attrs.update(attrs0)
            self.block(st.orelse)
            env2, attrs2 = self.env, dict(self.attrs)
            l1, l2 = self._leaves(st.body), self._leaves(st.orelse)
            if l1 and not l2:
                pass                                         # only the else path goes on
            elif l2 and not l1:
                self.env = env1
                self.attrs.clear()
                self.attrs.update(attrs1)
            else:
                self.join_env(env1, env2, attrs1, attrs2)
        elif isinstance(st, (ast.With, ast.AsyncWith)):
            for it in st.items:
                self.ev(it.context_expr)
                if it.optional_vars is not None:
                    self.assign(it.optional_vars, UNK, st, None)
            self.block(st.body)
        elif isinstance(st, ast.Return):
            v = self.ev(st.value) if st.value is not None else ("none",)
            if "ret" in self.__dict__ and self.ret != v:
                # AUDIT: several return statements: the value of the call is the join of theirs
                v = join_vals(self.ret, v)
            self.ret = v
        elif isinstance(st, ast.Assert):
            self.ev(st.test)
        elif isinstance(st, ast.Try) or type(st).__name__ == "TryStar":
            env0, attrs0 = dict(self.env), dict(self.attrs)
            self.block(st.body)
            names, attrs = _stored_names(st.body)
            envb, attrsb = dict(self.env), dict(self.attrs)
            self.block(st.orelse)
            ends = [(dict(self.env), dict(self.attrs))]
            for h in st.handlers:
                # a handler starts anywhere in the body: what the body binds has its old or its new value
                self.env = dict(envb)
                self.attrs.clear()
                self.attrs.update(attrsb)
                for n in names:
                    if env0.get(n, _NORET) != envb.get(n, _NORET) and n in self.env:
                        self.env[n] = UNK
                for a in attrs:
                    if attrs0.get(a, _NORET) != attrsb.get(a, _NORET) and a in self.attrs:
                        self.attrs[a] = UNK
                if h.type is not None:
                    self.ev(h.type)
                if h.name:
                    self.env[h.name] = UNK
                self.block(h.body)
                if not self._leaves(h.body):
                    ends.append((dict(self.env), dict(self.attrs)))
            env, attrs_ = ends[0]
            self.env = env
            self.attrs.clear()
            self.attrs.update(attrs_)
            for env_h, attrs_h in ends[1:]:
                self.join_env(dict(self.env), env_h, dict(self.attrs), attrs_h)
            self.block(st.finalbody)
        elif isinstance(st, (ast.Pass, ast.Break, ast.Continue, ast.Global, ast.Nonlocal)):
            pass
        elif isinstance(st, ast.Raise):
            if st.exc is not None:
                self.ev(st.exc)
        elif isinstance(st, ast.Delete):
            names, attrs = _stored_names([st])
            self.forget(names, attrs)
        else:
            # AUDIT: a statement form the engine does not interpret (nested def / class, import, match, ...): every name it may bind
            # is forgotten; nothing inside it is typed
            names, attrs = _stored_names([st])
            for n in names:
                self.env[n] = UNK
            self.forget(attrs=attrs)

    def bind_loop(self, target, tags):
        names = []
        if isinstance(target, ast.Name):
            t = tags if isinstance(tags, tuple) else UNK
            self.env[target.id] = t
            names.append((target.id, t))
        elif isinstance(target, (ast.Tuple, ast.List)):
            if any(isinstance(x, ast.Starred) for x in target.elts):
                lst = [UNK] * len(target.elts)
            elif isinstance(tags, list) and len(tags) == len(target.elts):
                lst = tags
            elif is_arr(tags) and len(tags[1]) == 1:
                lst = [tags[2] if tags[2] is not None else OTHER] * len(target.elts)
            else:
                lst = [UNK] * len(target.elts)
            for e, t in zip(target.elts, lst):
                names.extend(self.bind_loop(e.value if isinstance(e, ast.Starred) else e, UNK if isinstance(e, ast.Starred) else t))
        else:
            self.assign(target, tags if isinstance(tags, tuple) else UNK, target, None)
        return names

    def assign(self, t, v, st, value_node=None):
        if isinstance(t, ast.Name):
            self.env[t.id] = v
        elif isinstance(t, (ast.Tuple, ast.List)):
            if isinstance(v, list) and len(v) == len(t.elts) and not any(isinstance(x, ast.Starred) for x in t.elts):
                velts = value_node.elts if isinstance(value_node, (ast.Tuple, ast.List)) and len(value_node.elts) == len(t.elts) else [None] * len(t.elts)
                for e, x, n_ in zip(t.elts, v, velts):
                    self.assign(e, x, st, n_)
            elif is_arr(v) and len(v[1]) == 1 and not any(isinstance(x, ast.Starred) for x in t.elts):
                for e in t.elts:
                    self.assign(e, v[2] if v[2] is not None else OTHER, st, None)
            else:
                # AUDIT: unpacking a value that is not a display of known length: the parts are not modelled
                for e in t.elts:
                    self.assign(e.value if isinstance(e, ast.Starred) else e, UNK, st, None)
        elif isinstance(t, ast.Starred):
            self.assign(t.value, UNK, st, None)
        elif isinstance(t, ast.Attribute) and isinstance(t.value, ast.Name) and t.value.id == "self":
            self.attrs[t.attr] = v
        elif isinstance(t, ast.Attribute):
            self.ev(t.value)
        elif isinstance(t, ast.Subscript):
            base = self.node_tags.get(id(t.value))
            tv = self.ev(t)      # performs the index checks on the target
            base = self.node_tags.get(id(t.value), base)
            if is_arr(tv) and is_arr(v):
                self.broadcast([tv, v], st)
            # stores through a [:] into an attribute created by np.ndarray keep the attribute's windows
            if isinstance(base, list):
                # an element store into a python list the engine has a tag for: the element (any element, for an index that is not a
                # literal) now has the stored tag
                idx = self.node_tags.get(id(t.slice))
                new = None
                if isinstance(idx, tuple) and idx[0] == "lit" and -len(base) <= idx[1] < len(base) and not isinstance(v, list):
                    new = type(base)(base) if isinstance(base, DimList) else list(base)
                    new[idx[1]] = v
                elif not isinstance(v, list) and not isinstance(t.slice, ast.Slice):
                    j = [x if x == v else (UNK if isinstance(x, list) else join_tags(x, v)) for x in base]
                    new = DimList(j) if isinstance(base, DimList) else j
                else:
                    new = UNK
                if isinstance(t.value, ast.Name):
                    self.env[t.value.id] = new
                elif isinstance(t.value, ast.Attribute) and isinstance(t.value.value, ast.Name) and t.value.value.id == "self":
                    self.attrs[t.value.attr] = new


_NORET = object()


def retag(t, d):
    """the tag of DimList element 0 re-labelled for dimension d"""
    if is_arr(t):
        return arr(tuple((w[0], d) if w and w[0] in ("G", "L") else w for w in t[1]),
                   (t[2][0], d) if t[2] is not None else None)
    if isinstance(t, tuple) and t[0] == "size" and t[1]:
        return ("size", (t[1][0], d))
    return OTHER


# names of standard layouts -> dims_order (filled from the literal dictionaries of setups.py / fullSimulation.py)
LAYOUT_ORDERS: dict[str, tuple] = {}
LAYOUT_NDIST: dict[str, int] = {}


def load_layout_tables(chk):
    """read the literal layout dictionaries of setups.py and fullSimulation.py"""
    LAYOUT_ORDERS.clear()
    LAYOUT_NDIST.clear()
    smod = chk.mod(U.SETUPS)
    dmod = chk.mod(U.DRIVER)
    found = 0
    for mod, fnames in ((smod, ("setupCylindricalGrid", "setupFromFile")), (dmod, ("main",))):
        for q in fnames:
            fn = mod.func(q)
            for n in ast.walk(fn):
                if isinstance(n, ast.Assign) and isinstance(n.value, ast.Dict) and isinstance(n.targets[0], ast.Name) \
                        and n.targets[0].id.startswith("layout"):
                    for k, v in zip(n.value.keys, n.value.values):
                        if isinstance(k, ast.Constant) and isinstance(v, (ast.List, ast.Tuple)):
                            # AUDIT: an ordering is a fact only when every entry is an integer literal (an entry that is an
                            # expression is not dropped: the layout is then not recorded and its uses stay untyped)
                            if not all(isinstance(x, ast.Constant) and isinstance(x.value, int) and not isinstance(x.value, bool) for x in v.elts):
                                continue
                            o = tuple(x.value for x in v.elts)
                            key = (k.value, len(o))
                            if key in LAYOUT_ORDERS and LAYOUT_ORDERS[key] != o:
                                raise AnalysisError(f"layout `{k.value}` has two different orderings in the set-up code")
                            LAYOUT_ORDERS[key] = o
                            if k.value not in LAYOUT_ORDERS or len(o) == 4:
                                LAYOUT_ORDERS[k.value] = o
                            found += 1
    # number of distributed axes per layout group (driver: [nprocs, nprocs[0], nprocs[1]])
    for nm in ("flux_surface", "v_parallel", "poloidal", "v_parallel_2d", "mode_solve"):
        LAYOUT_NDIST[nm] = 2
    LAYOUT_NDIST["v_parallel_1d"] = 1
    # the 3-D 'poloidal' layout of phi is in a one-direction group, the 4-D one in the 2-D handler: same name,
    # resolved by the number of dimensions where it matters
    if found < 9:
        raise AnalysisError(f"only {found} literal layout entries found in setups.py/fullSimulation.py (9 confirmed by reading)")
    return LAYOUT_ORDERS


def dist_dims(order, ndist):
    return set(order[:ndist]) if order is not None and ndist is not None else None


def ambient_from_asserts(fn: ast.FunctionDef):
    """{grid param name: dims_order tuple} from `assert X.getLayout(X.currentLayout).dims_order == (...)`
    (directly or through a local), and relations `a.dims_order[1:] == b.dims_order`."""
    out = {}
    loc = {}
    stores = {}
    for n in ast.walk(fn):
        if isinstance(n, ast.Name) and isinstance(n.ctx, (ast.Store, ast.Del)):
            stores[n.id] = stores.get(n.id, 0) + 1
    for n in fn.body:
        if isinstance(n, ast.Assign) and len(n.targets) == 1 and isinstance(n.targets[0], ast.Name) and isinstance(n.value, ast.Call) \
                and isinstance(n.value.func, ast.Attribute) and n.value.func.attr == "getLayout" \
                and isinstance(n.value.func.value, ast.Name) and len(n.value.args) == 1 and not n.value.keywords:
            a = n.value.args[0]
            g = n.value.func.value.id
            # the local stands for the current layout only when it is bound once
            if src(a).endswith(".currentLayout") and stores.get(n.targets[0].id) == 1:
                loc[n.targets[0].id] = (g, src(a).split(".")[0])
    rel = []
    # AUDIT: an assertion states the layout of the whole function only when it is executed unconditionally: statements of the
    # function's own block (asserts inside branches / loops / handlers hold on their path only and are not used)
    for n in fn.body:
        if isinstance(n, ast.Assert) and isinstance(n.test, ast.Compare) and len(n.test.ops) == 1 \
                and isinstance(n.test.ops[0], ast.Eq):
            lft, rgt = n.test.left, n.test.comparators[0]

            def grid_of(e):
                # X.getLayout(X.currentLayout).dims_order  |  local.dims_order
                if isinstance(e, ast.Attribute) and e.attr == "dims_order":
                    b = e.value
                    if isinstance(b, ast.Name) and b.id in loc:
                        g, cur = loc[b.id]
                        return g, cur
                    if isinstance(b, ast.Call) and isinstance(b.func, ast.Attribute) and b.func.attr == "getLayout" \
                            and isinstance(b.func.value, ast.Name) and len(b.args) == 1 and not b.keywords:
                        a = b.args[0]
                        if not src(a).endswith(".currentLayout"):
                            return None                      # the ordering of a layout named otherwise, not of the current one
                        return b.func.value.id, src(a).split(".")[0]
                return None
            gl = grid_of(lft)
            if gl and isinstance(rgt, (ast.Tuple, ast.List)) and all(isinstance(x, ast.Constant) and isinstance(x.value, int) for x in rgt.elts):
                if gl[0] == gl[1]:
                    out[gl[0]] = tuple(x.value for x in rgt.elts)
            elif isinstance(lft, ast.Subscript) and isinstance(lft.slice, ast.Slice):
                gl = grid_of(lft.value)
                gr = grid_of(rgt)
                if gl and gr and src(lft.slice) == "1:":
                    rel.append((gl[0], gr[0]))
            elif isinstance(lft, ast.Subscript) and isinstance(rgt, ast.Constant):
                gl = grid_of(lft.value)
                if gl and isinstance(lft.slice, ast.UnaryOp):
                    out.setdefault(gl[0] + "[-1]", rgt.value)
    for a, b in rel:
        if a in out and b not in out:
            out[b] = out[a][1:]
    # AUDIT: the asserted ordering is that of the grid's layout for the whole function only when the function does not change the
    # layout of that grid itself (X.setLayout(...)) and does not re-bind the name
    for n in ast.walk(fn):
        if isinstance(n, ast.Call) and isinstance(n.func, ast.Attribute) and n.func.attr == "setLayout" and isinstance(n.func.value, ast.Name):
            out.pop(n.func.value.id, None)
            out.pop(n.func.value.id + "[-1]", None)
    for g in [k for k in out if stores.get(k.split("[")[0], 0) > 0]:
        out.pop(g)
    return out


# --------------------------------------------------------------------------
# class-level drivers
# --------------------------------------------------------------------------

class DimList(list):
    """a python list ordered by physical dimension (eta_grid, _Vals, _splines, npts, ...)"""

    def __getitem__(self, k):
        r = list.__getitem__(self, k)
        return DimList(r) if isinstance(k, slice) else r


def eta_grid_tag():
    return DimList([arr((G(d),), ("coord", d)) for d in range(4)])


def layout_param(order=None, ndist=None):
    return ("layout", order, ndist)


def grid_param(order, ndist=2):
    return ("grid", order, ndist)


def analyse_method(chk, rel, cls, mname, env, ctx, attrs, summaries=None):
    mod = chk.mod(rel)
    q = f"{cls}.{mname}" if cls else mname
    fn = mod.func(q)
    chk.functions.add(f"{rel}:{q}")
    a = IS(chk, rel, q, fn, env, ctx, attrs, summaries)
    a.run()
    return a


def summary_of(chk, rel, cls, mname, attrs, ctx, env_extra=None):
    """required index tags of the parameters of a per-slice method (from its own table look-ups)"""
    mod = chk.mod(rel)
    fn = mod.func(f"{cls}.{mname}")
    env = {a.arg: ("param", a.arg) for a in fn.args.args if a.arg != "self"}
    env.update(env_extra or {})
    a = IS(chk, rel, f"{cls}.{mname}", fn, env, ctx, attrs)
    a.run()
    req = {}
    for p, reqs in a.param_req.items():
        ts = {t for t, _, _ in reqs}
        if len(ts) == 1:
            req[p] = next(iter(ts))
        elif ts:
            # conflicting requirements were reported by finish_params; keep the local one for the callers
            req[p] = sorted(ts)[0]
    params = [x.arg for x in fn.args.args if x.arg != "self"]
    return {"params": params, "req": req}, a


def class_methods(chk, rel, cls):
    return chk.mod(rel).methods(cls)


def ctor_attrs(chk, rel, cls, env, ctx=None):
    """attribute tags established by cls.__init__ (same-class helper methods are inlined)"""
    attrs = {}
    fn = chk.mod(rel).func(f"{cls}.__init__")
    chk.functions.add(f"{rel}:{cls}.__init__")
    a = IS(chk, rel, f"{cls}.__init__", fn, env, ctx or Ctx(dist_dims=None), attrs)
    a.methods = class_methods(chk, rel, cls)
    a.run()
    return attrs, a


def run_method(chk, rel, cls, mname, env, ctx, attrs, summaries=None):
    fn = chk.mod(rel).func(f"{cls}.{mname}" if cls else mname)
    q = f"{cls}.{mname}" if cls else mname
    chk.functions.add(f"{rel}:{q}")
    a = IS(chk, rel, q, fn, env, ctx, attrs, summaries or {})
    if cls:
        a.methods = {k: v for k, v in class_methods(chk, rel, cls).items() if k not in (summaries or {})}
    a.run()
    return a
