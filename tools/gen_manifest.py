#!/venv/bin/python
"""Regenerates /verif/MANIFEST.json from the table below (claimed = a props/Cxx.py module exists
and is listed in CLAIMS)."""
import json
import os
import sys

ROOT = os.path.dirname(os.path.dirname(os.path.abspath(__file__)))

TRUST = ("Trusted base: CPython ast parser, the pgverif resolver/engines (their unresolved sets and instance "
         "floors are printed in the evidence), library contracts of numpy/mpi4py/h5py/scipy listed in DESIGN.md "
         "section 3; sympy (from the repository's own environment) as the polynomial normaliser where used. "
         "Caller preconditions taken from the property texts (distinct non-overlapping buffers, 1<=p<=n, "
         "rank-uniform documented arguments).")

CLAIMS = {
    "C06": dict(
        text="Static SPMD collective matching: every collective call site (35 today) and every call chain to it is "
             "shown to be control dependent only on rank-uniform conditions, or to lie in a region whose alternatives "
             "issue identical collective sequences (op, communicator, root, reduction op); loop trip conditions and "
             "roots are uniform; parameters influencing such guards are uniform at all call sites (interprocedural); "
             "the hash-ordered choice in the route search is compensated by a total-order tie-break. This decides the "
             "statically visible necessary conditions of 'same sequence on all ranks for all schedules'; MPI runtime "
             "behaviour and the plotter GUI protocol are not covered.",
        technique="rank-variation label dataflow + balanced-arm trace comparison over the AST (custom SPMD lint)",
        design="5/C06, 4.1"),
}

NOT_YET = "no sound static rule built for this property yet in this framework (fail-closed: not claimed)"

NA = {}


def main():
    props = [json.loads(l) for l in open(os.path.join(ROOT, "properties.jsonl"))]
    checks = []
    na = []
    for p in props:
        pid = p["id"]
        if pid in CLAIMS and os.path.exists(os.path.join(ROOT, "pgverif", "props", f"{pid}.py")):
            c = CLAIMS[pid]
            checks.append({
                "property_id": pid,
                "quick_cmd": f"/venv/bin/python -m pgverif check {pid} --tier quick",
                "thorough_cmd": f"/venv/bin/python -m pgverif check {pid} --tier thorough",
                "evidence_file": f"/verif/evidence/{pid}.json",
                "replay_cmd_template": f"/venv/bin/python -m pgverif check {pid} --tier quick  # replay file {{path}} names the obligation",
                "engine": "pgverif",
                "level_claimed": {"category": "other", "text": c["text"], "design_ref": c["design"]},
                "level_note": TRUST + " " + c.get("note", ""),
                "technique": c["technique"],
            })
        else:
            na.append({"property_id": pid, "reason": NA.get(pid, NOT_YET)})
    man = {
        "version": 1,
        "setup_cmd": "/venv/bin/python -m pgverif selfcheck",
        "hooks": {"guard": "PYGYRO_VERIF", "enable": "no hooks are needed: the checks only read /repo's sources",
                  "baseline_off_cmd": "cd /repo && /venv/bin/python -m pytest -ra -q -p no:cacheprovider --timeout=900 --continue-on-collection-errors",
                  "source_commits": [], "add_only": True},
        "engines": [{"name": "pgverif", "path": "/verif/pgverif", "serves_properties": [c["property_id"] for c in checks],
                     "kind_free_text": "repository-specific static analysers over Python ast (stdlib), sympy as normaliser"}],
        "checks": checks,
        "notes": "All checks are static: nothing in /repo is imported or executed. Exit 0 = all obligations hold "
                 "(known findings printed), 1 = unlisted violation, 2 = ANALYSIS-ERROR (never a silent pass).",
        "not_applicable": na,
    }
    json.dump(man, open(os.path.join(ROOT, "MANIFEST.json"), "w"), indent=1)
    print(f"MANIFEST: {len(checks)} claimed, {len(na)} not claimed")


if __name__ == "__main__":
    main()
