"""C17 - diagnostics and global reductions equal serial quadrature of the global field."""
from __future__ import annotations

import ast

import sympy as sp

from ..core import src, parent, guards_of
from .. import units as U
from .. import ispace as I
from ..ispace import IS, Ctx, eta_grid_tag, layout_param, L
from ..npsym import NpSym
from ..symx import Undecided

CLASSES = [(U.NORMS, "l2", "l2NormSquared"), (U.NORMS, "l1", "l1Norm"), (U.NORMS, "nParticles", "getN"),
           (U.ENERGY, "KineticEnergy", "getKE")]


# ---------------------------------------------------------------------------------------------------------------------
# Engine W: the constructor of a diagnostic class as a separable weight tensor (abstract interpretation)
#
# values: scalars (sympy), 1-D vectors tied to a dimension d in the global frame (position k = global index) or in the local
# frame (position k = global index start_d + k), given region-wise (one formula for all positions, or first / interior /
# last), windows [start_d:end_d) of global vectors, (r, v) outer products, shape lists and tensors {axis -> vector}.
# The coordinates are uninterpreted functions x_d(k) (theta and z uniform: x_d(k) = a_d + k h_d); the axes carrying r and
# v stay symbolic, only their order is fixed per configuration.  Helper functions of the module(s) are interpreted with the
# abstract arguments.  No repository code is run: every step is a symbolic rewriting of the expression tree.
# ---------------------------------------------------------------------------------------------------------------------
class WUndecided(Exception):
    pass


class WViolation(Exception):
    def __init__(self, msg, rule="C-axis-placement"):
        super().__init__(msg)
        self.rule = rule


_K = sp.Symbol("k", integer=True)
_XF = {d: sp.Function(f"x{d}") for d in range(4)}
_N = {d: sp.Symbol(f"N{d}", integer=True, positive=True) for d in range(4)}
_NL = {d: sp.Symbol(f"n{d}", integer=True, positive=True) for d in range(4)}
_S = {d: sp.Symbol(f"s{d}", integer=True, nonnegative=True) for d in range(4)}
_A = {d: sp.Symbol(f"a{d}", real=True) for d in (1, 2)}
_H = {d: sp.Symbol(f"h{d}", positive=True) for d in (1, 2)}
_DN = {0: "r", 1: "theta", 2: "z", 3: "v"}


def _coord(d, k):
    return _A[d] + k * _H[d] if d in (1, 2) else _XF[d](k)


def _same(a, b):
    try:
        return sp.simplify(sp.expand(a - b)) == 0
    except Exception:
        return False


class WVec:
    """shape: ('u', f) | ('e', first, fmid, last) | ('w', WVec in the global frame)"""

    def __init__(self, d, frame, n, shape):
        self.d, self.frame, self.n, self.shape = d, frame, n, shape

    def regions(self):
        k = self.shape[0]
        if k == "u":
            f = self.shape[1]
            return f(sp.Integer(0)), f, f(self.n - 1)
        if k == "e":
            return self.shape[1], self.shape[2], self.shape[3]
        raise WUndecided("regions of a window")

    def localised(self):
        """a window of a one-formula global vector as a vector of the local frame"""
        if self.shape[0] != "w":
            return self
        g = self.shape[1]
        if g.shape[0] != "u":
            raise WUndecided("a window of a region-wise vector is combined with a vector built from local points")
        f, s = g.shape[1], _S[self.d]
        return WVec(self.d, "L", self.n, ("u", lambda k, f=f, s=s: f(s + k)))


class WAxis:
    def __init__(self, d):
        self.d = d


class WPlaced:
    def __init__(self, vec, pos):
        self.vec, self.pos = vec, pos


class WOuter:
    def __init__(self, rows, cols):
        self.rows, self.cols = rows, cols


class WShape:
    def __init__(self, ndims, entries=None):
        self.ndims, self.entries = ndims, dict(entries or {})


class WEmpty:
    def __init__(self, shape):
        self.shape = shape
        self.filled = None


class WTensor:
    def __init__(self, ndims, factors, scalar=sp.Integer(1)):
        self.ndims, self.factors, self.scalar = ndims, dict(factors), scalar


class WFresh:
    """np.empty(n) / np.zeros(n) being filled by slice stores"""

    def __init__(self, n, zero):
        self.n, self.zero = n, zero
        self.first = self.last = sp.Integer(0) if zero else None
        self.mid = (lambda k: sp.Integer(0)) if zero else None
        self.d = self.frame = None

    def vec(self):
        if self.first is None or self.mid is None or self.last is None:
            raise WUndecided("an array created empty is used before all of its parts are assigned")
        return WVec(self.d, self.frame or "G", self.n, ("e", self.first, self.mid, self.last))


class WIdx:
    """loop index running over all positions of a vector (for i, x in enumerate(vec) / for i in range(len(vec)))"""

    def __init__(self, n, vec=None):
        self.n, self.vec = n, vec


class WElems:
    """scalar inside element loops: scalar * product of vec[i] over (index, vector) pairs"""

    def __init__(self, pairs, scalar=sp.Integer(1)):
        self.pairs, self.scalar = list(pairs), scalar


class WPos:
    """index list of an N-D array built in element loops: entries {axis: WIdx}, 0 elsewhere"""

    def __init__(self, ndims, entries=None):
        self.ndims, self.entries = ndims, dict(entries or {})


class WSlice:
    """slice(lo, hi) kept in a name"""

    def __init__(self, lo, hi):
        self.lo, self.hi = lo, hi


class WFn:
    def __init__(self, name, node=None, env=None):
        self.name, self.node, self.env = name, node, env


class WObj:
    def __init__(self, kind):
        self.kind = kind


class WRet(Exception):
    def __init__(self, v):
        self.v = v


def _vop(op, a, b):
    """element-wise binary operation on scalars / vectors / placed vectors / tensors"""
    def sc(x, y):
        if isinstance(op, ast.Add):
            return x + y
        if isinstance(op, ast.Sub):
            return x - y
        if isinstance(op, ast.Mult):
            return x * y
        if isinstance(op, ast.Div):
            return x / y
        if isinstance(op, ast.Pow):
            return x ** y
        raise WUndecided("operator")
    if isinstance(a, WFresh):
        a = a.vec()
    if isinstance(b, WFresh):
        b = b.vec()
    if isinstance(a, sp.Basic) and isinstance(b, sp.Basic):
        return sc(a, b)
    if isinstance(a, WElems) or isinstance(b, WElems):
        if isinstance(op, ast.Mult) and all(isinstance(x, (WElems, sp.Basic)) for x in (a, b)):
            pa = a.pairs if isinstance(a, WElems) else []
            pb = b.pairs if isinstance(b, WElems) else []
            if any(i1 is i2 for i1, _ in pa for i2, _ in pb):
                # two elements taken at the same loop index: the element of the product vector
                merged = []
                for i1, v1 in pa:
                    m_ = [v2 for i2, v2 in pb if i2 is i1]
                    merged.append((i1, _vop(op, v1, m_[0]) if m_ else v1))
                merged += [(i2, v2) for i2, v2 in pb if not any(i2 is i1 for i1, _ in pa)]
                pairs = merged
            else:
                pairs = pa + pb
            return WElems(pairs, (a.scalar if isinstance(a, WElems) else a) * (b.scalar if isinstance(b, WElems) else b))
        if isinstance(op, ast.Div) and isinstance(a, WElems) and isinstance(b, sp.Basic):
            return WElems(a.pairs, a.scalar / b)
        if isinstance(op, ast.Pow) and isinstance(a, WElems) and isinstance(b, sp.Basic) and len(a.pairs) == 1:
            i1, v1 = a.pairs[0]
            return WElems([(i1, _vop(op, v1, b))], a.scalar ** b)
        raise WUndecided("arithmetic on array elements inside element loops other than products")
    if isinstance(a, WTensor) or isinstance(b, WTensor):
        if not isinstance(op, ast.Mult):
            raise WUndecided("tensors are only multiplied")
        if isinstance(a, sp.Basic) or isinstance(b, sp.Basic):
            t, c = (a, b) if isinstance(a, WTensor) else (b, a)
            return WTensor(t.ndims, t.factors, t.scalar * c)
        if not (isinstance(a, WTensor) and isinstance(b, WTensor)) or a.ndims != b.ndims:
            raise WUndecided("product of a tensor with something else")
        fac = dict(a.factors)
        for k, v in b.factors.items():
            fac[k] = _vop(op, fac[k], v) if k in fac else v
        return WTensor(a.ndims, fac, a.scalar * b.scalar)
    if isinstance(a, WPlaced) or isinstance(b, WPlaced):
        if isinstance(a, sp.Basic) or isinstance(b, sp.Basic):
            p_, c = (a, b) if isinstance(a, WPlaced) else (b, a)
            return WPlaced(_vop(op, p_.vec, c) if p_ is a else _vop(op, c, p_.vec), p_.pos)
        if not (isinstance(a, WPlaced) and isinstance(b, WPlaced)):
            raise WUndecided("broadcast of a placed vector with an unplaced one")
        if a.pos == b.pos:
            return WPlaced(_vop(op, a.vec, b.vec), a.pos)
        if not isinstance(op, ast.Mult):
            raise WUndecided("outer combination other than a product")
        return WOuter(a.vec, b.vec) if a.pos == 0 else WOuter(b.vec, a.vec)
    if isinstance(a, WOuter) or isinstance(b, WOuter):
        raise WUndecided("arithmetic on an outer product")
    if isinstance(a, WVec) and isinstance(b, WVec):
        if a.frame != b.frame or (a.d is not None and b.d is not None and a.d != b.d):
            raise WUndecided(f"vectors of different dimensions/frames combined ({_DN.get(a.d)} {a.frame}, {_DN.get(b.d)} {b.frame})")
        if not _same(a.n, b.n):
            raise WUndecided(f"vectors of lengths {a.n} and {b.n} combined")
        d = a.d if a.d is not None else b.d
        if a.shape[0] == "w" and b.shape[0] == "w":
            return WVec(d, "L", a.n, ("w", _vop(op, a.shape[1], b.shape[1])))
        a, b = a.localised(), b.localised()
        if a.shape[0] == "u" and b.shape[0] == "u":
            fa, fb = a.shape[1], b.shape[1]
            return WVec(d, a.frame, a.n, ("u", lambda k: sc(fa(k), fb(k))))
        (a0, am, a1), (b0, bm, b1) = a.regions(), b.regions()
        return WVec(d, a.frame, a.n, ("e", sc(a0, b0), (lambda k: sc(am(k), bm(k))), sc(a1, b1)))
    v, c, left = (a, b, True) if isinstance(a, WVec) else (b, a, False)
    if not (isinstance(v, WVec) and isinstance(c, sp.Basic)):
        raise WUndecided(f"operands {type(a).__name__}, {type(b).__name__}")

    def ap(x):
        return sc(x, c) if left else sc(c, x)
    if v.shape[0] == "w":
        return WVec(v.d, "L", v.n, ("w", _vop(op, v.shape[1], c) if left else _vop(op, c, v.shape[1])))
    if v.shape[0] == "u":
        f = v.shape[1]
        return WVec(v.d, v.frame, v.n, ("u", lambda k: ap(f(k))))
    return WVec(v.d, v.frame, v.n, ("e", ap(v.shape[1]), (lambda k, f=v.shape[2]: ap(f(k))), ap(v.shape[3])))


def _vmap(fn, v):
    one = sp.Integer(1)
    if isinstance(v, sp.Basic):
        return fn(v)
    if isinstance(v, WFresh):
        v = v.vec()
    if isinstance(v, WVec):
        if v.shape[0] == "w":
            return WVec(v.d, "L", v.n, ("w", _vmap(fn, v.shape[1])))
        if v.shape[0] == "u":
            f = v.shape[1]
            return WVec(v.d, v.frame, v.n, ("u", lambda k: fn(f(k))))
        return WVec(v.d, v.frame, v.n, ("e", fn(v.shape[1]), (lambda k, f=v.shape[2]: fn(f(k))), fn(v.shape[3])))
    raise WUndecided("function applied to " + type(v).__name__)


class WInterp:
    def __init__(self, funcs, config, depth=0):
        self.funcs, self.config, self.depth = funcs, config, depth
        self.attrs = {}
        self.flaws = []             # (marker function, diagnosis, rule) of the wrong constructs met so far

    def flawed(self, d, n, msg, rule):
        """a recognised wrong construct yields a vector of the local frame whose entries are an uninterpreted marker: the
        diagnosis is reported only if the marker reaches the weights the class keeps (a value that is computed and never used, or
        used for something else, says nothing about the diagnostic)"""
        F = sp.Function(f"flaw{len(self.flaws)}")
        self.flaws.append((F, msg, rule))
        return WVec(d, "L", n, ("u", lambda k, F=F: F(k)))

    # ---------------------------------------------------------------- expressions
    def const_int(self, v):
        return int(v) if isinstance(v, sp.Basic) and v.is_Integer else None

    def ev(self, e, env):
        if isinstance(e, ast.Constant):
            if e.value is None:
                return None
            if isinstance(e.value, bool):
                return e.value
            if isinstance(e.value, int):
                return sp.Integer(e.value)
            if isinstance(e.value, float):
                return sp.nsimplify(e.value, rational=True)
            raise WUndecided(f"constant {e.value!r}")
        if isinstance(e, ast.Name):
            if e.id in env:
                return env[e.id]
            if e.id in self.funcs:
                return WFn(e.id, self.funcs[e.id])
            raise WUndecided(f"unknown name `{e.id}`")
        if isinstance(e, ast.Lambda):
            return WFn("<lambda>", e, dict(env))
        if isinstance(e, ast.Attribute):
            s_ = src(e)
            if s_ in ("np.square", "numpy.square"):
                return WFn("square")
            if s_ in ("np.pi", "math.pi"):
                return sp.pi
            base = self.ev(e.value, env)
            if isinstance(base, WObj) and base.kind == "self":
                if e.attr in self.attrs:
                    return self.attrs[e.attr]
                raise WUndecided(f"attribute `{s_}` read before it is assigned")
            if isinstance(base, WObj) and base.kind == "layout":
                if e.attr == "ndims":
                    return sp.Integer(self.config["ndims"])
                if e.attr in ("inv_dims_order", "starts", "ends", "shape", "name"):
                    return WObj("layout." + e.attr)
                raise WUndecided(f"layout attribute `{e.attr}`")
            if isinstance(base, WFresh) and e.attr in ("size",):
                return base.n
            if isinstance(base, WFresh):
                base = base.vec()
            if isinstance(base, WVec):
                if e.attr == "size":
                    return base.n
                if e.attr == "shape":
                    return (base.n,)
                if e.attr == "flat":
                    return base
            if isinstance(base, WOuter) and e.attr == "flat":
                return base
            if isinstance(base, WOuter) and e.attr == "T":
                return WOuter(base.cols, base.rows)
            if isinstance(base, WEmpty) and e.attr == "flat":
                return base
            raise WUndecided(f"attribute `{s_[:40]}`")
        if isinstance(e, ast.BinOp):
            a, b = self.ev(e.left, env), self.ev(e.right, env)
            if isinstance(a, list) and isinstance(e.op, ast.Mult) and self.const_int(b) is not None and len(a) == 1 and a[0] == 1:
                return WShape(self.const_int(b))
            if isinstance(b, list) and isinstance(e.op, ast.Mult) and self.const_int(a) is not None and len(b) == 1 and b[0] == 1:
                return WShape(self.const_int(a))
            for x_, y_ in ((a, b), (b, a)):
                if isinstance(x_, list) and len(x_) == 1 and isinstance(x_[0], sp.Basic) and x_[0] == 0 and isinstance(e.op, ast.Mult) \
                        and self.const_int(y_) is not None:
                    return WPos(self.const_int(y_))
            if a is None or b is None or isinstance(a, (bool, list, tuple)) or isinstance(b, (bool, list, tuple)):
                raise WUndecided(f"operands of `{src(e)[:40]}`")
            return _vop(e.op, a, b)
        if isinstance(e, ast.UnaryOp):
            v = self.ev(e.operand, env)
            if isinstance(e.op, ast.USub):
                return _vop(ast.Mult(), sp.Integer(-1), v)
            if isinstance(e.op, ast.UAdd):
                return v
            if isinstance(e.op, ast.Not):
                t = self.truth(v)
                return not t
            raise WUndecided("unary operator")
        if isinstance(e, (ast.List, ast.Tuple)):
            if any(isinstance(x, ast.Starred) for x in e.elts):
                return self.concat(e, env)
            vals = [self.ev(x, env) for x in e.elts]
            if isinstance(e, ast.Tuple):
                return tuple(vals)
            if vals and all(isinstance(v, sp.Basic) and v == 1 for v in vals):
                return WShape(len(vals)) if len(vals) > 1 else [1]
            if len(vals) > 1 and all(isinstance(v, sp.Basic) and v == 0 for v in vals):
                return WPos(len(vals))
            return vals
        if isinstance(e, ast.Compare) and len(e.ops) == 1:
            return self.compare(e, env)
        if isinstance(e, ast.BoolOp):
            vals = [self.truth(self.ev(v, env)) for v in e.values]
            return all(vals) if isinstance(e.op, ast.And) else any(vals)
        if isinstance(e, ast.IfExp):
            return self.ev(e.body if self.truth(self.ev(e.test, env)) else e.orelse, env)
        if isinstance(e, ast.Subscript):
            return self.subscript(e, env)
        if isinstance(e, ast.Call):
            return self.call(e, env)
        raise WUndecided(f"expression `{src(e)[:40]}`")

    def truth(self, v):
        if isinstance(v, bool):
            return v
        if v is None:
            return False
        raise WUndecided("a condition that does not follow from the configuration")

    def compare(self, e, env):
        op = e.ops[0]
        a, b = self.ev(e.left, env), self.ev(e.comparators[0], env)
        if isinstance(op, (ast.Is, ast.IsNot)):
            if b is not None:
                raise WUndecided("identity test")
            r = a is None
            return r if isinstance(op, ast.Is) else not r
        if isinstance(a, WAxis) and isinstance(b, WAxis) and {a.d, b.d} == {0, 3} and isinstance(op, (ast.Lt, ast.Gt, ast.LtE, ast.GtE)):
            r_first = self.config["order"] == "rv"
            less = r_first if a.d == 0 else not r_first
            return less if isinstance(op, (ast.Lt, ast.LtE)) else not less
        if isinstance(a, sp.Basic) and isinstance(b, sp.Basic):
            d_ = sp.simplify(a - b)
            if d_.is_number:
                return {ast.Eq: d_ == 0, ast.NotEq: d_ != 0, ast.Lt: d_ < 0, ast.LtE: d_ <= 0, ast.Gt: d_ > 0, ast.GtE: d_ >= 0}[type(op)]
        raise WUndecided(f"comparison `{src(e)[:40]}`")

    def concat(self, e, env):
        """[a, *mid, b] -> region-wise vector"""
        el = e.elts
        if not (len(el) == 3 and isinstance(el[1], ast.Starred) and not isinstance(el[0], ast.Starred) and not isinstance(el[2], ast.Starred)):
            raise WUndecided(f"list display `{src(e)[:40]}`")
        a, m, b = self.ev(el[0], env), self.ev(el[1].value, env), self.ev(el[2], env)
        if isinstance(m, WVec):
            m = m.localised() if m.shape[0] == "w" else m
        if not (isinstance(a, sp.Basic) and isinstance(b, sp.Basic) and isinstance(m, WVec) and m.shape[0] == "u"):
            raise WUndecided(f"list display `{src(e)[:40]}`")
        f = m.shape[1]
        return WVec(m.d, m.frame, m.n + 2, ("e", a, (lambda k: f(k - 1)), b))

    def slice_bounds(self, sl, env):
        if sl.step is not None:
            raise WUndecided("strided slice")
        lo = self.ev(sl.lower, env) if sl.lower is not None else None
        hi = self.ev(sl.upper, env) if sl.upper is not None else None
        return lo, hi

    def subscript(self, e, env):
        base = self.ev(e.value, env)
        if isinstance(base, WFresh):
            base = base.vec()
        if isinstance(base, WObj):
            idx = self.ev(e.slice, env) if not isinstance(e.slice, ast.Slice) else None
            if base.kind == "eta_grid":
                c = self.const_int(idx)
                if c is None or c not in range(4):
                    raise WUndecided(f"`{src(e)[:40]}`")
                if c == 3 and self.config["ndims"] == 3:
                    raise WUndecided("eta_grid[3] of a three-dimensional grid")
                return WVec(c, "G", _N[c], ("u", lambda k, c=c: _coord(c, k)))
            if base.kind == "layout.inv_dims_order":
                c = self.const_int(idx)
                if c is None:
                    raise WUndecided(f"`{src(e)[:40]}`")
                return WAxis(c)
            if base.kind in ("layout.starts", "layout.ends", "layout.shape"):
                if not isinstance(idx, WAxis):
                    raise WUndecided(f"`{src(e)[:50]}` is not subscripted by the axis of a dimension (engine C decides the sort)")
                return {"layout.starts": _S[idx.d], "layout.ends": _S[idx.d] + _NL[idx.d], "layout.shape": _NL[idx.d]}[base.kind]
            raise WUndecided(f"`{src(e)[:40]}`")
        if isinstance(base, tuple):
            c = self.const_int(self.ev(e.slice, env))
            if c is None:
                raise WUndecided("tuple index")
            return base[c]
        if isinstance(base, WVec):
            sl = e.slice
            if isinstance(sl, ast.Tuple):
                kinds = ["s" if (isinstance(x, ast.Slice) and x.lower is None and x.upper is None and x.step is None) else
                         "n" if (isinstance(x, ast.Constant) and x.value is None) or src(x) == "np.newaxis" else "?" for x in sl.elts]
                if kinds == ["s", "n"]:
                    return WPlaced(base, 0)
                if kinds == ["n", "s"]:
                    return WPlaced(base, 1)
                raise WUndecided(f"index `{src(e)[:40]}`")
            if isinstance(sl, ast.Slice):
                lo, hi = self.slice_bounds(sl, env)
                return self.vslice(base, lo, hi, e)
            i = self.ev(sl, env)
            if isinstance(i, WSlice):
                return self.vslice(base, i.lo, i.hi, e)
            if isinstance(i, WIdx):
                if not _same(i.n, base.n):
                    raise WUndecided(f"`{src(e)[:40]}`: the loop does not run over the length of the vector")
                return WElems([(i, base)])
            c = self.const_int(i)
            if c is None:
                raise WUndecided(f"index `{src(e)[:40]}`")
            return self.velem(base, c)
        raise WUndecided(f"subscript `{src(e)[:40]}`")

    def velem(self, v, c):
        if v.shape[0] == "w":
            v = v.localised()
        if v.shape[0] == "u":
            return v.shape[1](sp.Integer(c) if c >= 0 else v.n + c)
        if c == 0:
            return v.shape[1]
        if c == -1:
            return v.shape[3]
        raise WUndecided("element of a region-wise vector")

    def vslice(self, v, lo, hi, e):
        a, b = (self.const_int(lo) if lo is not None else 0), (self.const_int(hi) if hi is not None else 0)
        if a is not None and b is not None and a >= 0 and b <= 0:
            if a == 0 and b == 0:
                return v
            if v.shape[0] == "w":
                v = v.localised()
            if v.shape[0] != "u":
                raise WUndecided("constant slice of a region-wise vector")
            f = v.shape[1]
            return WVec(v.d, v.frame, v.n + b - a, ("u", lambda k: f(k + a)))
        for d in range(4):
            if lo is not None and hi is not None and _same(lo, _S[d]) and _same(hi, _S[d] + _NL[d]):
                if v.frame != "G":
                    raise WUndecided("window of a vector that is already local")
                if v.d is None:
                    raise WUndecided("window of a vector that is not tied to a dimension")
                if v.d != d:
                    return self.flawed(v.d, _NL[d], f"`{src(e)[:70]}` cuts a table over {_DN.get(v.d)} with the block bounds of {_DN[d]}", "C-window")
                if not _same(v.n, _N[d]):
                    if not (isinstance(sp.simplify(v.n - _N[d]), sp.Integer)):
                        raise WUndecided(f"`{src(e)[:50]}`: length {v.n} of the vector against the {_N[d]} grid points")
                    return self.flawed(d, _NL[d], f"`{src(e)[:70]}` cuts a vector of length {v.n} with the block bounds of the {_N[d]} grid "
                                       "points: the entries are shifted against the points", "C-window")
                return WVec(d, "L", _NL[d], ("w", v))
            if lo is None and hi is not None and _same(hi, _NL[d]) and v.frame == "G" and v.d == d and _same(v.n, _N[d]):
                return self.flawed(d, _NL[d], f"`{src(e)[:70]}` takes the first n_local entries of the global table: these belong to the "
                                   "first block, not to this process's block [start:end)", "C-window")
        raise WUndecided(f"slice `{src(e)[:50]}`")

    def call(self, e, env):
        f = src(e.func)
        args = [self.ev(a, env) for a in e.args]
        # the element type / memory order of an array does not enter the weights as formulas
        kw = {k.arg: self.ev(k.value, env) for k in e.keywords if k.arg not in ("dtype", "order", "copy", "like")}
        if f in ("np.array", "np.asarray", "numpy.array") and len(args) == 1 and isinstance(args[0], (WVec, WFresh)):
            return args[0]
        if f == "slice" and len(args) == 2 and not kw:
            return WSlice(args[0], args[1])
        if f in ("np.empty", "np.zeros", "np.ndarray") and args and isinstance(args[0], WObj) and args[0].kind == "layout.shape":
            return WObj("block-array")              # memory of the shape of the local block: no weights in it
        if f in ("np.empty", "np.zeros", "np.ndarray") and args:
            a0 = args[0]
            if isinstance(a0, tuple) and len(a0) == 1:
                a0 = a0[0]
            if isinstance(a0, WShape):
                return WEmpty(a0)
            if isinstance(a0, sp.Basic):
                return WFresh(a0, f == "np.zeros")
            raise WUndecided(f"`{src(e)[:40]}`")
        if f in ("np.empty_like", "np.zeros_like") and args and isinstance(args[0], (WVec, WFresh)):
            return WFresh(args[0].n, f == "np.zeros_like")
        if f in ("np.diff",) and len(args) == 1 and isinstance(args[0], WVec) and not kw:
            v = args[0]
            return _vop(ast.Sub(), self.vslice(v, sp.Integer(1), None, e), self.vslice(v, None, sp.Integer(-1), e))
        if f in ("np.square",) and len(args) == 1:
            return _vmap(lambda x: x ** 2, args[0])
        if f in ("np.outer", "np.multiply.outer") and len(args) == 2 and all(isinstance(a, (WVec, WFresh)) for a in args):
            return WOuter(*[a.vec() if isinstance(a, WFresh) else a for a in args])
        if f == "len" and len(args) == 1 and isinstance(args[0], (WVec, WFresh)):
            return args[0].n
        if f == "tuple" and len(args) == 1 and isinstance(args[0], WPos):
            return args[0]
        if f in ("np.transpose",) and len(args) == 1 and isinstance(args[0], WOuter) and not kw:
            return WOuter(args[0].cols, args[0].rows)
        if f == "np.einsum" and len(e.args) == 3 and isinstance(e.args[0], ast.Constant) and isinstance(e.args[0].value, str) and not kw:
            spec = e.args[0].value.replace(" ", "")
            vs = [a.vec() if isinstance(a, WFresh) else a for a in args[1:]]
            if all(isinstance(a, WVec) for a in vs) and "->" in spec:
                ins, out = spec.split("->")
                parts = ins.split(",")
                if len(parts) == 2 and len(parts[0]) == 1 and len(parts[1]) == 1 and parts[0] != parts[1] and sorted(out) == sorted(parts[0] + parts[1]):
                    return WOuter(vs[0], vs[1]) if out == parts[0] + parts[1] else WOuter(vs[1], vs[0])
            raise WUndecided(f"`{src(e)[:50]}`")
        if f in ("np.concatenate", "np.hstack") and len(e.args) == 1 and isinstance(e.args[0], (ast.Tuple, ast.List)) and \
                len(e.args[0].elts) == 3 and not kw:
            # ([a], mid, [b]) : one scalar, a one-formula vector, one scalar -> region-wise vector
            parts = [self.ev(x, env) for x in e.args[0].elts]

            def one(x):
                if isinstance(x, (list, tuple)) and len(x) == 1 and isinstance(x[0], sp.Basic):
                    return x[0]
                return None
            a, m, b = one(parts[0]), parts[1], one(parts[2])
            if isinstance(m, WVec) and m.shape[0] == "w":
                m = m.localised()
            if a is not None and b is not None and isinstance(m, WVec) and m.shape[0] == "u":
                fm = m.shape[1]
                return WVec(m.d, m.frame, m.n + 2, ("e", a, (lambda k: fm(k - 1)), b))
            raise WUndecided(f"`{src(e)[:50]}`")
        if f in ("np.append", "np.insert") and not kw and all(isinstance(a, (WVec, sp.Basic)) for a in args):
            # np.append(v, c): v followed by the scalar c ; np.insert(v, 0, c): the scalar c followed by v
            if f == "np.append" and len(args) == 2 and isinstance(args[0], WVec) and isinstance(args[1], sp.Basic):
                v, c = args[0], args[1]
                v = v.localised() if v.shape[0] == "w" else v
                if v.shape[0] == "u":
                    fm = v.shape[1]
                    return WVec(v.d, v.frame, v.n + 1, ("e", fm(sp.Integer(0)), fm, c))
            if f == "np.insert" and len(args) == 3 and isinstance(args[0], WVec) and self.const_int(args[1]) == 0 and isinstance(args[2], sp.Basic):
                v, c = args[0], args[2]
                v = v.localised() if v.shape[0] == "w" else v
                if v.shape[0] == "u":
                    fm = v.shape[1]
                    return WVec(v.d, v.frame, v.n + 1, ("e", c, (lambda k: fm(k - 1)), fm(v.n - 1)))
            raise WUndecided(f"`{src(e)[:50]}`")
        if isinstance(e.func, ast.Attribute) and e.func.attr in ("reshape",):
            base = self.ev(e.func.value, env)
            if isinstance(base, WFresh):
                base = base.vec()
            sh = args[0] if len(args) == 1 else None
            if isinstance(base, WVec) and isinstance(sh, WShape):
                nz = {k: v for k, v in sh.entries.items()}
                if len(nz) == 1:
                    (k, v), = nz.items()
                    if not _same(v, base.n):
                        raise WUndecided("reshape to a different size")
                    return WTensor(sh.ndims, {k: base})
            if isinstance(base, WOuter) and isinstance(sh, WShape) and not any(k.arg == "order" for k in e.keywords):
                # reshape keeps the C order of the elements: the same question as filling through .flat
                tmp = WEmpty(sh)
                self.fill(tmp, base, e, how="reshaped")
                return tmp.filled
            raise WUndecided(f"`{src(e)[:50]}`")
        if isinstance(e.func, ast.Attribute) and e.func.attr == "copy" and not args:
            return self.ev(e.func.value, env)
        fv = None
        try:
            fv = self.ev(e.func, env)
        except WUndecided:
            pass
        if isinstance(fv, WFn):
            return self.apply(fv, args, kw)
        raise WUndecided(f"call `{src(e)[:50]}`")

    def apply(self, fv, args, kw):
        if fv.name == "square":
            return _vmap(lambda x: x ** 2, args[0])
        if fv.node is None or self.depth > 6:
            raise WUndecided(f"call of `{fv.name}`")
        if isinstance(fv.node, ast.Lambda):
            a = fv.node.args
            if len(a.args) != len(args) or kw:
                raise WUndecided("lambda arity")
            env = dict(fv.env or {})
            env.update({x.arg: v for x, v in zip(a.args, args)})
            return self.ev(fv.node.body, env)
        fn = fv.node
        formals = [x.arg for x in fn.args.args]
        if formals and formals[0] == "self":
            raise WUndecided("method call")
        if len(args) > len(formals) or any(k not in formals for k in kw):
            raise WUndecided(f"arguments of `{fv.name}`")
        env = dict(zip(formals, args))
        env.update(kw)
        for f_, d_ in zip(formals[len(formals) - len(fn.args.defaults):], fn.args.defaults):
            if f_ not in env:
                env[f_] = self.ev(d_, {})
        if any(f_ not in env for f_ in formals):
            raise WUndecided(f"arguments of `{fv.name}`")
        sub = WInterp(self.funcs, self.config, self.depth + 1)
        sub.attrs = self.attrs
        sub.flaws = self.flaws
        try:
            sub.block(fn.body, env)
        except WRet as r:
            return r.v
        return None

    # ---------------------------------------------------------------- statements
    def block(self, stmts, env):
        for st in stmts:
            self.stmt(st, env)

    def stmt(self, st, env):
        if isinstance(st, (ast.Assert, ast.Pass, ast.Import, ast.ImportFrom)):
            return
        if isinstance(st, ast.Expr):
            if isinstance(st.value, ast.Constant):
                return
            raise WUndecided(f"statement `{src(st)[:40]}`")
        if isinstance(st, ast.Return):
            raise WRet(self.ev(st.value, env) if st.value is not None else None)
        if isinstance(st, ast.If):
            self.block(st.body if self.truth(self.ev(st.test, env)) else st.orelse, env)
            return
        if isinstance(st, ast.Assign):
            v = self.ev(st.value, env)
            for t in st.targets:
                self.store(t, v, env, st)
            return
        if isinstance(st, ast.AnnAssign) and st.value is not None:
            self.store(st.target, self.ev(st.value, env), env, st)
            return
        if isinstance(st, ast.For) and not st.orelse:
            # element loop over all positions of a vector: the body is read once with the index and the element symbolic
            it = st.iter
            if isinstance(it, ast.Call) and src(it.func) == "enumerate" and len(it.args) == 1 and isinstance(st.target, ast.Tuple) and \
                    len(st.target.elts) == 2 and all(isinstance(x, ast.Name) for x in st.target.elts):
                vec = self.ev(it.args[0], env)
                if isinstance(vec, WFresh):
                    vec = vec.vec()
                if isinstance(vec, WVec):
                    idx = WIdx(vec.n, vec)
                    env[st.target.elts[0].id] = idx
                    env[st.target.elts[1].id] = WElems([(idx, vec)])
                    self.block(st.body, env)
                    return
            if isinstance(it, ast.Call) and src(it.func) == "range" and len(it.args) == 1 and isinstance(st.target, ast.Name):
                n_ = self.ev(it.args[0], env)
                if isinstance(n_, sp.Basic) and not n_.is_number:
                    env[st.target.id] = WIdx(n_)
                    self.block(st.body, env)
                    return
            raise WUndecided(f"statement `{src(st)[:40]}`")
        if isinstance(st, ast.AugAssign):
            t = st.target
            if isinstance(t, ast.Subscript):
                base = self.ev(t.value, env)
                if isinstance(base, WFresh) and isinstance(st.op, ast.Add):
                    self.fresh_store(base, t, self.ev(st.value, env), env, add=True)
                    return
                raise WUndecided(f"`{src(st)[:40]}`")
            cur = self.ev(ast.Name(id=t.id, ctx=ast.Load()) if isinstance(t, ast.Name) else t, env)
            self.store(t, _vop(st.op, cur, self.ev(st.value, env)), env, st)
            return
        raise WUndecided(f"statement `{src(st)[:40]}`")

    def fresh_store(self, fr, t, val, env, add=False):
        sl = t.slice
        if isinstance(val, WFresh):
            val = val.vec()
        if isinstance(val, WVec) and val.shape[0] == "w":
            val = val.localised()

        def comb(old, new):
            return new if not add else (old + new)
        if isinstance(val, WVec):
            fr.d, fr.frame = (val.d if fr.d is None else fr.d), (val.frame if fr.frame is None else fr.frame)
        if isinstance(sl, ast.Slice):
            lo, hi = self.slice_bounds(sl, env)
            a, b = (self.const_int(lo) if lo is not None else 0), (self.const_int(hi) if hi is not None else 0)
            if a is None or b is None or a not in (0, 1) or b not in (0, -1):
                raise WUndecided(f"store into `{src(t)[:40]}`")
            if isinstance(val, WVec):
                if val.shape[0] != "u" or not _same(val.n, fr.n - a + b):
                    raise WUndecided(f"store into `{src(t)[:40]}`")
                f = val.shape[1]
                g = (lambda k: f(k - a))
            elif isinstance(val, sp.Basic):
                g = (lambda k: val)
            else:
                raise WUndecided(f"store into `{src(t)[:40]}`")
            if add and (fr.mid is None):
                raise WUndecided("accumulation into an uninitialised array")
            old_mid, old_first, old_last = fr.mid, fr.first, fr.last
            fr.mid = (lambda k: comb(old_mid(k), g(k))) if add else g
            if a == 0:
                fr.first = comb(old_first, g(sp.Integer(0))) if add else g(sp.Integer(0))
            if b == 0:
                fr.last = comb(old_last, g(fr.n - 1)) if add else g(fr.n - 1)
            return
        c = self.const_int(self.ev(sl, env))
        if c not in (0, -1) or not isinstance(val, sp.Basic):
            raise WUndecided(f"store into `{src(t)[:40]}`")
        if c == 0:
            fr.first = comb(fr.first, val) if add else val
        else:
            fr.last = comb(fr.last, val) if add else val

    def store(self, t, v, env, st):
        if isinstance(t, ast.Name):
            env[t.id] = v
            return
        if isinstance(t, (ast.Tuple, ast.List)):
            if isinstance(v, WObj) and v.kind == "eta_grid" and len(t.elts) == self.config["ndims"] and \
                    not any(isinstance(x, ast.Starred) for x in t.elts):
                # the list of coordinate arrays has one entry per dimension of the grid
                v = [WVec(c, "G", _N[c], ("u", lambda k, c=c: _coord(c, k))) for c in range(len(t.elts))]
            if not isinstance(v, (tuple, list)) or len(v) != len(t.elts):
                raise WUndecided(f"unpacking `{src(st)[:40]}`")
            for x, y in zip(t.elts, v):
                self.store(x, y, env, st)
            return
        if isinstance(t, ast.Attribute):
            if src(t.value) == "self":
                self.attrs[t.attr] = v
                env["self." + t.attr] = v
                return
            if t.attr == "flat":
                base = self.ev(t.value, env)
                if isinstance(base, WEmpty):
                    self.fill(base, v, st)
                    return
            raise WUndecided(f"store `{src(st)[:40]}`")
        if isinstance(t, ast.Subscript):
            base = self.ev(t.value, env)
            if isinstance(base, WShape):
                k = self.ev(t.slice, env)
                if not isinstance(k, WAxis) or not isinstance(v, sp.Basic):
                    raise WUndecided(f"shape entry `{src(st)[:50]}` (not the axis of a dimension)")
                base.entries[k.d] = v
                return
            if isinstance(base, WFresh):
                self.fresh_store(base, t, v, env)
                return
            if isinstance(base, WPos):
                k = self.ev(t.slice, env)
                if not isinstance(k, WAxis) or not isinstance(v, WIdx):
                    raise WUndecided(f"index-list entry `{src(st)[:50]}` (not a loop index at the axis of a dimension)")
                base.entries[k.d] = v
                return
            if isinstance(base, WEmpty):
                pos = self.ev(t.slice, env)
                if isinstance(pos, WPos) and isinstance(v, WElems):
                    sh = base.shape
                    if pos.ndims != sh.ndims:
                        raise WUndecided("index list and array have different numbers of axes")
                    factors = {}
                    for i_, vec in v.pairs:
                        ax = [a_ for a_, ix in pos.entries.items() if ix is i_]
                        if len(ax) != 1:
                            raise WUndecided("an element is taken at a loop index that is not one entry of the index list")
                        factors[ax[0]] = vec
                    if set(factors) != set(pos.entries) or set(factors) != set(sh.entries):
                        raise WUndecided("the loop indices placed in the index list are not those of the elements stored / of the long axes")
                    for a_, vec in factors.items():
                        # a vector of another dimension on this axis is left to the placement rule, which names the two dimensions
                        if not _same(sh.entries[a_], vec.n) and (vec.d is None or vec.d == a_):
                            raise WUndecided("element loops do not run over the extent of the axis")
                    base.filled = WTensor(sh.ndims, factors, v.scalar)
                    return
            raise WUndecided(f"store `{src(st)[:40]}`")
        raise WUndecided(f"store `{src(st)[:40]}`")

    def fill(self, empty, v, st, how="written"):
        """C-order fill of np.empty(shape) from a flat iterator (or C-order reshape to that shape)"""
        sh = empty.shape
        if isinstance(v, WFresh):
            v = v.vec()
        if isinstance(v, WVec):
            if len(sh.entries) != 1:
                raise WUndecided("a vector fills an array with several long axes")
            (d, n), = sh.entries.items()
            if not _same(n, v.n):
                raise WUndecided("flat fill of a different size")
            empty.filled = WTensor(sh.ndims, {d: v})
            return
        if isinstance(v, WOuter):
            if sorted(sh.entries) != [0, 3]:
                raise WUndecided("outer product fills an array whose long axes are not those of r and v")
            first, second = (0, 3) if self.config["order"] == "rv" else (3, 0)
            rows, cols = v.rows, v.cols
            if _same(sh.entries[first], rows.n) and _same(sh.entries[second], cols.n) and rows.d == first and cols.d == second:
                empty.filled = WTensor(sh.ndims, {first: rows, second: cols})
                return
            if not (rows.d == second and cols.d == first and rows.frame == cols.frame == "L"):
                raise WUndecided("flat fill of an outer product whose factors are not the local r and v vectors")
            if not (_same(sh.entries[first], cols.n) and _same(sh.entries[second], rows.n)):
                raise WUndecided("flat fill of an outer product whose extents are not those of the axes")
            msg = (f"`{src(st)[:80]}`: the outer product (rows over {_DN.get(rows.d)}, columns over {_DN.get(cols.d)}) is {how} "
                   f"in C order into an array whose {_DN[first]} axis precedes its {_DN[second]} axis (layouts ordered "
                   f"{'r before v' if first == 0 else 'v before r'}): the weights are permuted among the (r,v) points "
                   "(their total is preserved, so a constant field still gives the analytic volume)")
            empty.filled = WTensor(sh.ndims, {first: self.flawed(first, sh.entries[first], msg, "C-axis-placement"),
                                              second: self.flawed(second, sh.entries[second], msg, "C-axis-placement")})
            return
        raise WUndecided(f"flat fill from {type(v).__name__}")


def _w_functions(chk, rel):
    """module-level functions visible from the unit: its own and those it imports from the sibling module"""
    out = {}
    for r in (U.NORMS, U.ENERGY):
        m = chk.mod(r)
        for q, f in m.functions().items():
            if "." not in q and (r == rel or q not in out):
                out[q] = f
    return out


def _trap(d):
    x, n = _XF[d], _N[d]
    h = sp.Rational(1, 2)
    return (x(1) - x(0)) * h, (lambda k: (x(k + 1) - x(k - 1)) * h), (x(n - 1) - x(n - 2)) * h


def _axis_spec(d, cls):
    t0, tm, t1 = _trap(d)
    x, n = _XF[d], _N[d]
    if d == 0:
        return t0 * x(0), (lambda k: tm(k) * x(k)), t1 * x(n - 1), "trapezoid weight x Jacobian r"
    if cls == "KineticEnergy":
        return t0 * x(0) ** 2, (lambda k: tm(k) * x(k) ** 2), t1 * x(n - 1) ** 2, "trapezoid weight x v^2"
    return t0, tm, t1, "trapezoid weight"


def _provably_differs(a, b):
    """a != b as formulas: the difference is a non-zero polynomial / rational function of independent atoms (symbols and applied
    uninterpreted functions such as x0(k + 1)); anything else (floor, Abs, Piecewise, ...) is not decided -> True / False / None"""
    try:
        d = sp.together(sp.expand(a - b))
        n, _ = sp.fraction(d)
        n = sp.expand(n)
    except Exception:
        return None
    if n == 0 or sp.simplify(n) == 0:
        return False
    from sympy.core.function import AppliedUndef
    for at in n.atoms(sp.Function):
        if not isinstance(at, AppliedUndef):
            return None
    return True if n.is_polynomial(*[x for x in n.atoms(sp.Symbol, AppliedUndef)]) else None


def _const_ratio(code, spec):
    """the number c with code = c * spec, or None"""
    try:
        r = sp.simplify(sp.together(code / spec))
    except Exception:
        return None
    return r if r.is_number and r.is_finite and r != 0 else None


def weight_tensor(chk, method=None):
    """engine W on the four constructors, one run per configuration (number of dimensions, order of the r and v axes).
    Constructor and norm method are ONE unit: the method returns c * sum(integrand * _factor1) * _factor2 (c from `method`, None
    when the method was not read in that form); a constant factor may sit in the r weights, the v weights, the volume factor or the
    method - what is decided is their product.  -> (placed, {cls: [product of the constructor's scalings per configuration]})"""
    placed, scales = {}, {}
    method = method or {}
    for rel, cls, meth in CLASSES:
        q = f"{cls}.__init__"
        fn = chk.func(rel, q)
        funcs = _w_functions(chk, rel)
        placed[cls] = True
        scales[cls] = []
        c_m = (method.get(cls) or {}).get("c")
        # AUDIT (every VIOLATED verdict on the constructor): the diagnosis speaks of `_factor1` / `_factor2` as THE weights of the
        # diagnostic, which is true when the norm method was read as c * sum(integrand * self._factor1) * self._factor2 and nothing
        # else (`canonical`); when the method was not read in that form (it may apply further weights or factors) the verdict is
        # UNDECIDED
        canonical = c_m is not None
        not_canon = "; the norm method was not read as sum(integrand x self._factor1) x self._factor2, so whether it compensates is not decided"
        configs = [{"ndims": 4, "order": "rv"}, {"ndims": 4, "order": "vr"}] + ([{"ndims": 3, "order": "rv"}] if cls == "l2" else [])
        for cfg in configs:
            tag = f"{cls} [{cfg['ndims']}-D" + (f", {'r before v' if cfg['order'] == 'rv' else 'v before r'}]" if cfg["ndims"] == 4 else "]")
            w = WInterp(funcs, cfg)
            formals = [a.arg for a in fn.args.args]
            if len(formals) != 3:
                chk.ob("F9-weight-tensor", fn, tag, None, "constructor signature changed", file=rel, func=q)
                placed[cls] = False
                scales[cls].append(None)
                continue
            env = {formals[0]: WObj("self"), formals[1]: WObj("eta_grid"), formals[2]: WObj("layout")}
            try:
                try:
                    w.block(fn.body, env)
                except WRet:
                    pass
            except WUndecided as e:
                chk.ob("F9-weight-tensor", fn, tag, None, f"the construction of the weights is outside the interpreted fragment: {e}", file=rel, func=q)
                placed[cls] = False
                scales[cls].append(None)
                continue
            except WViolation as e:
                chk.ob(e.rule, fn, tag, False if canonical else None, str(e) + ("" if canonical else not_canon), file=rel, func=q)
                placed[cls] = False
                scales[cls].append(None)
                continue
            f1, f2 = w.attrs.get("_factor1"), w.attrs.get("_factor2")
            if isinstance(f1, WEmpty):
                f1 = f1.filled
            if not isinstance(f1, WTensor) or not isinstance(f2, sp.Basic):
                chk.ob("F9-weight-tensor", fn, tag, None, f"self._factor1 / self._factor2 not obtained as a weight tensor and a scalar "
                       f"({type(f1).__name__}, {type(f2).__name__})", file=rel, func=q)
                placed[cls] = False
                scales[cls].append(None)
                continue
            # recognised wrong constructs whose value reached the weights that are kept
            reached = []
            for v in f1.factors.values():
                if isinstance(v, WFresh):
                    v = v.vec()
                if isinstance(v, WVec):
                    try:
                        vv = v.shape[1] if v.shape[0] == "w" else v
                        r0, rm, r1 = vv.regions()
                        exprs = [sp.sympify(r0), sp.sympify(rm(_K)), sp.sympify(r1)]
                    except Exception:
                        exprs = []
                    for F, msg, rule in w.flaws:
                        if any(x.has(F) for x in exprs) and (msg, rule) not in reached:
                            reached.append((msg, rule))
            if isinstance(f2, sp.Basic):
                for F, msg, rule in w.flaws:
                    if f2.has(F) and (msg, rule) not in reached:
                        reached.append((msg, rule))
            if reached:
                for msg, rule in reached:
                    chk.ob(rule, fn, tag, False if canonical else None, msg + ("" if canonical else not_canon), file=rel, func=q)
                placed[cls] = False
                scales[cls].append(None)
                continue
            # placement: which axes carry weights, and of which dimension
            want_axes = [0, 3] if cfg["ndims"] == 4 else [0]
            okp, whyp = True, "the r weights lie on the axis carrying r" + (", the v weights on the axis carrying v" if cfg["ndims"] == 4 else "") + \
                ", unit extent elsewhere; each is the [start:end) block of its global table"
            if f1.ndims != cfg["ndims"]:
                okp, whyp = False, f"the weight array has {f1.ndims} axes for a {cfg['ndims']}-dimensional layout"
            elif sorted(f1.factors) != want_axes:
                miss = [_DN[d] for d in want_axes if d not in f1.factors]
                okp, whyp = False, (f"weights lie on the axes of {[_DN[d] for d in sorted(f1.factors)]}" +
                                    (f"; the non-uniform dimension(s) {miss} are not weighted" if miss else ""))
            else:
                for d, v in f1.factors.items():
                    if not (isinstance(v, WVec) and v.frame == "L" and v.d == d and _same(v.n, _NL[d])):
                        okp, whyp = False, (f"the factor on the axis carrying {_DN[d]} is a vector over {_DN.get(getattr(v, 'd', None))} "
                                            f"({getattr(v, 'frame', '?')} frame, length {getattr(v, 'n', '?')})")
            if okp is False and not canonical:
                okp, whyp = None, whyp + not_canon
            chk.ob("C-axis-placement", fn, tag, okp, whyp, file=rel, func=q)
            if not okp:
                placed[cls] = False
                scales[cls].append(None)
                continue
            # the factor of each axis against the quadrature rule of the global grid: equal up to ONE constant, or different
            axis_res = {}                   # d -> (ratio or None, (where, code, spec) of the first difference, note, what)
            for d in want_axes:
                v = f1.factors[d]
                s0, sm, s1, what = _axis_spec(d, cls)
                scal = f1.scalar if d == 0 else sp.Integer(1)
                if v.shape[0] == "w":
                    g0, gm, g1 = v.shape[1].regions()
                    pairs = [("the first point of the grid", g0 * scal, s0), ("an interior point k", gm(_K) * scal, sm(_K)),
                             ("the last point of the grid", g1 * scal, s1)]
                    note = ""
                else:
                    g0, gm, g1 = v.regions()
                    s = _S[d]
                    pairs = [("the first point of a block (global index s)", g0 * scal, sm(s)), ("a point k inside a block", gm(_K) * scal, sm(s + _K)),
                             ("the last point of a block", g1 * scal, sm(s + _NL[d] - 1))]
                    note = (" - the weights are built from the points of the local block, so every process treats the ends of its own "
                            "block as ends of the domain")
                ratios = [_const_ratio(g_, s_) for _, g_, s_ in pairs]
                rho = ratios[0] if all(r_ is not None for r_ in ratios) and all(sp.simplify(r_ - ratios[0]) == 0 for r_ in ratios) else None
                first = None
                if rho is None:
                    # not one constant multiple of the rule: where, and is the difference proved?
                    base = next((r_ for r_ in ratios if r_ is not None), sp.Integer(1))
                    for w_, g_, s_ in pairs:
                        if not _same(g_, base * s_):
                            first = (w_, g_, s_ * base, _provably_differs(g_, base * s_), base)
                            break
                axis_res[d] = (rho, first, note, what)
            want2 = _H[1] * _H[2] * (sp.Rational(1, 2) if cls == "KineticEnergy" else 1)
            rho2 = _const_ratio(f2, want2)
            rhos = [axis_res[d][0] for d in want_axes] + [rho2]
            K = None
            if all(r_ is not None for r_ in rhos):
                K = sp.Integer(1)
                for r_ in rhos:
                    K = K * r_
            total_ok = None if (K is None or c_m is None) else bool(sp.simplify(K * c_m - 1) == 0)
            parts = ", ".join(f"{n_} x {r_}" for n_, r_ in zip([f"{_DN[d]} weights" for d in want_axes] + ["volume factor"], rhos) if r_ is not None) + \
                (f", norm method x {c_m}" if c_m is not None else "")

            def scaled_verdict(rho_, place):
                """verdict for a part that is the documented one times the constant rho_ != 1"""
                if total_ok is True:
                    return True, (f"{place} is the documented one times {rho_}; the constant is compensated elsewhere in the constructor / the "
                                  f"norm method ({parts}): the product of all scalings is 1")
                if total_ok is False:
                    return False, (f"{place} is the documented one times {rho_}, and the scalings of constructor and norm method ({parts}) "
                                   f"multiply to {sp.simplify(K * c_m)}, not 1: the diagnostic is off by that factor")
                return None, (f"{place} is the documented one times {rho_}; whether the other parts compensate the constant was not "
                              f"established ({parts or 'their scalings were not obtained'})")
            for d in want_axes:
                rho, first, note, what = axis_res[d]
                rule = "F9-jacobian" if d == 0 else "F9-trapezoid-weights"
                if rho is not None and sp.simplify(rho - 1) == 0:
                    ok, why = True, f"{what} of the global {_DN[d]} grid, cut to the local block"
                elif rho is not None:
                    ok, why = scaled_verdict(rho, f"the factor on the {_DN[d]} axis ({what})")
                else:
                    w_, g_, s_, proved, base = first if first is not None else ("?", sp.Integer(0), sp.Integer(0), None, 1)
                    ok = False if (proved and canonical) else None
                    why = (f"at {w_} the code gives {sp.simplify(g_)}, the rule ({what}" + (f", times {base}" if base != 1 else "") +
                           f") needs {sp.simplify(s_)}" + (note if f1.factors[d].shape[0] != "w" else "") +
                           ("" if proved else " (the two formulas were not proved different)") + ("" if canonical or not proved else not_canon))
                chk.ob(rule, fn, f"{tag}: factor on the {_DN[d]} axis", ok, why, file=rel, func=q)
            if rho2 is not None and sp.simplify(rho2 - 1) == 0:
                ok2, why2 = True, ("1/2 " if cls == "KineticEnergy" else "") + "dq dz (uniform periodic theta and z: rectangle rule)"
            elif rho2 is not None:
                ok2, why2 = scaled_verdict(rho2, "_factor2 (the volume factor " + ("1/2 " if cls == "KineticEnergy" else "") + "dq dz)")
            else:
                ok2 = False if (f2.free_symbols <= {_H[1], _H[2]} and _provably_differs(f2, want2) and canonical) else None
                why2 = f"_factor2 = {sp.simplify(f2)}, expected {want2} (h1, h2 the spacings of theta and z)" + \
                    ("" if ok2 is False else " - written with other quantities or not proved different: not compared" if canonical else not_canon)
            chk.ob("F9-volume-factor", fn, f"{tag}: _factor2", ok2, why2, file=rel, func=q)
            scales[cls].append(K)
    return placed, scales


class _NotElementwise:
    """stands for the Check while engine C types a constructor: engine C treats every numpy function it does not know as an
    element-wise one and reports `element-wise combination of axes` for its array arguments.  For functions that combine their
    arguments in another way (outer products, contractions, stacking) that diagnosis is not true of the code: such obligations are
    not recorded here - the placement of an outer product is decided by the weight-tensor rules (engine W)."""
    NAMES = {"outer", "einsum", "kron", "tensordot", "dot", "matmul", "meshgrid", "concatenate", "stack", "hstack", "vstack", "append",
             "ix_", "inner", "vdot", "cross", "convolve", "broadcast_to", "tile", "repeat", "column_stack", "interp"}

    def __init__(self, chk, weights_established=False):
        object.__setattr__(self, "_chk", chk)
        object.__setattr__(self, "_established", weights_established)

    def __getattr__(self, k):
        return getattr(self._chk, k)

    def __setattr__(self, k, v):
        setattr(self._chk, k, v)

    def ob(self, rule, node, construct, ok, msg="", **kw):
        if ok is False and self._established:
            # AUDIT: engine C types every subscript expression of the constructor, whether or not its value reaches the weights.  When
            # the symbolic reading of the constructor (engine W) has established, for every configuration, that the weights the class
            # keeps are the [start:end) blocks of the documented tables on the right axes, an expression engine C objects to does not
            # feed them (a value computed and not used, or used for something else): not a statement about the diagnostic
            self._chk.note(f"engine C objects to `{str(construct)[:60]}` ({msg[:80]}); the weights kept by the class were established "
                           "by the weight-tensor rules: the expression does not reach them")
            return None
        if ok is False and isinstance(node, ast.Call) and "element-wise combination" in msg:
            f = node.func
            name = f.attr if isinstance(f, ast.Attribute) else f.id if isinstance(f, ast.Name) else ""
            if name in self.NAMES:
                return None
            # operands placed on different axes before they are combined (np.expand_dims / reshape / newaxis of an argument): the
            # combination is a broadcast, i.e. an outer product, not an element-by-element pairing of the two vectors
            reshapers = ("expand_dims", "reshape", "atleast_2d", "atleast_3d")
            for a in list(node.args) + [k.value for k in node.keywords if k.arg != "out"]:
                for x in ast.walk(a):
                    if isinstance(x, ast.Call) and (src(x.func).split(".")[-1] in reshapers):
                        return None
                    if isinstance(x, ast.Subscript) and any((isinstance(y, ast.Constant) and y.value is None) or src(y) in ("np.newaxis", "numpy.newaxis")
                                                           for y in (x.slice.elts if isinstance(x.slice, ast.Tuple) else [x.slice])):
                        return None
        return self._chk.ob(rule, node, construct, ok, msg, **kw)


def weight_windows(chk, placed=None):
    """engine C on the constructors: locals that are typed as arrays over a window are the [start:end) block of the global table
    (the sort rules C-sort on starts/ends/inv_dims_order come from the engine itself)"""
    for rel, cls, meth in CLASSES:
        fn = chk.func(rel, f"{cls}.__init__")
        env = {"eta_grid": eta_grid_tag(), "layout": layout_param()}
        a = IS(_NotElementwise(chk, bool(placed and placed.get(cls))), rel, f"{cls}.__init__", fn, env, Ctx(dist_dims=None), {})
        a.run()
        for name, d in (("mydrMult", 0), ("my_r", 0), ("mydvMult", 3), ("my_v", 3)):
            t = a.env.get(name)
            if not I.is_arr(t) or len(t[1]) != 1:
                continue
            w = t[1][0]
            ok = True if w == L(d) else False if (w is not None and w[0] in ("G", "P", "L", "Gm")) else None
            why = f"`{name}` is the local block of the global {I.DIMNAMES[d]} table" if ok else \
                f"`{name}` is {I.tname(t)}, not the local block [start:end) of the {I.DIMNAMES[d]} table" + \
                ("" if ok is False else " (window not typed: decided by the weight-tensor rules)")
            if ok is False:
                # the rule goes by the NAME of the local: after a rewrite the name may denote another table (a global one that is cut
                # to the block later).  Whether the factor on the axis is the [start:end) block is decided by the weight-tensor rules
                # (engine W); here a mismatch is only 'not confirmed'
                if placed is not None and placed.get(cls):
                    continue
                ok, why = None, why + " (by the name of the local only: the weight-tensor rules decide the placement)"
            if ok is None and placed is not None and placed.get(cls):
                # engine C could not type the table the window is cut from (built with functions it does not model); engine W
                # followed the construction and established that the factor on this axis is the [start:end) block
                ok, why = True, (f"`{name}`: engine C does not type the table it is cut from; the weight-tensor rules followed the "
                                 f"construction: the factor on the {I.DIMNAMES[d]} axis is the [start:end) block of its global table")
            chk.ob("C-window", fn, f"{cls}: {name}", ok, why, file=rel, func=f"{cls}.__init__")


class _Methods2Calls(ast.NodeTransformer):
    """x.conj() -> conj(x), x.real -> real(x), x.sum() -> np.sum(x): the element-wise model knows the function forms"""

    @staticmethod
    def _flat(x):
        """x.ravel() / x.flatten() / np.ravel(x) / x.flat / x.reshape(-1) -> x, else None"""
        if isinstance(x, ast.Call) and isinstance(x.func, ast.Attribute) and x.func.attr in ("ravel", "flatten") and not x.args:
            return x.func.value
        if isinstance(x, ast.Call) and src(x.func) in ("np.ravel", "numpy.ravel") and len(x.args) == 1:
            return x.args[0]
        if isinstance(x, ast.Call) and isinstance(x.func, ast.Attribute) and x.func.attr == "reshape" and len(x.args) == 1 and src(x.args[0]) == "-1":
            return x.func.value
        if isinstance(x, ast.Attribute) and x.attr == "flat":
            return x.value
        return None

    def visit_BinOp(self, n):
        self.generic_visit(n)
        if isinstance(n.op, ast.MatMult) and self._flat(n.left) is not None and self._flat(n.right) is not None:
            return self._sum(ast.BinOp(left=self._flat(n.left), op=ast.Mult(), right=self._flat(n.right)))
        return n

    @staticmethod
    def _sum(x):
        return ast.Call(func=ast.Attribute(value=ast.Name(id="np", ctx=ast.Load()), attr="sum", ctx=ast.Load()), args=[x], keywords=[])

    def visit_Call(self, n):
        self.generic_visit(n)
        f = src(n.func)
        # whole contractions written another way: the sum over all points of the product
        if f in ("np.einsum", "numpy.einsum") and len(n.args) == 3 and isinstance(n.args[0], ast.Constant) and isinstance(n.args[0].value, str) \
                and not n.keywords:
            spec = n.args[0].value.replace(" ", "")
            if "->" in spec:
                ins, out = spec.split("->")
                parts = ins.split(",")
                if out == "" and len(parts) == 2 and parts[0] == parts[1] and len(set(parts[0])) == len(parts[0]):
                    return self._sum(ast.BinOp(left=n.args[1], op=ast.Mult(), right=n.args[2]))
        if f in ("np.dot", "np.vdot", "np.inner", "numpy.dot", "numpy.vdot") and len(n.args) == 2 and not n.keywords and \
                self._flat(n.args[0]) is not None and self._flat(n.args[1]) is not None:
            a_, b_ = self._flat(n.args[0]), self._flat(n.args[1])
            if f.endswith("vdot"):
                a_ = ast.Call(func=ast.Name(id="conj", ctx=ast.Load()), args=[a_], keywords=[])
            return self._sum(ast.BinOp(left=a_, op=ast.Mult(), right=b_))
        if f in ("np.broadcast_to", "numpy.broadcast_to") and n.args:
            return n.args[0]
        if f in ("np.multiply", "numpy.multiply") and len(n.args) == 2 and not n.keywords:
            return ast.BinOp(left=n.args[0], op=ast.Mult(), right=n.args[1])
        if f in ("np.square", "numpy.square") and len(n.args) == 1 and not n.keywords:
            return ast.BinOp(left=n.args[0], op=ast.Pow(), right=ast.Constant(value=2))
        if f in ("np.sum", "numpy.sum") and len(n.args) == 1 and len(n.keywords) == 1 and n.keywords[0].arg == "axis" and \
                isinstance(n.keywords[0].value, ast.Constant) and n.keywords[0].value.value is None:
            return self._sum(n.args[0])
        if self._flat(n) is not None and isinstance(n.func, ast.Attribute) and n.func.attr != "reshape":
            return self._flat(n)
        if isinstance(n.func, ast.Attribute) and n.func.attr in ("conj", "conjugate") and not n.args and not n.keywords:
            return ast.Call(func=ast.Name(id="conj", ctx=ast.Load()), args=[n.func.value], keywords=[])
        if isinstance(n.func, ast.Attribute) and n.func.attr == "sum" and not n.args and not n.keywords and src(n.func.value) != "np":
            return ast.Call(func=ast.Attribute(value=ast.Name(id="np", ctx=ast.Load()), attr="sum", ctx=ast.Load()),
                            args=[n.func.value], keywords=[])
        return n

    def visit_Attribute(self, n):
        self.generic_visit(n)
        if n.attr in ("real", "imag") and isinstance(n.ctx, ast.Load) and src(n.value) not in ("np", "numpy"):
            return ast.Call(func=ast.Name(id=n.attr, ctx=ast.Load()), args=[n.value], keywords=[])
        return n


def _straight_line_env(m, env):
    """locals of the method's own block written forward: `x = e` binds x, `x op= e` re-binds it to `x op e` (names that are
    assigned inside branches or loops are left alone)"""
    import copy
    from ..resolve import expand
    env = dict(env)
    nested = {n.id for st in m.body if not isinstance(st, (ast.Assign, ast.AugAssign)) for n in ast.walk(st)
              if isinstance(n, ast.Name) and isinstance(n.ctx, ast.Store)}
    cur = {}
    for st in m.body:
        if isinstance(st, ast.Assign) and len(st.targets) == 1 and isinstance(st.targets[0], ast.Name) and st.targets[0].id not in nested:
            cur[st.targets[0].id] = expand(st.value, {**env, **cur})
        elif isinstance(st, ast.AugAssign) and isinstance(st.target, ast.Name) and st.target.id in cur and st.target.id not in nested:
            cur[st.target.id] = ast.BinOp(left=cur[st.target.id], op=copy.deepcopy(st.op), right=expand(st.value, {**env, **cur}))
    env.update(cur)
    return env


def _out_stores(m, env):
    """work arrays written as a whole in the method's own block through `out=`: `np.multiply(a, b, out=T)` (add / subtract / divide
    alike) makes T hold a*b from there on -> {source of T: expression}; the statement must come before the return in the same block
    and T must not be stored into anywhere else in the method"""
    from ..resolve import expand
    ops = {"multiply": ast.Mult, "add": ast.Add, "subtract": ast.Sub, "divide": ast.Div, "true_divide": ast.Div}
    out = {}
    for st in m.body:
        if not (isinstance(st, ast.Expr) and isinstance(st.value, ast.Call)):
            continue
        c = st.value
        f = src(c.func)
        if not (f.startswith(("np.", "numpy.")) and f.split(".")[-1] in ops and len(c.args) == 2 and len(c.keywords) == 1 and c.keywords[0].arg == "out"):
            continue
        t = c.keywords[0].value
        if not (isinstance(t, ast.Name) or (isinstance(t, ast.Attribute) and src(t.value) == "self")):
            continue
        key = src(t)
        other = [n for n in ast.walk(m) if isinstance(n, (ast.Assign, ast.AugAssign)) and
                 any(key in src(x) for x in (n.targets if isinstance(n, ast.Assign) else [n.target]))]
        others_out = [n for n in ast.walk(m) if isinstance(n, ast.keyword) and n.arg == "out" and src(n.value) == key and n is not c.keywords[0]]
        if other or others_out:
            continue
        out[key] = ast.BinOp(left=expand(c.args[0], env), op=ops[f.split(".")[-1]](), right=expand(c.args[1], env))
    return out


class _SubstSrc(ast.NodeTransformer):
    def __init__(self, table):
        self.table = table

    def visit_Attribute(self, n):
        if src(n) in self.table and isinstance(n.ctx, ast.Load):
            return self.table[src(n)]
        return self.generic_visit(n)

    def visit_Name(self, n):
        if n.id in self.table and isinstance(n.ctx, ast.Load):
            return self.table[n.id]
        return n


def _varies(r, syms):
    """is the formula r provably NOT a constant in the symbols: some partial derivative is provably non-zero (sympy's own zero
    test) -> True / None"""
    for s_ in syms:
        if s_ in getattr(r, "free_symbols", set()):
            try:
                if sp.diff(r, s_).equals(0) is False:
                    return True
            except Exception:
                pass
    return None


def integrand_info(chk):
    """value returned by each norm method, as a formula of the field f = a + i b, the weights w = self._factor1 and the volume factor
    F2 = self._factor2 -> {cls: info}; no obligation is recorded here (constructor and method are decided together)"""
    from ..resolve import inline_locals, expand
    from ..npsym import SUMR
    a_, b_ = sp.symbols("a b", real=True)
    w, F2 = sp.Symbol("w", positive=True), sp.Symbol("F2", positive=True)
    f_ = a_ + sp.I * b_
    want_i = {"l2": (a_ ** 2 + b_ ** 2) * w, "l1": sp.Abs(a_) * w, "nParticles": a_ * w, "KineticEnergy": a_ * w}
    out = {}
    for rel, cls, meth in CLASSES:
        m = chk.func(rel, f"{cls}.{meth}")
        q = f"{cls}.{meth}"
        info = {"rel": rel, "q": q, "node": m, "c": None, "why": None, "oki": None, "oka": None, "got": None, "want": want_i[cls]}
        out[cls] = info
        if len(m.args.args) != 2:
            info["why"] = "signature changed"
            continue
        arg = m.args.args[1].arg
        rets = [n for n in ast.walk(m) if isinstance(n, ast.Return) and n.value is not None]
        if len(rets) != 1:
            info["why"] = f"{len(rets)} return statements: not recognised"
            continue
        info["node"] = rets[0]
        env_m = _straight_line_env(m, inline_locals(m))
        e0 = expand(rets[0].value, env_m)
        outs = _out_stores(m, env_m) if rets[0] in m.body else {}
        if outs:
            import copy as _copy
            e0 = _SubstSrc(outs).visit(_copy.deepcopy(e0))
        e = _Methods2Calls().visit(e0)
        ast.fix_missing_locations(e)
        n_ = NpSym(env={"real": lambda z: sp.re(sp.expand(z)), "imag": lambda z: sp.im(sp.expand(z)), "conj": lambda z: sp.conjugate(z),
                        "conjugate": lambda z: sp.conjugate(z), "abs": lambda z: sp.Abs(z), "absolute": lambda z: sp.Abs(z)},
                   hooks={f"{arg}._f": f_, "self._factor1": w, "self._factor2": F2, f"{arg}.getAllData()": f_})
        try:
            got = n_.ev(e)
        except Undecided as ex:
            info["why"] = f"returned value outside the extractable fragment: {ex}"
            got = None
        info["got"] = got
        if got is not None:
            sums = list(got.atoms(SUMR)) if hasattr(got, "atoms") else []
            # several sums / sums along single axes: not compared
            if len(sums) == 1 and str(sums[0].args[1]) == "axisall":
                inner = sp.simplify(sp.expand(sums[0].args[0]))
                rest = sp.simplify(got / sums[0])
                c1 = _const_ratio(inner, sp.expand(want_i[cls]))
                c2 = _const_ratio(rest, F2)
                if c1 is not None and c2 is not None:
                    info["c"] = sp.simplify(c1 * c2)
                    info["oki"] = True if info["c"] == 1 else "scaled"
                else:
                    # AUDIT: "the method returns another formula" = the summand is provably not a constant multiple of the documented
                    # integrand (its ratio to it provably varies with the field or the weights), or what multiplies the sum is a
                    # formula of F2 alone that is not a constant multiple of F2; otherwise not decided
                    r1 = sp.simplify(inner / sp.expand(want_i[cls])) if c1 is None else None
                    r2 = sp.simplify(rest / F2) if c2 is None else None
                    diff1 = r1 is not None and inner.free_symbols <= {a_, b_, w} and _varies(r1, (a_, b_, w))
                    diff2 = r2 is not None and rest.free_symbols <= {F2} and _varies(r2, (F2,))
                    info["oki"] = False if (diff1 or diff2) else None
        # refused in any layout other than the one the weights were built for
        cmp_ = [n for n in ast.walk(m) if isinstance(n, ast.Compare) and len(n.ops) == 1 and
                {src(n.left), src(n.comparators[0])} == {"self._layout", f"{arg}.currentLayout"}]
        # any other test that speaks of a layout (another attribute, a helper, a name comparison): not recognised, not an alarm
        mentions = any(isinstance(n, (ast.Assert, ast.If, ast.Raise)) and "layout" in src(n.test if not isinstance(n, ast.Raise) else n).lower()
                       for n in ast.walk(m)) or any(isinstance(n, ast.Attribute) and src(n) == "self._layout" for n in ast.walk(m)) or \
            any(isinstance(n, ast.Call) and isinstance(n.func, ast.Attribute) and src(n.func.value) == "self" for n in ast.walk(m)) or \
            bool(m.decorator_list)
        if not mentions:
            # caller + callee: the test may have moved to the callers (the collector checks the layouts before it calls the norms)
            try:
                colf = chk.mod(U.DIAG).func("DiagnosticCollector.collect")
                mentions = any(isinstance(n, (ast.Assert, ast.If, ast.Raise)) and "layout" in src(n).lower() for n in ast.walk(colf))
            except Exception:
                mentions = True
        # AUDIT: "no longer refuses another layout" = neither the method (directly, through a helper of the class or a decorator)
        # nor the collector's collect tests anything that speaks of a layout
        info["oka"] = True if any(isinstance(parent(c), (ast.Assert, ast.If)) for c in cmp_) else (None if mentions else False)
    return out


def integrands_emit(chk, info, scales):
    text = {"l2": "|f|^2", "l1": "|Re f|", "nParticles": "Re f", "KineticEnergy": "Re f"}
    for rel, cls, meth in CLASSES:
        i = info[cls]
        q = i["q"]
        if i["got"] is None:
            chk.ob("F9-integrand", i["node"], q, None, i["why"] or "returned value not recognised", file=rel, func=q)
            continue
        oki, oka, c, got = i["oki"], i["oka"], i["c"], i["got"]
        Ks = scales.get(cls) or []
        if oki == "scaled":
            # the documented formula times the constant c: constructor and method are one unit
            if Ks and all(k is not None for k in Ks):
                if all(sp.simplify(k * c - 1) == 0 for k in Ks):
                    oki, note = True, f" (the method applies the constant {c}, the constructor its inverse: the product is the documented weight)"
                elif all(sp.simplify(k - 1) == 0 for k in Ks):
                    oki, note = False, ""
                else:
                    oki, note = None, ""
            else:
                oki, note = None, ""
        else:
            note = ""
        ok = False if (oki is False or oka is False) else None if (oki is None or oka is None) else True
        if ok:
            why = text[cls] + " x local weights, summed, x volume factor; refused in any layout other than the one the weights were built for" + note
        elif oki is False:
            why = (f"the method returns {got} (f = a + i b, w the weight array, F2 the volume factor); the diagnostic is sum({i['want']}) * F2" +
                   (f": the constant {c} is not compensated by the constructor, whose weights and volume factor are the documented ones" if c is not None else ""))
        elif oka is False:
            why = ("neither the method nor the collector that calls it compares the layout of the grid with the layout the weights were "
                   "built for: in any other layout the weights are applied to the wrong axes (or broadcast)")
        elif c is not None and c != 1:
            why = (f"the method returns {got}: the documented formula times {c}; whether the constructor compensates the constant was not "
                   "established (see the obligations on the constructor)")
        else:
            why = f"returned value {got} / layout test not recognised"
        chk.ob("F9-integrand", i["node"], q, ok, why, file=rel, func=q)


_NP_VIEW_FUNCS = {"reshape", "ravel", "transpose", "squeeze", "swapaxes", "moveaxis", "rollaxis", "expand_dims", "atleast_1d", "atleast_2d",
                  "atleast_3d", "broadcast_to", "asarray", "asanyarray", "ascontiguousarray", "real", "imag", "diagonal", "flip", "flipud",
                  "fliplr", "rot90", "split", "array_split", "hsplit", "vsplit", "lib.stride_tricks.as_strided", "lib.stride_tricks.sliding_window_view"}
_VIEW_METHODS = {"reshape", "ravel", "transpose", "view", "squeeze", "swapaxes", "diagonal"}


def unfollowed_view_writes(fn, shared_pred, covered=()):
    """Complement of lints.shared_state_mutations for the forms that engine does not look at (it answers neither 'finding' nor
    'undecided' for them): a name bound to a FUNCTIONAL view of shared state (`np.reshape(X, ..)`, `np.ravel(X)`, ...) that is then
    stored through, and ufunc / numpy calls that receive shared state or a reference to it as `out=`.
    -> [(node, description)]: possible writes into the shared object, never established here (the caller reports them UNDECIDED).
    `covered`: statements the engine already gave a verdict for.  References are followed flow-insensitively (any binding of the name
    counts): an over-approximation, which is sound for an UNDECIDED verdict."""
    refs: dict[str, str] = {}

    def refers(e, functional=False):
        """(shared expression this is a reference to or None, passed through a functional view form)"""
        if isinstance(e, ast.Name):
            if e.id in refs:
                return refs[e.id], functional or e.id in via_func
            return (e.id, functional) if shared_pred(e.id) else (None, False)
        if isinstance(e, (ast.Attribute, ast.Subscript)) and shared_pred(src(e)):
            return src(e), functional
        if isinstance(e, ast.Subscript):
            return refers(e.value, functional)
        if isinstance(e, ast.Attribute) and e.attr in ("T", "real", "imag", "flat"):
            return refers(e.value, functional)
        if isinstance(e, ast.Call) and isinstance(e.func, ast.Attribute):
            f_ = src(e.func)
            if f_.split(".")[0] in ("np", "numpy") and f_.split(".", 1)[-1] in _NP_VIEW_FUNCS and e.args:
                return refers(e.args[0], True)
            if e.func.attr in _VIEW_METHODS and f_.split(".")[0] not in ("np", "numpy"):
                return refers(e.func.value, functional)
        return None, False

    via_func: set[str] = set()
    for _ in range(3):
        for st in ast.walk(fn):
            if isinstance(st, ast.Assign) and len(st.targets) == 1 and isinstance(st.targets[0], ast.Name):
                r, fu = refers(st.value)
                if r is not None:
                    refs[st.targets[0].id] = r
                    if fu:
                        via_func.add(st.targets[0].id)
    out = []
    for st in ast.walk(fn):
        if any(st is c for c in covered):
            continue
        if isinstance(st, (ast.Assign, ast.AugAssign)):
            for t in (st.targets if isinstance(st, ast.Assign) else [st.target]):
                base = t.value if isinstance(t, ast.Subscript) else t if isinstance(st, ast.AugAssign) else None
                if base is None:
                    continue
                r, fu = refers(base)
                if r is not None and fu:
                    out.append((st, f"`{src(st)[:50]}` stores through `{src(base)[:40]}`, obtained from the shared `{r}` by a numpy "
                                    "function that returns a view when it can"))
        elif isinstance(st, ast.Call):
            for k in st.keywords:
                if k.arg == "out":
                    for e in (k.value.elts if isinstance(k.value, (ast.Tuple, ast.List)) else [k.value]):
                        r, _fu = refers(e)
                        if r is not None:
                            out.append((st, f"`{src(st)[:50]}` writes its result into `{src(e)[:40]}`, a reference to the shared `{r}`"))
    return out


def _arith_inplace_on_slice(node, why):
    """The engine left open whether a SLICE is a view (array) or a copy (list): the only assumption missing, by its reason text.
    AUDIT: `name -= v` (also /=, //=, **=, %=) on a name bound to a slice: list / tuple / str slices have no such operator (TypeError), a
    number cannot be sliced, so wherever the statement completes the sliced object is a numpy array and the slice a view of it,
    updated in place.  (`+=` and `*=` exist for lists: not decided here.)"""
    return isinstance(node, ast.AugAssign) and isinstance(node.target, ast.Name) and \
        isinstance(node.op, (ast.Sub, ast.Div, ast.FloorDiv, ast.Pow, ast.Mod)) and \
        ("a view when the element is an array, a copy when it is a list" in why or "is a slice: a view for an array, a copy for a list" in why)


def coordinates_read_only(chk):
    """the constructors (and the helpers that receive eta_grid) only read the coordinate arrays, which every object shares"""
    from .. import lints
    seen = 0
    for rel in (U.NORMS, U.ENERGY):
        mod = chk.mod(rel)
        for q, fn in mod.functions().items():
            if not any(a.arg == "eta_grid" for a in fn.args.args):
                continue
            seen += 1
            muts = lints.shared_state_mutations(fn, lambda s_: s_ == "eta_grid" or s_.startswith("eta_grid["))
            chk.ob("G2-coordinates-read-only", muts[0][0] if muts else fn, f"{q}: eta_grid", not muts,
                   "the coordinate arrays are only read (views are not written through)" if not muts else
                   "; ".join(d for _, d in muts)[:300] + " - eta_grid is shared by the grid and by every object built from it: all "
                   "of them see the modified coordinates afterwards", file=rel, func=q)
            # possible writes the engine could not establish (alias liveness / view-or-copy not followed): undecided, not HOLDS
            for node, desc, why in getattr(muts, "undecided", ()):
                okm, whym = None, f"{desc}: not established ({why})"
                if _arith_inplace_on_slice(node, why):
                    okm = False
                    whym = (f"{desc}: `{src(node)[:50]}` updates a slice in place with an operator that lists, tuples and strings do not "
                            "have, so the slice is one of a numpy array: a view - eta_grid is shared by the grid and by every object built "
                            "from it: all of them see the modified coordinates afterwards")
                chk.ob("G2-coordinates-read-only", node, f"{q}: eta_grid: {desc}"[:160], okm, whym, file=rel, func=q)
            done = [m[0] for m in muts] + [m[0] for m in getattr(muts, "undecided", ())]
            for node, desc in unfollowed_view_writes(fn, lambda s_: s_ == "eta_grid" or s_.startswith("eta_grid["), done):
                chk.ob("G2-coordinates-read-only", node, f"{q}: eta_grid: {desc}"[:160], None,
                       f"{desc}: whether the coordinate arrays are modified is not followed", file=rel, func=q)


# ---------------------------------------------------------------------------------------------------------------------
# DiagnosticCollector: rows, reductions, square roots, printed columns (three-valued, by structure)
# ---------------------------------------------------------------------------------------------------------------------
# row -> (class of the norm object, method, grid the object is built on, layout it is built for, grid handed to the method)
ROW_SPEC = {1: ("l2", "l2NormSquared", "phi", "v_parallel_2d", "phi"), 2: ("l2", "l2NormSquared", "distribFunc", "v_parallel", "f"),
            3: ("l1", "l1Norm", "distribFunc", "v_parallel", "f"), 4: ("nParticles", "getN", "distribFunc", "v_parallel", "f"),
            7: ("KineticEnergy", "getKE", "distribFunc", "v_parallel", "f")}
ROW_NAME = {0: "time", 1: "squared L2 norm of phi", 2: "squared L2 norm of f", 3: "L1 norm of f", 4: "number of particles",
            5: "minimum of f", 6: "maximum of f", 7: "kinetic energy"}
ROW_OP = {1: "MPI.SUM", 2: "MPI.SUM", 3: "MPI.SUM", 4: "MPI.SUM", 5: "MPI.MIN", 6: "MPI.MAX", 7: "MPI.SUM"}


def _single_def(fn, name):
    d = [n for n in ast.walk(fn) if isinstance(n, ast.Assign) and len(n.targets) == 1 and isinstance(n.targets[0], ast.Name)
         and n.targets[0].id == name]
    return d[0].value if len(d) == 1 else None


def _local_value(fn, name):
    """the expression a local is bound to when it is bound exactly once in fn: `x = e`, or `x, y = e1, e2` (element-wise)"""
    stores = [n for n in ast.walk(fn) if isinstance(n, ast.Name) and n.id == name and isinstance(n.ctx, ast.Store)]
    if len(stores) != 1 or name in {a.arg for a in fn.args.args}:
        return None
    for n in ast.walk(fn):
        if isinstance(n, ast.Assign) and len(n.targets) == 1:
            t = n.targets[0]
            if isinstance(t, ast.Name) and t.id == name:
                return n.value
            if isinstance(t, (ast.Tuple, ast.List)) and isinstance(n.value, (ast.Tuple, ast.List)) and len(t.elts) == len(n.value.elts) and \
                    not any(isinstance(x, ast.Starred) for x in list(t.elts) + list(n.value.elts)):
                for x, y in zip(t.elts, n.value.elts):
                    if isinstance(x, ast.Name) and x.id == name:
                        return y
    return None


def _row_writes(col, table="self.diagnostics"):
    """{row: (slot source, value node)} for `table[K, slot] = v` with a constant K and for loops
    `for row, v in enumerate(<tuple>)` / `for row, v in ((K, v), ...)` writing `table[row, slot] = v`; None when a row index
    is computed some other way"""
    class _Rows(dict):
        pass
    rows = _Rows()
    rows.slot_nodes = {}

    def put(k, slot, val):
        rows.slot_nodes.setdefault(src(slot), slot)
        if k in rows:
            rows[k] = (rows[k][0], rows[k][1], True)
        else:
            rows[k] = (src(slot), val, False)

    def full(x):
        return isinstance(x, ast.Slice) and x.lower is None and x.upper is None and x.step is None

    # views of the table bound to a local once: `c = table[:, slot]` (the column of one slot), `r = table[K]` / `table[K, :]` (a row)
    views, accounted = {}, set()
    for n in ast.walk(col):
        if isinstance(n, ast.Assign) and len(n.targets) == 1 and isinstance(n.targets[0], ast.Name) and \
                isinstance(n.value, ast.Subscript) and src(n.value.value) == table:
            nm = n.targets[0].id
            stores_nm = [x for x in ast.walk(col) if isinstance(x, ast.Name) and x.id == nm and isinstance(x.ctx, ast.Store)]
            sl = n.value.slice
            if len(stores_nm) != 1:
                return None
            if isinstance(sl, ast.Tuple) and len(sl.elts) == 2 and full(sl.elts[0]) and not isinstance(sl.elts[1], ast.Slice):
                views[nm] = ("col", sl.elts[1])
            elif isinstance(sl, ast.Constant) and isinstance(sl.value, int):
                views[nm] = ("row", sl)
            elif isinstance(sl, ast.Tuple) and len(sl.elts) == 2 and isinstance(sl.elts[0], ast.Constant) and full(sl.elts[1]):
                views[nm] = ("row", sl.elts[0])
            else:
                return None
            accounted.add(id(n.value.value))
            # every other use of the view must be a store through it
            for x in ast.walk(col):
                if isinstance(x, ast.Name) and x.id == nm and isinstance(x.ctx, ast.Load):
                    px = parent(x)
                    if not (isinstance(px, ast.Subscript) and px.value is x and isinstance(px.ctx, ast.Store)):
                        return None

    for n in ast.walk(col):
        if not (isinstance(n, ast.Assign) and len(n.targets) == 1 and isinstance(n.targets[0], ast.Subscript)):
            continue
        tv = n.targets[0].value
        if isinstance(tv, ast.Name) and tv.id in views:
            kind, fixed = views[tv.id]
            other = n.targets[0].slice
            if isinstance(other, (ast.Slice, ast.Tuple)):
                return None
            sl = ast.Tuple(elts=[other, fixed] if kind == "col" else [fixed, other], ctx=ast.Load())
        elif src(tv) == table:
            accounted.add(id(tv))
            sl = n.targets[0].slice
        else:
            continue
        if not (isinstance(sl, ast.Tuple) and len(sl.elts) == 2):
            return None
        k, slot = sl.elts
        if full(k) and not isinstance(slot, ast.Slice):
            # the whole column of the slot at once: table[:, slot] = (v0, v1, ...)
            seq = n.value
            if isinstance(seq, ast.Call) and src(seq.func) in ("np.array", "np.asarray", "tuple", "list") and len(seq.args) == 1:
                seq = seq.args[0]
            if isinstance(seq, ast.Name):
                seq = _single_def(col, seq.id)
            if not isinstance(seq, (ast.Tuple, ast.List)) or any(isinstance(x, ast.Starred) for x in seq.elts):
                return None
            for j, v in enumerate(seq.elts):
                put(j, slot, v)
            continue
        if isinstance(k, ast.Constant) and isinstance(k.value, int):
            put(k.value, slot, n.value)
            continue
        loop = parent(n)
        if not (isinstance(k, ast.Name) and isinstance(n.value, ast.Name) and isinstance(loop, ast.For) and len(loop.body) == 1
                and isinstance(loop.target, ast.Tuple) and [src(x) for x in loop.target.elts] == [k.id, n.value.id]):
            return None
        it = loop.iter
        start = 0
        if isinstance(it, ast.Call) and src(it.func) == "enumerate" and it.args:
            if len(it.args) > 1 or it.keywords:
                st_ = it.args[1] if len(it.args) > 1 else it.keywords[0].value
                if not (isinstance(st_, ast.Constant) and isinstance(st_.value, int)):
                    return None
                start = st_.value
            seq = it.args[0]
            if isinstance(seq, ast.Name):
                seq = _single_def(col, seq.id)
            if not isinstance(seq, (ast.Tuple, ast.List)) or any(isinstance(x, ast.Starred) for x in seq.elts):
                return None
            for j, v in enumerate(seq.elts):
                put(start + j, slot, v)
            continue
        if isinstance(it, ast.Name):
            it = _single_def(col, it.id)
        if isinstance(it, (ast.Tuple, ast.List)) and all(isinstance(x, (ast.Tuple, ast.List)) and len(x.elts) == 2 and
                                                           isinstance(x.elts[0], ast.Constant) for x in it.elts):
            for x in it.elts:
                put(x.elts[0].value, slot, x.elts[1])
            continue
        return None
    # the table is used in some way that is not a recognised store (passed to a call, aliased, sliced): rows may be written there
    for x in ast.walk(col):
        if isinstance(x, ast.Attribute) and src(x) == table and id(x) not in accounted:
            return None
    return rows


def _table_rows(fn, it, depth=0):
    """rows of a loop over a table written out in the source (directly or through a local assigned once): list/tuple display, dict
    display and its items()/keys()/values(), enumerate / zip of such tables -> list of row nodes, or None"""
    if depth > 4:
        return None
    if isinstance(it, ast.Name):
        v = _single_def(fn, it.id)
        return _table_rows(fn, v, depth + 1) if v is not None else None
    if isinstance(it, ast.Attribute) and isinstance(parent(fn), ast.ClassDef) and \
            src(it.value) in ("self", "cls", "type(self)", "self.__class__", parent(fn).name):
        # a table kept by the class: assigned once, in the class body or through self in one of its methods
        cls_ = parent(fn)
        defs = [st.value for st in cls_.body if isinstance(st, ast.Assign) and any(isinstance(t, ast.Name) and t.id == it.attr for t in st.targets)]
        defs += [n.value for n in ast.walk(cls_) if isinstance(n, ast.Assign) and any(isinstance(t, ast.Attribute) and t.attr == it.attr and
                                                                                      src(t.value) in ("self", "cls") for t in n.targets)]
        others = [n for n in ast.walk(cls_) if isinstance(n, (ast.AugAssign, ast.AnnAssign)) and src(n.target).endswith("." + it.attr)]
        mut = [n for n in ast.walk(cls_) if isinstance(n, ast.Call) and isinstance(n.func, ast.Attribute) and
               n.func.attr in ("append", "extend", "insert", "pop", "remove", "update", "clear", "sort", "reverse") and
               isinstance(n.func.value, ast.Attribute) and n.func.value.attr == it.attr]
        if len(defs) == 1 and not others and not mut:
            rows_ = _table_rows(fn, defs[0], depth + 1)
            # a table built by a method holds the OBJECTS its entries named when that method ran: the attribute reads in it are marked
            # with the method (binding time), for the rules that compare them with the attribute read later
            m_ = parent(defs[0])
            while m_ is not None and not isinstance(m_, (ast.FunctionDef, ast.ClassDef)):
                m_ = parent(m_)
            if rows_ is not None and isinstance(m_, ast.FunctionDef):
                for r_ in rows_:
                    for x in ast.walk(r_):
                        if isinstance(x, ast.Attribute) and isinstance(x.value, ast.Name) and x.value.id == "self":
                            x._captured_in, x._captured_table = m_.name, src(it)
            return rows_
        return None
    if isinstance(it, (ast.Tuple, ast.List)):
        return None if any(isinstance(x, ast.Starred) for x in it.elts) else list(it.elts)
    if isinstance(it, ast.Dict):
        return None if any(k is None for k in it.keys) else list(it.keys)
    if isinstance(it, ast.Call) and isinstance(it.func, ast.Attribute) and it.func.attr in ("items", "keys", "values") and not it.args:
        d = it.func.value
        if isinstance(d, ast.Name):
            d = _single_def(fn, d.id)
        if isinstance(d, ast.Dict) and not any(k is None for k in d.keys):
            if it.func.attr == "items":
                return [ast.Tuple(elts=[k, v], ctx=ast.Load()) for k, v in zip(d.keys, d.values)]
            return list(d.keys if it.func.attr == "keys" else d.values)
        return None
    if isinstance(it, ast.Call) and isinstance(it.func, ast.Name):
        if it.func.id == "enumerate" and it.args:
            rows = _table_rows(fn, it.args[0], depth + 1)
            st = it.args[1] if len(it.args) > 1 else next((k.value for k in it.keywords if k.arg == "start"), ast.Constant(value=0))
            if rows is None or not (isinstance(st, ast.Constant) and isinstance(st.value, int)):
                return None
            return [ast.Tuple(elts=[ast.Constant(value=st.value + i), r], ctx=ast.Load()) for i, r in enumerate(rows)]
        if it.func.id == "zip" and it.args and not it.keywords:
            cols = [_table_rows(fn, a, depth + 1) for a in it.args]
            if any(c is None for c in cols) or len({len(c) for c in cols}) != 1:
                return None
            return [ast.Tuple(elts=list(r), ctx=ast.Load()) for r in zip(*cols)]
        if it.func.id in ("list", "tuple") and len(it.args) == 1:
            return _table_rows(fn, it.args[0], depth + 1)
        if it.func.id == "range" and 1 <= len(it.args) <= 2 and all(isinstance(a, ast.Constant) and isinstance(a.value, int) for a in it.args):
            lo, hi = (0, it.args[0].value) if len(it.args) == 1 else (it.args[0].value, it.args[1].value)
            return [ast.Constant(value=i) for i in range(lo, min(hi, lo + 64))]
    return None


def _loop_instances(fn, node):
    """the copies of `node` (an expression inside loops over tables written out in the source), one per pass, with the loop
    variables replaced by the entries of the row; [node] when it is in no loop; None when an enclosing loop is not such a table"""
    loops = []
    p_ = parent(node)
    while p_ is not None and p_ is not fn:
        if isinstance(p_, (ast.For, ast.While)):
            loops.append(p_)
        p_ = parent(p_)
    envs = [{}]
    for lp in reversed(loops):
        if not isinstance(lp, ast.For):
            return None
        new_envs = []
        for env in envs:
            rows = _table_rows(fn, _subst(lp.iter, env))
            if rows is None:
                return None
            for r in rows:
                e2 = dict(env)

                def go(t, n):
                    if isinstance(t, ast.Name):
                        e2[t.id] = n
                        return True
                    if isinstance(t, (ast.Tuple, ast.List)) and isinstance(n, (ast.Tuple, ast.List)) and len(t.elts) == len(n.elts):
                        return all(go(a, b) for a, b in zip(t.elts, n.elts))
                    return False
                if not go(lp.target, r):
                    return None
                new_envs.append(e2)
        envs = new_envs
        if len(envs) > 64:
            return None
    return [(_subst(node, env) if env else node) for env in envs]


def _range_text(n):
    """canonical text of a slot range: ':' for everything, 'a:b' with an omitted lower bound written 0"""
    if n is None:
        return ":"
    if isinstance(n, ast.Constant) and n.value is Ellipsis:
        return ":"
    if isinstance(n, ast.Slice):
        if n.step is not None and src(n.step) != "1":
            return src(n)
        lo = src(n.lower) if n.lower is not None else "0"
        hi = src(n.upper) if n.upper is not None else ""
        # every array of the collector has saveStep slots (read off the allocations: rule `diagnostics table: rows x slots`)
        if hi in ("self.saveStep", "saveStep"):
            hi = ""
        return ":" if (lo == "0" and hi == "") else f"{lo}:{hi}"
    return src(n)


def _ctor_table(init):
    """attribute -> (class name, grid the eta_grid comes from, layout name) for `self.A = Cls(G.eta_grid, G.getLayout('name'))`"""
    out = {}
    for n in ast.walk(init):
        if isinstance(n, ast.Assign) and len(n.targets) == 1 and isinstance(n.targets[0], ast.Attribute) and \
                src(n.targets[0].value) == "self" and isinstance(n.value, ast.Call) and isinstance(n.value.func, ast.Name):
            b = n.value
            args = list(b.args) + [k.value for k in b.keywords]
            kw = {k.arg: k.value for k in b.keywords}
            eg = kw.get("eta_grid", b.args[0] if b.args else None)
            ly = kw.get("layout", b.args[1] if len(b.args) > 1 else None)
            if len(args) != 2 or eg is None or ly is None:
                continue
            # temporaries: eta = G.eta_grid ; lay = G.getLayout('name') ; name = 'v_parallel'
            for _ in range(3):
                if isinstance(eg, ast.Name) and _single_def(init, eg.id) is not None:
                    eg = _single_def(init, eg.id)
                if isinstance(ly, ast.Name) and _single_def(init, ly.id) is not None:
                    ly = _single_def(init, ly.id)
            if isinstance(ly, ast.Call) and isinstance(ly.func, ast.Attribute) and ly.func.attr == "getLayout" and len(ly.args) == 1 \
                    and isinstance(ly.args[0], ast.Name) and isinstance(_single_def(init, ly.args[0].id), ast.Constant):
                ly = ast.Call(func=ly.func, args=[_single_def(init, ly.args[0].id)], keywords=[])
            g = src(eg.value) if isinstance(eg, ast.Attribute) and eg.attr == "eta_grid" else None
            lname, lg = None, None
            if isinstance(ly, ast.Call) and isinstance(ly.func, ast.Attribute) and ly.func.attr == "getLayout" and len(ly.args) == 1 \
                    and isinstance(ly.args[0], ast.Constant):
                lname, lg = ly.args[0].value, src(ly.func.value)
            out[n.targets[0].attr] = (b.func.id, g, lname, lg, n)
    return out


def fold_named_ints(mod):
    """small integers kept under a name are read as the integers: members of a module-level IntEnum class (`Row.L2_PHI`, also
    `.value` / `int(...)` of them, `len(Row)`), module-level names bound once to an integer literal, and class attributes of the same
    kind read through the class name.  Def-use resolution on the in-memory tree of this run only -> list of the names folded"""
    tree = mod.tree
    enums, consts = {}, {}
    stores = {}
    for n in ast.walk(tree):
        if isinstance(n, ast.Name) and isinstance(n.ctx, (ast.Store, ast.Del)):
            stores[n.id] = stores.get(n.id, 0) + 1
        elif isinstance(n, (ast.FunctionDef, ast.ClassDef)):
            stores[n.name] = stores.get(n.name, 0) + 1
        elif isinstance(n, ast.arg):
            stores[n.arg] = stores.get(n.arg, 0) + 1
    for st in tree.body:
        if isinstance(st, ast.ClassDef) and any(src(b).split(".")[-1] in ("IntEnum", "IntFlag") for b in st.bases) and stores.get(st.name) == 1:
            members, nxt, ok = {}, None, True
            for b in st.body:
                if isinstance(b, ast.Assign) and len(b.targets) == 1 and isinstance(b.targets[0], ast.Name):
                    v = b.value
                    if isinstance(v, ast.Constant) and type(v.value) is int:
                        members[b.targets[0].id] = v.value
                    elif isinstance(v, ast.Call) and src(v.func).split(".")[-1] == "auto" and not v.args:
                        members[b.targets[0].id] = (max(members.values()) + 1) if members else 1
                    else:
                        ok = False
                elif not (isinstance(b, ast.Expr) and isinstance(b.value, ast.Constant)) and not isinstance(b, ast.Pass):
                    ok = False
            if ok and members and len(set(members.values())) == len(members):
                enums[st.name] = members
        elif isinstance(st, ast.Assign) and len(st.targets) == 1 and isinstance(st.targets[0], ast.Name) and \
                isinstance(st.value, ast.Constant) and type(st.value.value) is int and stores.get(st.targets[0].id) == 1:
            consts[st.targets[0].id] = st.value.value
    if not enums and not consts:
        return []
    used = set()

    class Fold(ast.NodeTransformer):
        def visit_ClassDef(self, n):
            return n if n.name in enums else self.generic_visit(n)

        def visit_Attribute(self, n):
            n = self.generic_visit(n)
            if isinstance(n, ast.Attribute) and isinstance(n.value, ast.Name) and n.value.id in enums and n.attr in enums[n.value.id] \
                    and isinstance(n.ctx, ast.Load):
                used.add(f"{n.value.id}.{n.attr}")
                c_ = ast.copy_location(ast.Constant(value=enums[n.value.id][n.attr]), n)
                c_._from_enum = True
                return c_
            if isinstance(n, ast.Attribute) and n.attr == "value" and isinstance(n.value, ast.Constant) and type(n.value.value) is int \
                    and getattr(n.value, "_from_enum", False):
                return n.value
            return n

        def visit_Call(self, n):
            n = self.generic_visit(n)
            if isinstance(n.func, ast.Name) and n.func.id == "len" and len(n.args) == 1 and isinstance(n.args[0], ast.Name) and \
                    n.args[0].id in enums:
                used.add(f"len({n.args[0].id})")
                return ast.copy_location(ast.Constant(value=len(enums[n.args[0].id])), n)
            if isinstance(n.func, ast.Name) and n.func.id == "int" and len(n.args) == 1 and isinstance(n.args[0], ast.Constant) and \
                    type(n.args[0].value) is int:
                return n.args[0]
            return n

        def visit_Name(self, n):
            if isinstance(n.ctx, ast.Load) and n.id in consts:
                used.add(n.id)
                return ast.copy_location(ast.Constant(value=consts[n.id]), n)
            return n
    for st in tree.body:
        if isinstance(st, (ast.FunctionDef, ast.ClassDef)):
            Fold().visit(st)
    if used:
        ast.fix_missing_locations(tree)
        mod._link()
    return sorted(used)


def write_back_table_views(mod, cls_name, table="diagnostics"):
    """attributes the constructor binds ONCE to a view of the table - `self.V = self.T[k]` (one row) or `self.V = self.T[a:]` (the rows
    from a on) - and that no method re-binds are written back at their uses as the table itself: `self.V[j, s]` is `self.T[a + j, s]`,
    `self.V[j]` is `self.T[a + j, :]`, a row view `self.V[s]` is `self.T[k, s]`.  Basic slicing yields views, so stores through them
    reach the table.  Def-use resolution on the in-memory tree of this run only -> list of descriptions"""
    try:
        cls_ = mod.cls(cls_name)
    except Exception:
        return []
    init = next((st for st in cls_.body if isinstance(st, ast.FunctionDef) and st.name == "__init__"), None)
    if init is None:
        return []
    T = f"self.{table}"
    views = {}
    for n in ast.walk(init):
        if isinstance(n, ast.Assign) and len(n.targets) == 1 and isinstance(n.targets[0], ast.Attribute) and src(n.targets[0].value) == "self" \
                and isinstance(n.value, ast.Subscript) and src(n.value.value) == T:
            sl = n.value.slice
            if isinstance(sl, ast.Tuple) and len(sl.elts) == 2 and _range_text(sl.elts[1]) == ":":
                sl = sl.elts[0]
            if isinstance(sl, ast.Constant) and type(sl.value) is int and sl.value >= 0:
                views[n.targets[0].attr] = ("row", sl.value, n)
            elif isinstance(sl, ast.Slice) and sl.upper is None and sl.step is None and \
                    (sl.lower is None or (isinstance(sl.lower, ast.Constant) and type(sl.lower.value) is int and sl.lower.value >= 0)):
                views[n.targets[0].attr] = ("from", sl.lower.value if sl.lower is not None else 0, n)
    # bound once in the whole class (the table as well)
    for a_ in list(views) + [table]:
        nb = sum(1 for n in ast.walk(cls_) if isinstance(n, (ast.Assign, ast.AugAssign, ast.AnnAssign)) for t in
                 (n.targets if isinstance(n, ast.Assign) else [n.target]) for y in (t.elts if isinstance(t, (ast.Tuple, ast.List)) else [t])
                 if isinstance(y, ast.Attribute) and src(y.value) == "self" and y.attr == a_)
        if nb != 1:
            if a_ == table:
                return []
            views.pop(a_, None)
    if not views:
        return []
    done = set()

    def tab(ctx):
        return ast.Attribute(value=ast.Name(id="self", ctx=ast.Load()), attr=table, ctx=ast.Load())

    def shifted(k, a):
        if a == 0:
            return k
        if isinstance(k, ast.Constant) and type(k.value) is int and k.value >= 0:
            return ast.Constant(value=k.value + a)
        return ast.BinOp(left=k, op=ast.Add(), right=ast.Constant(value=a))

    class Back(ast.NodeTransformer):
        def __init__(self, local_alias):
            self.alias = local_alias

        def view_of(self, e):
            if isinstance(e, ast.Attribute) and src(e.value) == "self" and e.attr in views:
                return e.attr
            if isinstance(e, ast.Name) and e.id in self.alias:
                return self.alias[e.id]
            return None

        def visit_Subscript(self, n):
            v = self.view_of(n.value)
            if v is None:
                return self.generic_visit(n)
            kind, a, _ = views[v]
            sl = self.visit(n.slice) if not isinstance(n.slice, ast.Slice) else n.slice
            full = ast.Slice(lower=None, upper=None, step=None)
            if kind == "row":
                if isinstance(sl, ast.Tuple):
                    return self.generic_visit(n)
                new = ast.Tuple(elts=[ast.Constant(value=a), sl], ctx=ast.Load())
            else:
                if isinstance(sl, ast.Tuple) and len(sl.elts) == 2 and not isinstance(sl.elts[0], ast.Slice):
                    new = ast.Tuple(elts=[shifted(sl.elts[0], a), sl.elts[1]], ctx=ast.Load())
                elif not isinstance(sl, (ast.Tuple, ast.Slice)):
                    new = ast.Tuple(elts=[shifted(sl, a), full], ctx=ast.Load())
                else:
                    return self.generic_visit(n)
            done.add(v)
            return ast.copy_location(ast.Subscript(value=tab(n.ctx), slice=new, ctx=n.ctx), n)
    for m in [st for st in cls_.body if isinstance(st, ast.FunctionDef)]:
        # locals bound once to a view attribute: `local = self._local`
        alias = {}
        for n in ast.walk(m):
            if isinstance(n, ast.Assign) and len(n.targets) == 1 and isinstance(n.targets[0], ast.Name) and isinstance(n.value, ast.Attribute) \
                    and src(n.value.value) == "self" and n.value.attr in views and \
                    sum(1 for x in ast.walk(m) if isinstance(x, ast.Name) and x.id == n.targets[0].id and isinstance(x.ctx, ast.Store)) == 1:
                alias[n.targets[0].id] = n.value.attr
        bk = Back(alias)
        for i_, st in enumerate(m.body):
            if m is init and any(st is v_[2] for v_ in views.values()):
                continue
            m.body[i_] = bk.visit(st)
    if done:
        ast.fix_missing_locations(mod.tree)
        mod._link()
    return [f"self.{v} = {src(views[v][2].value)}" for v in sorted(done)]


# ---- number kinds of scalar expressions (is a value an integer or a float, whatever its magnitude): a two-point abstract domain
# with `unknown` on top.  Only constructs whose result kind follows from the kinds of the operands are modelled; everything else
# is unknown, at the point where it is met.
_INT, _FLT = "int", "float"
_INT_WORDS = {"int", "integer", "int64", "int32", "intp", "int_", "integral"}
_FLT_WORDS = {"float", "double", "real", "float64", "float32", "float_", "floating"}
_TYPE_NOISE = {"optional", "union", "none", "np", "numpy", "numbers", "typing", "or"}


def _kind_of_type_text(text):
    """'int' / 'float' for the text of an annotation or of a numpydoc type (`float`, `float, optional`, `Union[int, float]`):
    float as soon as a floating type is admitted, int when only integer types are, None for anything else"""
    import re
    words = {w.lower() for w in re.findall(r"[A-Za-z_][A-Za-z_0-9]*", text)} - _TYPE_NOISE
    if not words:
        return None
    if words & _FLT_WORDS and words <= (_FLT_WORDS | _INT_WORDS):
        return _FLT
    if words <= _INT_WORDS:
        return _INT
    return None


def _documented_kinds(fn):
    """parameter -> kind, from the annotation and from the numpydoc lines `name : type` of the docstring (a parameter documented
    float in either place may be a float); with the text the kind was read from"""
    import re
    out = {}
    doc = ast.get_docstring(fn, clean=True) or ""
    params = {a.arg for a in fn.args.args + fn.args.kwonlyargs}
    for m_ in re.finditer(r"^[ \t]*(\w+)[ \t]*:[ \t]*([^\n]+)$", doc, re.M):
        if m_.group(1) in params:
            k = _kind_of_type_text(m_.group(2))
            if k:
                out[m_.group(1)] = (k, f"documented `{m_.group(1)} : {m_.group(2).strip()}`")
    for a in fn.args.args + fn.args.kwonlyargs:
        if a.annotation is None:
            continue
        text = a.annotation.value if isinstance(a.annotation, ast.Constant) and isinstance(a.annotation.value, str) else src(a.annotation)
        k = _kind_of_type_text(text)
        if k is None:
            continue
        if a.arg not in out or k == _FLT or out[a.arg][0] != _FLT:
            out[a.arg] = (k, f"annotated `{a.arg}: {text}`")
    return out


class _Kinds:
    """kind (int / float / unknown) of scalar expressions of one method; `self.<a>` through every binding of the attribute in the
    class (evaluated in the method that binds it, with that method's documented parameter kinds)"""
    _TO_INT = {"int", "math.floor", "math.ceil", "math.trunc", "operator.index", "len", "np.int64", "np.int32", "np.intp", "np.int_",
               "numpy.int64", "numpy.intp", "np.int"}
    _TO_FLT = {"float", "np.float64", "numpy.float64", "np.floor", "np.ceil", "np.rint", "np.trunc", "np.fix", "np.sqrt", "math.sqrt",
               "numpy.floor", "numpy.ceil", "numpy.rint", "np.round", "np.around", "np.exp", "np.log", "math.exp", "math.log", "math.fmod"}

    def __init__(self, cls_node):
        self.cls = cls_node
        self._attr = {}
        self.leaves = []            # (text of the leaf, why it is a float) met while an expression was found to be a float
        self.local_leaves = {}      # local name -> the leaves of the value it was last assigned

    def attr(self, name, visiting=()):
        if name in self._attr:
            return self._attr[name]
        if self.cls is None or name in visiting:
            return None, ""
        kinds, why = set(), ""
        for m in [st for st in self.cls.body if isinstance(st, ast.FunctionDef)]:
            env = {p: kw[0] for p, kw in _documented_kinds(m).items()}
            whys = {p: kw[1] for p, kw in _documented_kinds(m).items()}
            for n in ast.walk(m):
                tg = n.targets if isinstance(n, ast.Assign) else [n.target] if isinstance(n, (ast.AugAssign, ast.AnnAssign)) else \
                    [n.target] if isinstance(n, (ast.For, ast.comprehension, ast.NamedExpr)) else \
                    [n.optional_vars] if isinstance(n, ast.withitem) and n.optional_vars is not None else []
                flat = [y for x in tg for y in ast.walk(x)]
                if not any(isinstance(y, ast.Attribute) and src(y.value) == "self" and y.attr == name and isinstance(y.ctx, ast.Store)
                           for y in flat):
                    continue
                if not (isinstance(n, ast.Assign) and len(n.targets) == 1 and isinstance(n.targets[0], ast.Attribute)):
                    kinds.add(None)             # bound by unpacking / updated in place / a loop target: not followed
                    continue
                # the value is read with the parameters of the binding method only: locals of that method are not followed here
                if isinstance(n.value, ast.Name) and n.value.id in env and \
                        sum(1 for x in ast.walk(m) if isinstance(x, ast.Name) and x.id == n.value.id and isinstance(x.ctx, ast.Store)) == 0:
                    kinds.add(env[n.value.id])
                    why = f"`{src(n)}` in {m.name}, {whys[n.value.id]}"
                elif isinstance(n.value, ast.Constant) and type(n.value.value) in (int, float):
                    kinds.add(_INT if type(n.value.value) is int else _FLT)
                    why = f"`{src(n)}` in {m.name}"
                elif isinstance(n.value, ast.Call) and src(n.value.func) in self._TO_INT:
                    kinds.add(_INT)
                    why = f"`{src(n)[:50]}` in {m.name}"
                else:
                    kinds.add(None)
        k = kinds.pop() if len(kinds) == 1 else None
        self._attr[name] = (k, why if k else "")
        return self._attr[name]

    def of(self, e, env, whys):
        """kind of expression e under the kinds `env` of the local names"""
        if isinstance(e, ast.Constant):
            if isinstance(e.value, bool) or type(e.value) is int:
                return _INT
            return _FLT if type(e.value) is float else None
        if isinstance(e, ast.Name):
            k = env.get(e.id)
            if k == _FLT and e.id in self.local_leaves:
                self.leaves.extend(self.local_leaves[e.id])        # a local: the float values it was computed from
            elif k == _FLT and e.id in whys:
                self.leaves.append((e.id, whys[e.id]))
            return k
        if isinstance(e, ast.Attribute):
            if isinstance(e.value, ast.Name) and e.value.id == "self":
                k, why = self.attr(e.attr)
                if k == _FLT:
                    self.leaves.append((src(e), why))
                return k
            if src(e) in ("np.pi", "math.pi", "np.e", "math.e", "np.inf", "math.inf"):
                return _FLT
            return None
        if isinstance(e, ast.UnaryOp):
            if isinstance(e.op, ast.Not):
                return _INT
            k = self.of(e.operand, env, whys)
            return k if isinstance(e.op, (ast.USub, ast.UAdd)) or k == _INT else None
        if isinstance(e, ast.BinOp):
            a, b = self.of(e.left, env, whys), self.of(e.right, env, whys)
            if isinstance(e.op, (ast.Add, ast.Sub, ast.Mult, ast.FloorDiv, ast.Mod)):
                # Python and numpy scalars alike: a float operand makes the result a float (7.0 // 2 == 3.0, 7.0 % 2 == 1.0)
                return _FLT if _FLT in (a, b) else _INT if (a, b) == (_INT, _INT) else None
            if isinstance(e.op, ast.Div):
                return _FLT if (_FLT in (a, b) or (a, b) == (_INT, _INT)) else None
            if isinstance(e.op, ast.Pow):
                if _FLT in (a, b):
                    return _FLT
                return _INT if (a, b) == (_INT, _INT) and isinstance(e.right, ast.Constant) and type(e.right.value) is int and \
                    e.right.value >= 0 else None
            if isinstance(e.op, (ast.BitAnd, ast.BitOr, ast.BitXor, ast.LShift, ast.RShift)):
                return _INT if (a, b) == (_INT, _INT) else None
            return None
        if isinstance(e, ast.Compare):
            return _INT                             # a truth value
        if isinstance(e, ast.IfExp):
            a, b = self.of(e.body, env, whys), self.of(e.orelse, env, whys)
            return a if a == b else None
        if isinstance(e, ast.Call):
            f = src(e.func)
            if f in self._TO_INT and not any(isinstance(a, ast.Starred) for a in e.args):
                return _INT
            if f in self._TO_FLT and e.args and not e.keywords:
                for a in e.args:
                    self.of(a, env, whys)        # (for the leaves)
                self.leaves.append((src(e)[:40], f"`{f}` returns a floating-point number, also for a whole value"))
                return _FLT
            if isinstance(e.func, ast.Attribute) and e.func.attr == "astype" and len(e.args) == 1 and \
                    _kind_of_type_text(src(e.args[0])) is not None:
                return _kind_of_type_text(src(e.args[0]))
            if f in ("abs", "min", "max") and e.args and not e.keywords and not any(isinstance(a, ast.Starred) for a in e.args):
                ks = {self.of(a, env, whys) for a in e.args}
                return ks.pop() if len(ks) == 1 else None
            return None
        return None


def _kinds_at_uses(fn, wanted, kinds, env, whys):
    """forward pass over the statements of fn with the kinds of the local names; -> {id(node): kind} for the expression nodes in
    `wanted` (ids), each evaluated with the kinds that hold where its statement stands.  Names assigned inside loops / try / with are
    unknown from there on; after an `if` a name keeps its kind only when both arms agree."""
    found = {}

    def look(nodes, env):
        for root in nodes:
            if root is None:
                continue
            for n in ast.walk(root):
                if id(n) in wanted and id(n) not in found:
                    kinds.leaves = []
                    found[id(n)] = (kinds.of(n, env, whys), list(dict.fromkeys(kinds.leaves)))

    def stored(st):
        return {n.id for n in ast.walk(st) if isinstance(n, ast.Name) and isinstance(n.ctx, ast.Store)}

    def block(stmts, env):
        for st in stmts:
            if isinstance(st, ast.If):
                look([st.test], env)
                e1, e2 = block(st.body, dict(env)), block(st.orelse, dict(env))
                env = {k: e1.get(k) for k in set(e1) | set(e2) if e1.get(k) == e2.get(k)}
                continue
            if isinstance(st, (ast.For, ast.While, ast.With, ast.Try)):
                look([getattr(st, "iter", None), getattr(st, "test", None)] + [i.context_expr for i in getattr(st, "items", [])], env)
                for nm in stored(st):
                    env[nm] = None
                for f_ in ("body", "orelse", "finalbody"):
                    block(getattr(st, f_, []) or [], dict(env))
                for h in getattr(st, "handlers", []):
                    block(h.body, dict(env))
                for nm in stored(st):
                    env[nm] = None
                continue
            if isinstance(st, (ast.FunctionDef, ast.ClassDef)):
                continue
            look([st], env)
            tname, val = None, None
            if isinstance(st, ast.Assign) and len(st.targets) == 1 and isinstance(st.targets[0], ast.Name):
                tname, val = st.targets[0].id, st.value
            elif isinstance(st, ast.AugAssign) and isinstance(st.target, ast.Name):
                tname, val = st.target.id, ast.BinOp(left=ast.Name(id=st.target.id, ctx=ast.Load()), op=st.op, right=st.value)
            elif isinstance(st, ast.AnnAssign) and isinstance(st.target, ast.Name) and st.value is not None:
                tname, val = st.target.id, st.value
            if tname is not None:
                kinds.leaves = []
                env[tname] = kinds.of(val, env, whys)
                kinds.local_leaves[tname] = list(dict.fromkeys(kinds.leaves))
            else:
                for nm in stored(st):
                    env[nm] = None
                    kinds.local_leaves.pop(nm, None)
        return env
    block(fn.body, dict(env))
    return found


def _step_with_tolerance(num, x):
    """is `num` the step number floor(x), x = t / dt, computed with a guard against rounding: floor(x * c) with 1 <= c <= 1 + 1e-6,
    floor(x + c) with 0 <= c <= 1/2, or x rounded to the nearest integer?  (x = k + O(1e-12) for a time accumulated as t += dt:
    all of these are k.)  -> description or None"""
    g = _step_guard(num, x)
    return g[0] if g and g[3] >= STEP_HORIZON else None


# Floating-point model of the step number.  A time accumulated as t += dt by n additions is t_n = n dt (1 + theta) with
# |theta| <= (n - 1) u, u = 2**-53 (a-priori bound of recursive summation, Higham, Accuracy and Stability, ch. 4), so the quotient
# x = fl(t_n / dt) satisfies |x - n| <= n**2 u.  A guard keeps floor(guarded x) == n as long as the guard covers this error from
# below and error + guard stay under 1 from above.  The bound is attained up to a modest factor: inside one binade every addition
# of the same dt rounds by the same amount (dt mod ulp), so the error of x drifts like rho n**2 u with rho fixed by the bits of dt.
_U = sp.Rational(1, 2 ** 53)
STEP_HORIZON = 10 ** 6      # declared horizon of the rule: the slot must be right for runs of up to 10**6 steps


def _step_guard(num, x):
    """-> (description, kind, size, N) for num = floor(x) [kind none], floor(x (1 + r)) [relative], floor(x + c) / round(x)
    [additive]; N = number of steps for which the a-priori bound guarantees the step number; None when num is none of these"""
    if not isinstance(num, sp.Basic):
        return None
    a = None
    if num.func == sp.floor and len(num.args) == 1:
        a = num.args[0]
    elif str(num.func) == "round" and len(num.args) == 1 and sp.simplify(num.args[0] - x) == 0:
        return ("round(t / dt)", "additive", sp.Rational(1, 2), int(sp.floor(sp.sqrt(sp.Rational(1, 2) / _U))))
    if a is None:
        return None
    if sp.simplify(a - x) == 0:
        return ("floor(t / dt)", "none", sp.Integer(0), 2)
    r = sp.simplify(a / x)
    if r.is_number and r.is_real and r > 1 and r < 2:
        r = sp.nsimplify(r - 1)
        n_low = r / _U
        n_up = sp.Min(1 / (2 * r), sp.sqrt(1 / (2 * _U)))
        return (f"floor(t / dt * (1 + {sp.N(r, 3)}))", "relative", r, int(sp.floor(sp.Min(n_low, n_up))))
    d = sp.simplify(a - x)
    if d.is_number and d.is_real and 0 < d <= sp.Rational(1, 2):
        n_low = sp.sqrt(d / _U)
        n_up = sp.sqrt((1 - d) / _U)
        return (f"floor(t / dt + {sp.N(d, 3)})", "additive", d, int(sp.floor(sp.Min(n_low, n_up))))
    return None


def _time_is_accumulated(chk, tname_hint=None):
    """does the driver hand collect a time that it advances by `t += step` in the loop around the call?  -> (True, where) /
    (None, why not established)"""
    try:
        tree = chk.mod(U.DRIVER).tree
    except Exception as ex:             # the driver is not part of every tree
        return None, f"driver not read ({ex})"
    calls = [c for c in ast.walk(tree) if isinstance(c, ast.Call) and isinstance(c.func, ast.Attribute) and c.func.attr == "collect"
             and len(c.args) == 3 and isinstance(c.args[2], ast.Name)]
    for lp in ast.walk(tree):
        if isinstance(lp, (ast.While, ast.For)):
            inside = [c for c in calls if any(c is y for y in ast.walk(lp))]
            for c in inside:
                for s_ in ast.walk(lp):
                    if isinstance(s_, ast.AugAssign) and isinstance(s_.op, ast.Add) and isinstance(s_.target, ast.Name) and \
                            s_.target.id == c.args[2].id:
                        return True, f"{U.DRIVER}:{s_.lineno} `{src(s_)}` in the loop around `{src(c)[:50]}`"
    return None, "no loop of the driver that advances the time by `t += step` around a call of collect was found"


def slot_index_integral(chk, col, init, rows, F, Q):
    """E6-slot-index-integral: the expression that subscripts the slot axis of the diagnostics table is an integer for every
    documented type of the arguments of collect: a `//` / `%` / `/` chain on a value documented or annotated float stays a float
    (Python and numpy scalars alike) and a float is not a valid index of a numpy array (IndexError), so such a chain must pass
    through int(...) (or an integer floor: math.floor) before it subscripts the table."""
    what = "collect: the slot index into self.diagnostics is an integer for every documented argument type"
    slot_nodes = getattr(rows, "slot_nodes", {}) if rows else {}
    alloc = [n for n in ast.walk(init) if isinstance(n, ast.Assign) and src(n.targets[0]) == "self.diagnostics"]
    is_np = len(alloc) == 1 and isinstance(alloc[0].value, ast.Call) and src(alloc[0].value.func) in \
        ("np.zeros", "np.empty", "np.ndarray", "np.full", "np.ones", "numpy.zeros", "numpy.empty")
    if not slot_nodes or not is_np:
        chk.ob("E6-slot-index-integral", col, what, None, "the stores of collect into the table (or the allocation of the table as a "
               "numpy array) were not recognised: the slot index was not found", file=F, func=Q + "collect")
        return
    cls_ = parent(col) if isinstance(parent(col), ast.ClassDef) else None
    kinds = _Kinds(cls_)
    doc = _documented_kinds(col)
    env = {p: k for p, (k, _) in doc.items()}
    whys = {p: w for p, (_, w) in doc.items()}
    # a parameter re-bound in the method is a local from there on: the forward pass sees the assignment
    found = _kinds_at_uses(col, {id(n) for n in slot_nodes.values()}, kinds, env, whys)
    res = [found.get(id(n), (None, [])) for n in slot_nodes.values()]
    from ..resolve import inline_locals, expand
    shown = "; ".join(f"`{s_}`" + (f" = `{src(expand(n, inline_locals(col)))[:70]}`" if isinstance(n, ast.Name) else "")
                      for s_, n in slot_nodes.items())
    # AUDIT: VIOLATED = (1) the expression IS the subscript of the slot axis in a store into the numpy table (found structurally by
    # _row_writes, allocation recognised as a numpy array); (2) its kind is `float` by the rules of _Kinds.of, every one of which is a
    # fact of Python / numpy scalar arithmetic (a construct that is not modelled gives `unknown`, never `float`); (3) the float
    # leaves are parameters documented / annotated float in collect itself, or attributes whose EVERY binding in the class is a
    # parameter documented float (or a float literal).  Anything else is UNDECIDED.
    if all(k == _INT for k, _ in res):
        chk.ob("E6-slot-index-integral", col, what, True, f"the slot index {shown} is an integer whatever the documented types of the "
               "arguments: the time / step chain passes through an integer conversion (or uses integers only) before it subscripts the table",
               file=F, func=Q + "collect")
    elif any(k == _FLT for k, _ in res):
        leaves = [l_ for k, ls in res if k == _FLT for l_ in ls]
        because = "; ".join(f"`{t_}` ({w_})" for t_, w_ in list(dict.fromkeys(leaves))[:3])
        chk.ob("E6-slot-index-integral", col, what, False,
               f"the slot index {shown} is a FLOAT for the documented argument types: {because}; `//`, `%` and `/` of a float give a float "
               "(7.0 // 2 == 3.0) and nothing converts the result to an integer before it subscripts the numpy table, so the first store "
               "`self.diagnostics[row, slot] = ...` raises IndexError (only integers and slices are valid indices).  Float floor "
               "division of an accumulated time also undershoots (0.7999999999999999 // 0.1 == 7.0): two steps can land in one slot",
               file=F, func=Q + "collect", facts={"slot": shown, "float_leaves": [t_ for t_, _ in leaves]})
    else:
        chk.ob("E6-slot-index-integral", col, what, None, f"whether the slot index {shown} is an integer was not established: the types of "
               "the values it is computed from are not documented (annotation / numpydoc) or it is computed with constructs whose "
               "result type is not modelled", file=F, func=Q + "collect")


def collector(chk):
    folded = fold_named_ints(chk.mod(U.DIAG))
    if folded:
        chk.note("named integers read as their values: " + ", ".join(folded[:12]))
    wb = write_back_table_views(chk.mod(U.DIAG), "DiagnosticCollector")
    if wb:
        chk.note("views of the table written back at their uses: " + "; ".join(wb))
    col = chk.func(U.DIAG, "DiagnosticCollector.collect")
    red = chk.func(U.DIAG, "DiagnosticCollector.reduce")
    gl = chk.func(U.DIAG, "DiagnosticCollector.getLine")
    init = chk.func(U.DIAG, "DiagnosticCollector.__init__")
    F, Q = U.DIAG, "DiagnosticCollector."
    ctors = _ctor_table(init)
    cargs = [a.arg for a in col.args.args]              # self, f, phi, t
    iargs = [a.arg for a in init.args.args]             # self, comm, saveStep, dt, distribFunc, phi
    role = {}
    if len(cargs) == 4:
        role = {cargs[1]: "f", cargs[2]: "phi", cargs[3]: "t"}
    irole = {}
    if len(iargs) == 6:
        irole = {iargs[4]: "distribFunc", iargs[5]: "phi"}
    # ---- rows written by collect.  The table is private to the collector: what matters is that every documented quantity is
    # written to ONE row, that this row is reduced with the operation of the quantity into its own result array, and that getLine
    # prints the result arrays in the documented order.  Which row a quantity lives in is a convention between collect, reduce and
    # getLine: the three are compared with one another, not with the row numbers the repository uses today.
    WANT = [("t",)] + [("grid", "f", {5: "getMin", 6: "getMax"}[k]) if k in (5, 6) else
                       ("norm", ROW_SPEC[k][0], ROW_SPEC[k][1], ROW_SPEC[k][2], ROW_SPEC[k][3], ROW_SPEC[k][2], ROW_SPEC[k][4])
                       for k in range(1, 8)]
    rows = _row_writes(col)
    # AUDIT ("... is never written" / "... is not written to the table"): every store of collect into the table is in collect itself:
    # a method of the collector called from collect that touches the table (or that is not defined in the class) may write rows
    cls_c = parent(col) if isinstance(parent(col), ast.ClassDef) else None
    for c in ast.walk(col):
        if isinstance(c, ast.Call) and isinstance(c.func, ast.Attribute) and src(c.func.value) == "self" and rows is not None:
            m_ = next((st_ for st_ in (cls_c.body if cls_c is not None else []) if isinstance(st_, ast.FunctionDef) and st_.name == c.func.attr), None)
            if m_ is None or any(isinstance(x, ast.Attribute) and src(x) == "self.diagnostics" for x in ast.walk(m_)):
                rows = None
    row_of = {}                 # documented quantity j -> row of the table that holds it
    if rows is not None and not rows:
        # no store into the table was recognised at all (it may be written through other attributes that are views of it)
        rows = None
    if rows is None or not role:
        chk.ob("E6-diagnostic-rows", col, "collect: rows 0..7", None, "rows are written through a computed row index (or the signature of "
               "collect changed): not recognised", file=F, func=Q + "collect")
    else:
        bad, und, held = [], [], {}
        for k in sorted(rows):
            slot, v, twice = rows[k]
            if twice:
                und.append(f"row {k} is written more than once")
                continue
            scale = None
            if isinstance(v, ast.BinOp) and isinstance(v.op, (ast.Mult, ast.Div)):
                for c_, o_ in ((v.left, v.right), (v.right, v.left)):
                    if isinstance(c_, ast.Constant) and isinstance(c_.value, (int, float)) and isinstance(o_, ast.Call) and \
                            not (isinstance(v.op, ast.Div) and c_ is v.left):
                        scale, v = c_.value, o_
                        break
            got = None
            if isinstance(v, ast.Name) and v.id not in role:
                # a local that holds the value: bound once, by a plain assignment or as one element of a tuple assignment
                v = _local_value(col, v.id) or v
            if isinstance(v, ast.Name):
                got = ("t",) if role.get(v.id) == "t" else None
            elif isinstance(v, ast.Call) and isinstance(v.func, ast.Attribute) and len(v.args) + len(v.keywords) <= 1:
                recv, meth = v.func.value, v.func.attr
                arg = (v.args + [kw.value for kw in v.keywords] + [None])[0]
                argr = role.get(arg.id) if isinstance(arg, ast.Name) else None
                if isinstance(recv, ast.Name) and recv.id in role and arg is None:
                    got = ("grid", role[recv.id], meth)
                elif isinstance(recv, ast.Attribute) and src(recv.value) == "self" and recv.attr in ctors and argr:
                    c_ = ctors[recv.attr]
                    got = ("norm", c_[0], meth, irole.get(c_[1]), c_[2], irole.get(c_[3]), argr)
            if got is None or any(x is None for x in got):
                und.append(f"row {k}: value `{src(rows[k][1])[:60]}` not recognised" +
                           (f" (resolved to {got}: the class, grid or layout of the norm object was not followed)" if got else ""))
                continue
            held[k] = got
            # AUDIT: the value stored is a literal constant times the call of a norm object's method (recognised as a documented
            # quantity); the norm classes are decided on their own (their weights times the method's factor multiply to 1), so a
            # constant applied on top of it here scales the stored local diagnostic
            if got in WANT and scale is not None and scale != 1:
                bad.append(f"row {k} ({ROW_NAME[WANT.index(got)]}) is stored scaled by {scale}: `{src(rows[k][1])[:70]}` - the local "
                           "diagnostic that is summed is no longer the quadrature of the field (a factor belongs into the "
                           "norm object, where every user gets it)")
        for j_, w_ in enumerate(WANT):
            ks = [k for k, g_ in held.items() if g_ == w_]
            if len(ks) == 1:
                row_of[j_] = ks[0]
            elif len(ks) > 1:
                und.append(f"the {ROW_NAME[j_]} is written to the rows {ks}")
            elif not und:
                # a row that holds a near miss: same kind of quantity, other class / grid / layout / argument
                near = [(k, g_) for k, g_ in held.items() if g_ not in WANT and g_[0] == w_[0] and
                        (len(g_) < 3 or g_[1] == w_[1] or g_[2] == w_[2])]
                free = [(k, g_) for k, g_ in held.items() if g_ not in WANT]
                if near or free:
                    k, g_ = (near or free)[0]
                    bad.append(f"the {ROW_NAME[j_]} {w_} is not written to the table; row {k} is given `{src(rows[k][1])[:70]}` = {g_}: "
                               "the documented column holds another quantity (or one computed with weights built for another "
                               "grid/layout)")
                else:
                    bad.append(f"the {ROW_NAME[j_]} is never written: its column keeps the zeros of the allocation")
        stray = sorted(k for k, g_ in held.items() if g_ not in WANT)
        slots = {rows[k][0] for k in rows}
        if len(slots) > 1:
            und.append(f"rows are written to different slot expressions {sorted(slots)}")
        if stray and not bad:
            und.append(f"rows {stray} hold quantities that are not documented")
        ok = False if bad else None if und else True
        chk.ob("E6-diagnostic-rows", col, "collect: rows 0..7", ok, "the eight documented quantities (norm objects of the documented class, "
               "built for the layout collect is called in) are each written to one row of one slot" if ok else "; ".join(bad or und),
               file=F, func=Q + "collect")
    # ---- the slot: step number modulo the number of slots that are allocated
    oks_, whys_ = None, "the slot index of collect was not recognised"
    alloc_ = [n for n in ast.walk(init) if isinstance(n, ast.Assign) and src(n.targets[0]) == "self.diagnostics"]
    if rows and len(getattr(rows, "slot_nodes", {})) == 1 and role and len(alloc_) == 1:
        from ..resolve import inline_locals, expand
        (slot_src, slot_node), = rows.slot_nodes.items()
        e_ = expand(slot_node, inline_locals(col))
        tname = [k for k, v in role.items() if v == "t"][0]
        # attributes set once from constructor parameters stand for these parameters
        attr_of = {}
        for n in ast.walk(init):
            if isinstance(n, ast.Assign) and len(n.targets) == 1 and isinstance(n.targets[0], ast.Attribute) and \
                    src(n.targets[0].value) == "self" and isinstance(n.value, ast.Name) and n.value.id in iargs:
                attr_of["self." + n.targets[0].attr] = n.value.id
        T_, DT_ = sp.Symbol("t", positive=True), sp.Symbol("dt", positive=True)
        S_ = sp.Symbol("saveStep", integer=True, positive=True)
        MOD = sp.Function("mod")
        hooks = {tname: T_}
        for a_, p_ in attr_of.items():
            if p_ == "dt":
                hooks[a_] = DT_
            elif p_ == "saveStep":
                hooks[a_] = S_
        # attributes bound ONCE in the whole class, in the constructor, to a numeric literal stand for that number (`self._tol = 1e-9`)
        if cls_c is not None:
            stores_ = {}
            for x in ast.walk(cls_c):
                if isinstance(x, ast.Attribute) and isinstance(x.ctx, (ast.Store, ast.Del)) and src(x.value) == "self":
                    stores_[src(x)] = stores_.get(src(x), 0) + 1
            for n in init.body:
                if isinstance(n, ast.Assign) and len(n.targets) == 1 and isinstance(n.targets[0], ast.Attribute) and \
                        src(n.targets[0].value) == "self" and isinstance(n.value, ast.Constant) and \
                        type(n.value.value) in (int, float) and stores_.get(src(n.targets[0])) == 1 and src(n.targets[0]) not in hooks:
                    hooks[src(n.targets[0])] = sp.Rational(repr(n.value.value))
        n_ = NpSym(env={"int": lambda z: z, "floor": sp.floor}, hooks=hooks)
        from ..core import names_in
        # attributes that collect itself binds once, in its own block, stand for the value bound there (`self._step = int(t // dt)`
        # followed by `self._step % saveStep` is the same slot as with a local)
        own_attrs = {}
        for st_ in col.body:
            if isinstance(st_, ast.Assign) and len(st_.targets) == 1 and isinstance(st_.targets[0], ast.Attribute) and \
                    src(st_.targets[0].value) == "self":
                own_attrs.setdefault(src(st_.targets[0]), []).append(st_.value)
        nbind = {}
        for w_ in ast.walk(col):
            for t_ in ast.walk(w_) if isinstance(w_, (ast.Assign, ast.AugAssign, ast.AnnAssign, ast.For, ast.withitem, ast.NamedExpr)) else []:
                if isinstance(t_, ast.Attribute) and isinstance(t_.ctx, ast.Store) and src(t_.value) == "self":
                    nbind[src(t_)] = nbind.get(src(t_), 0) + 1
        attr_env = {a_: expand(v_[0], inline_locals(col)) for a_, v_ in own_attrs.items() if len(v_) == 1 and nbind.get(a_) == 1}
        if attr_env and any(isinstance(x, ast.Attribute) and src(x) in attr_env for x in ast.walk(e_)):
            import copy as _copy
            e_ = ast.fix_missing_locations(_SubstSrc({k: _copy.deepcopy(v) for k, v in attr_env.items()}).visit(_copy.deepcopy(e_)))
        # what depends on the time handed to collect: names and attributes assigned (anywhere in collect, in any form) from a value
        # that mentions the time or something that depends on it
        dep = {tname}
        changed_ = True
        while changed_:
            changed_ = False
            for w_ in ast.walk(col):
                val_ = getattr(w_, "value", None) if isinstance(w_, (ast.Assign, ast.AugAssign, ast.AnnAssign, ast.NamedExpr)) else \
                    getattr(w_, "iter", None) if isinstance(w_, (ast.For, ast.comprehension)) else \
                    getattr(w_, "context_expr", None) if isinstance(w_, ast.withitem) else None
                if val_ is None:
                    continue
                reads = {x.id for x in ast.walk(val_) if isinstance(x, ast.Name)} | \
                    {src(x) for x in ast.walk(val_) if isinstance(x, ast.Attribute) and src(x.value) == "self"}
                if not (reads & dep):
                    continue
                tg_ = w_.targets if isinstance(w_, ast.Assign) else [getattr(w_, "target", None) or getattr(w_, "optional_vars", None)]
                for t_ in tg_:
                    for x in ast.walk(t_) if t_ is not None else []:
                        nm_ = x.id if isinstance(x, ast.Name) else src(x) if isinstance(x, ast.Attribute) and src(x.value) == "self" else None
                        if nm_ and isinstance(getattr(x, "ctx", None), ast.Store) and nm_ not in dep:
                            dep.add(nm_)
                            changed_ = True
        slot_reads = names_in(e_) | {src(x) for x in ast.walk(e_) if isinstance(x, ast.Attribute) and src(x.value) == "self"}
        calls_self = any(isinstance(x, ast.Call) and isinstance(x.func, ast.Attribute) and src(x.func.value) == "self" for x in ast.walk(e_))
        # AUDIT: VIOLATED "does not depend on the time" = nothing the slot expression reads (names, attributes of self) is assigned in
        # collect - directly or through other names / attributes, in any statement form - from a value that mentions the time, and it
        # calls no method of the collector (which could look the time up elsewhere)
        if not (slot_reads & dep) and not calls_self:
            # recognised wrong form: the slot does not depend on the time handed to collect
            state = sorted({src(a_) for a_ in ast.walk(e_) if isinstance(a_, ast.Attribute) and src(a_.value) == "self" and
                            any(isinstance(w_, (ast.AugAssign, ast.Assign)) and any(src(t_) == src(a_) for t_ in
                                                                                  ([w_.target] if isinstance(w_, ast.AugAssign) else w_.targets))
                                for w_ in ast.walk(col))})
            oks_ = False
            whys_ = (f"the slot index `{src(e_)[:60]}` does not depend on the time `{tname}` handed to collect" +
                     (f" (it is read from {state}, state the collector carries from call to call)" if state else "") +
                     ": it is the slot of the step only as long as collect is called exactly once per step from a step that is a multiple "
                     "of saveStep; after a restart at another time every line is stored in the slot of another step, and the slots the "
                     "driver prints for the first block hold zeros")
            got = None
        else:
            try:
                got = n_.ev(e_)
            except Undecided as ex:
                got, whys_ = None, f"slot index `{src(e_)[:60]}` outside the extractable fragment: {ex}"
        cols_ = None
        av = alloc_[0].value
        if isinstance(av, ast.Call) and av.args and isinstance(av.args[0], (ast.List, ast.Tuple)) and len(av.args[0].elts) == 2:
            try:
                cols_ = NpSym(hooks={"saveStep": S_, **{a_: S_ for a_, p_ in attr_of.items() if p_ == "saveStep"}}).ev(av.args[0].elts[1])
            except Undecided:
                cols_ = None
        if got is not None and cols_ is not None:
            step = sp.floor(T_ / DT_)
            if isinstance(got, sp.Basic) and got.func == MOD and len(got.args) == 2:
                num, mod_ = got.args
                d_ = sp.simplify(mod_ - cols_)
                g_ = _step_guard(num, T_ / DT_)
                if g_ and d_ == 0 and g_[3] >= STEP_HORIZON:
                    oks_, whys_ = True, (f"slot = ({g_[0]}) mod (number of slots allocated): the step number t / dt rounded down, with a guard "
                                         "against a quotient that lies just below the integer it stands for (t accumulated as t += dt: "
                                         f"|t/dt - n| <= n^2 u after n steps); the guard covers this bound for {g_[3]:.1e} steps (horizon of the "
                                         f"rule: {STEP_HORIZON:.0e}); consecutive steps fill consecutive slots and wrap with the table")
                elif g_ and d_ == 0:
                    desc_, kind_, size_, n_ok = g_
                    # AUDIT: VIOLATED = (1) the step number IS floor of t/dt with the recognised guard (symbolic comparison; an attribute
                    # that holds the tolerance is bound once in the class, to a literal); (2) the driver advances the time it hands
                    # to collect by `t += step` in the loop around the call (checked in the driver), so the error of t/dt grows like
                    # rho n^2 u, rho fixed by the bits of dt (same rounding at every addition inside a binade); (3) with rho >= 1/100
                    # the error passes the guard within the declared horizon of the rule.  An overshooting relative guard
                    # (n r >= 2 within the horizon) needs no assumption on the time.  Anything in between is UNDECIDED.
                    if kind_ == "relative" and 2 / size_ < STEP_HORIZON:
                        oks_, whys_ = False, (f"slot = ({desc_}) mod {mod_}: the relative tolerance adds n * {sp.N(size_, 3)} to the step number "
                                              f"n: from step {int(2 / size_)} on it adds more than a whole step and the diagnostics land in the "
                                              "slot of a later step")
                    else:
                        acc_, where_ = _time_is_accumulated(chk)
                        fail_by = 100 * n_ok if kind_ == "relative" else 10 * max(n_ok, 1)
                        what_ = {"none": "no guard at all", "additive": f"an ABSOLUTE tolerance of {sp.N(size_, 3)}",
                                 "relative": f"a relative tolerance of {sp.N(size_, 3)}"}[kind_]
                        model_ = ("the time is accumulated as t += dt, so after n steps t/dt lies up to n^2 u (u = 2^-53) below the integer n "
                                  f"it stands for, an error that grows with the run; {what_} covers it for about {n_ok} steps only" +
                                  (" (an additive constant does not scale with the accumulated error: a relative tolerance r covers r/u "
                                   "steps, an additive c only sqrt(c/u))" if kind_ == "additive" else ""))
                        if acc_ and fail_by < STEP_HORIZON:
                            oks_, whys_ = False, (f"slot = ({desc_}) mod {mod_}: {model_}; {where_}.  Beyond that (well within the {STEP_HORIZON:.0e} "
                                                  "steps this rule asks for) floor gives the previous step for step sizes that are not exact "
                                                  "in binary: the diagnostics of a step overwrite the slot of the step before and their own "
                                                  "slot keeps stale values" + (" (0.1 added 8 times is 0.7999999999999999: step 7)"
                                                                               if kind_ == "none" else ""))
                        else:
                            whys_ = (f"slot = ({desc_}) mod {mod_}: {model_}; whether a run gets that far depends on tEnd / dt (run-time inputs)" +
                                     ("" if acc_ else f"; {where_}") + ": not decided")
                elif d_.is_number and d_ != 0:
                    oks_, whys_ = False, (f"the slot index `{src(e_)[:60]}` wraps modulo {mod_} but the table has {cols_} slots: " +
                                          ("slots past the end of the table are addressed" if d_ > 0 else
                                           "the last slot(s) are never filled and the step numbers wrap early, so the lines printed for "
                                           "the later steps of a block are those of other steps"))
                elif d_ == 0:
                    dn = sp.simplify(num - step)
                    whys_ = f"slot = ({num}) mod {mod_}: the step number is not written as t // dt (difference {dn}): not decided"
                else:
                    whys_ = f"slot index `{src(e_)[:60]}`: modulus {mod_} not comparable with the {cols_} slots allocated"
            elif isinstance(got, sp.Basic) and not got.has(MOD) and sp.simplify(got - step) == 0 and sp.simplify(cols_ - S_) == 0:
                # AUDIT: the table has saveStep slots (read off the allocation) and the step number grows without bound
                oks_, whys_ = False, (f"the slot index `{src(e_)[:60]}` is the step number itself, not reduced modulo the {cols_} slots of the "
                                      "table: after that many steps the store runs past the table")
            else:
                whys_ = f"slot index `{src(e_)[:60]}` = {got} not recognised"
    chk.ob("E6-time-slot", col, "collect: slot of the step", oks_, whys_, file=F, func=Q + "collect")
    slot_index_integral(chk, col, init, rows if role else None, F, Q)
    # ---- allocation: a row for everything that is written
    alloc = [n for n in ast.walk(init) if isinstance(n, ast.Assign) and src(n.targets[0]) == "self.diagnostics"]
    oka, whya = None, "allocation of self.diagnostics not recognised"
    if len(alloc) == 1 and isinstance(alloc[0].value, ast.Call) and src(alloc[0].value.func) in ("np.zeros", "np.empty", "np.ndarray") \
            and alloc[0].value.args and isinstance(alloc[0].value.args[0], (ast.List, ast.Tuple)) and len(alloc[0].value.args[0].elts) == 2:
        r_, s_ = alloc[0].value.args[0].elts
        if isinstance(r_, ast.Constant) and isinstance(r_.value, int) and src(s_) in ("saveStep", "self.saveStep"):
            # AUDIT: VIOLATED = a store of collect into a row (constant row index, recognised by _row_writes) past the rows allocated;
            # when the rows written were not recognised only the documented eight can be confirmed
            if rows:
                need = max(rows) + 1
                oka = r_.value >= need
                whya = f"{r_.value} rows x saveStep slots" if oka else f"only {r_.value} rows are allocated for the {need} rows that are written"
            else:
                oka = True if r_.value >= 8 else None
                whya = f"{r_.value} rows x saveStep slots" if oka else f"{r_.value} rows are allocated; the rows collect writes were not recognised"
    chk.ob("E6-diagnostic-rows", alloc[0] if alloc else init, "diagnostics table: rows x slots", oka, whya, file=F, func=Q + "__init__")
    # ---- reductions
    reds, und, ranges = {}, [], {}
    calls = [c for c in ast.walk(red) if isinstance(c, ast.Call) and isinstance(c.func, ast.Attribute) and c.func.attr in ("Reduce", "Allreduce")]
    calls.sort(key=lambda c: (c.lineno, c.col_offset))
    badr = []
    inst = []
    # AUDIT (all "row ... is never reduced / reduced with ..." verdicts): every reduction of the table is one of the `calls`: any
    # other call whose name speaks of a reduction (Ireduce, reduce, Reduce_scatter, ...) and any method of the collector called from
    # reduce that issues reductions or touches the table (or is not found in the class) makes the enumeration incomplete
    cls0_ = parent(red) if isinstance(parent(red), ast.ClassDef) else None
    own_methods = {st_.name: st_ for st_ in cls0_.body if isinstance(st_, ast.FunctionDef)} if cls0_ is not None else {}
    for c in ast.walk(red):
        if not (isinstance(c, ast.Call) and isinstance(c.func, ast.Attribute)):
            continue
        if "reduce" in c.func.attr.lower() and c.func.attr not in ("Reduce", "Allreduce") and not src(c.func.value).startswith(("np.", "numpy.", "functools")):
            und.append(f"`{src(c)[:60]}`: a reduction issued in a form that is not followed (rows not enumerated)")
        if src(c.func.value) == "self":
            m_ = own_methods.get(c.func.attr)
            if m_ is None:
                und.append(f"`{src(c)[:50]}` calls a method that is not defined in the class: what it reduces is not followed")
            elif m_ is not red and any((isinstance(x, ast.Call) and isinstance(x.func, ast.Attribute) and "reduce" in x.func.attr.lower()) or
                                       (isinstance(x, ast.Attribute) and src(x) == "self.diagnostics") for x in ast.walk(m_)):
                und.append(f"`{src(c)[:50]}`: reductions made in the helper {m_.name} are not enumerated")
    for c in calls:
        cs = _loop_instances(red, c)
        if cs is None:
            und.append(f"`{src(c)[:60]}` is issued in a loop that is not a table written out in the source: rows not enumerated")
            continue
        for c_ in cs:
            c_.lineno = c.lineno
            inst.append(c_)
    # ---- which array OBJECT a reduction writes.  `self.X` written in the call is the array the attribute names when reduce runs; an
    # entry of a table built by another method (the constructor), or a block whose rows the constructor handed out as views
    # (`self.X = self.B[k]`), is the array the attribute named THEN: the two stay the same object only while the attribute is not
    # re-bound (state carried from one call of reduce to the next)
    cls_ = parent(red) if isinstance(parent(red), ast.ClassDef) else None
    block_rows, views_of = {}, {}                 # B -> number of rows allocated ; (B, k) -> [attributes bound to the row view B[k]]
    for n in ast.walk(init):
        if not (isinstance(n, ast.Assign) and len(n.targets) == 1):
            continue
        t_, v_ = n.targets[0], n.value
        if isinstance(t_, ast.Attribute) and src(t_.value) == "self" and isinstance(v_, ast.Call) and \
                src(v_.func) in ("np.zeros", "np.empty", "np.ndarray") and v_.args and isinstance(v_.args[0], (ast.List, ast.Tuple)) and \
                len(v_.args[0].elts) == 2 and isinstance(v_.args[0].elts[0], ast.Constant) and isinstance(v_.args[0].elts[0].value, int):
            block_rows[t_.attr] = v_.args[0].elts[0].value
        if isinstance(t_, ast.Attribute) and src(t_.value) == "self" and isinstance(v_, ast.Subscript) and \
                isinstance(v_.value, ast.Attribute) and src(v_.value.value) == "self":
            k_ = v_.slice.elts[0] if isinstance(v_.slice, ast.Tuple) and len(v_.slice.elts) == 2 and \
                _range_text(v_.slice.elts[1]) == ":" else v_.slice
            if isinstance(k_, ast.Constant) and isinstance(k_.value, int) and not isinstance(k_.value, bool):
                views_of.setdefault((v_.value.attr, k_.value), []).append(t_.attr)
        if isinstance(t_, (ast.Tuple, ast.List)) and isinstance(v_, ast.Attribute) and src(v_.value) == "self" and \
                all(isinstance(x, ast.Attribute) and src(x.value) == "self" for x in t_.elts):
            for k_, x in enumerate(t_.elts):                # self.a, self.b = self.B : the row views of B
                views_of.setdefault((v_.attr, k_), []).append(x.attr)

    def rebinds(attr):
        """statements outside the constructor that bind `self.<attr>` to another object (an assignment to the attribute itself, not
        to its elements)"""
        out = []
        for m_ in (cls_.body if cls_ is not None else [red]):
            if not isinstance(m_, ast.FunctionDef) or m_ is init:
                continue
            for n in ast.walk(m_):
                tg = n.targets if isinstance(n, ast.Assign) else [n.target] if isinstance(n, ast.AnnAssign) and n.value is not None else []
                flat = [y for x in tg for y in (x.elts if isinstance(x, (ast.Tuple, ast.List)) else [x])]
                if any(isinstance(y, ast.Attribute) and src(y.value) == "self" and y.attr == attr for y in flat):
                    out.append((n, m_))
        return out
    captured = {}                                 # row -> (attribute, how its array was fixed before reduce runs)
    for c in inst:
        b = {}
        for nm, a_ in zip(("sendbuf", "recvbuf"), c.args):
            b[nm] = a_
        for kw in c.keywords:
            b[kw.arg] = kw.value
        if len(c.args) > 2:
            b.setdefault("op", c.args[2])
        if len(c.args) > 3:
            b.setdefault("root", c.args[3])
        s_ = b.get("sendbuf")
        row, srange, span = None, ":", None
        if isinstance(s_, ast.Subscript) and src(s_.value) == "self.diagnostics":
            e0 = s_.slice.elts[0] if isinstance(s_.slice, ast.Tuple) else s_.slice
            rest = s_.slice.elts[1:] if isinstance(s_.slice, ast.Tuple) else []
            if isinstance(e0, ast.Constant) and isinstance(e0.value, int) and not isinstance(e0.value, bool) and len(rest) <= 1:
                row = e0.value
                srange = _range_text(rest[0] if rest else None)
            elif isinstance(e0, ast.Slice) and e0.step is None and len(rest) <= 1 and \
                    all(x is None or (isinstance(x, ast.Constant) and isinstance(x.value, int) and x.value >= 0) for x in (e0.lower, e0.upper)) \
                    and e0.upper is not None:
                # several consecutive rows in one reduction
                span = (e0.lower.value if e0.lower is not None else 0, e0.upper.value)
                srange = _range_text(rest[0] if rest else None)
        rb = b.get("recvbuf")
        rrange = ":"
        if span is not None:
            # the receive block: row k of the block receives row span[0] + k of the table; the result array of a row is the
            # attribute the constructor bound to that row view of the block
            blk = rb.attr if isinstance(rb, ast.Attribute) and src(rb.value) == "self" else None
            boff = 0
            if blk is None and isinstance(rb, ast.Subscript) and isinstance(rb.value, ast.Attribute) and src(rb.value.value) == "self":
                # a range of rows of a larger block: self.B[a:b] / self.B[a:b, :] receives the rows a .. b-1 of B
                r0_ = rb.slice.elts[0] if isinstance(rb.slice, ast.Tuple) and len(rb.slice.elts) == 2 and \
                    _range_text(rb.slice.elts[1]) == ":" else rb.slice if not isinstance(rb.slice, ast.Tuple) else None
                if isinstance(r0_, ast.Slice) and r0_.step is None and r0_.upper is not None and \
                        all(x is None or (isinstance(x, ast.Constant) and type(x.value) is int and x.value >= 0) for x in (r0_.lower, r0_.upper)):
                    a_, b_ = (r0_.lower.value if r0_.lower is not None else 0), r0_.upper.value
                    if b_ - a_ == span[1] - span[0] and block_rows.get(rb.value.attr, 0) >= b_:
                        blk, boff = rb.value.attr, a_
            op = src(b["op"]) if "op" in b else "MPI.SUM"
            root = src(b["root"]) if "root" in b else "0"
            if blk is None or (boff == 0 and isinstance(rb, ast.Attribute) and block_rows.get(blk) != span[1] - span[0]) or srange != ":" or span[1] <= span[0]:
                und.append(f"`{src(c)[:70]}` reduces the rows {span[0]}..{span[1] - 1} at once: the receive block `{src(rb) if rb is not None else '?'}` "
                           "was not recognised as a block of as many rows allocated by the constructor")
                continue
            if rebinds(blk):
                und.append(f"the receive block self.{blk} is re-bound in {rebinds(blk)[0][1].name}")
                continue
            for k_ in range(span[1] - span[0]):
                names = views_of.get((blk, boff + k_), [])
                if len(names) != 1:
                    und.append(f"`{src(c)[:60]}`: row {k_} of the receive block self.{blk} (row {span[0] + k_} of the table) is not handed "
                               "out as one result array by the constructor")
                    continue
                if span[0] + k_ in reds:
                    badr.append(f"row {span[0] + k_} is reduced twice")
                reds[span[0] + k_] = (names[0], op, root, c)
                ranges.setdefault(span[0] + k_, srange)
                captured[span[0] + k_] = (names[0], f"the constructor binds self.{names[0]} to the row view self.{blk}[{boff + k_}] of the block "
                                                    f"that `{src(c)[:50]}` receives into")
            continue
        if isinstance(rb, ast.Subscript) and isinstance(rb.value, ast.Attribute) and src(rb.value.value) == "self" and \
                not isinstance(rb.slice, ast.Tuple):
            # the slots of the result array that receive the reduced values
            rrange = _range_text(rb.slice)
            rb = rb.value
        if row is not None and srange != rrange:
            badr.append(f"`{src(c)[:70]}` reduces the slots `{srange}` of row {row} into the slots `{rrange}` of the result array: the "
                        "reduced values land in the slots of other steps")
        ranges.setdefault(row, srange)
        if isinstance(rb, ast.Call) and src(rb.func) == "getattr" and len(rb.args) == 2 and src(rb.args[0]) == "self" and \
                isinstance(rb.args[1], ast.Constant) and isinstance(rb.args[1].value, str) and rb.args[1].value.isidentifier():
            rb = ast.Attribute(value=ast.Name(id="self", ctx=ast.Load()), attr=rb.args[1].value, ctx=ast.Load())
        if row is None or rb is None or not (isinstance(rb, ast.Attribute) and src(rb.value) == "self"):
            und.append(f"`{src(c)[:70]}`: row / result array not recognised")
            continue
        op = src(b["op"]) if "op" in b else "MPI.SUM"
        root = src(b["root"]) if "root" in b else "0"
        if row in reds:
            badr.append(f"row {row} is reduced twice")
        reds[row] = (rb.attr, op, root, c)
        where = getattr(rb, "_captured_in", None)
        if where is not None and where != red.name:
            captured[row] = (rb.attr, f"the receive array of row {row} is an entry of the table `{getattr(rb, '_captured_table', '?')}` "
                                      f"built in {where}: the array object self.{rb.attr} named at that time")
    # AUDIT (binding time): the receive array of the row was fixed BEFORE reduce runs (an entry of a table built by another method, a
    # row view handed out by the constructor), and a method other than the constructor assigns the attribute itself (not its
    # elements): from then on the attribute names another object than the one the reduction fills
    for row, (attr, how) in sorted(captured.items()):
        rbs = rebinds(attr)
        if rbs:
            st_, m_ = rbs[0]
            badr.append(f"{how}; `{src(st_)[:60]}` in {m_.name} binds the attribute to a NEW array, so from the second call of reduce() on "
                        f"the reduced values of row {row} land in the old array while getLine / the user read self.{attr}: the reported "
                        "value is stale (the previous report, transformed once more), not the reduction of the global field")
    if not calls:
        und.append("no Reduce call found")
    if len(row_of) < 8:
        und.append("the rows holding the documented quantities were not all identified in collect")
    if not und:
        for j_ in range(1, 8):
            k = row_of[j_]
            if k not in reds:
                badr.append(f"row {k} ({ROW_NAME[j_]}) is never reduced: its result array keeps zeros / the local value of one process")
            elif reds[k][1] not in ("MPI.SUM", "MPI.MIN", "MPI.MAX", "MPI.PROD", "MPI.LAND", "MPI.LOR", "MPI.BAND", "MPI.BOR",
                                    "MPI.MAXLOC", "MPI.MINLOC"):
                und.append(f"row {k}: reduction operation `{reds[k][1]}` not recognised")
            elif reds[k][1] != ROW_OP[j_]:
                badr.append(f"row {k} ({ROW_NAME[j_]}) is reduced with {reds[k][1]} instead of {ROW_OP[j_]}: the reported value is not "
                            "that of the global field")
        attrs = [v[0] for v in reds.values()]
        dup = sorted({a_ for a_ in attrs if attrs.count(a_) > 1})
        if dup:
            badr.append(f"several rows are reduced into the same result array {dup}: the later reduction overwrites the earlier one")
        if row_of[0] in reds:
            und.append("the time row is reduced as well")
        roots = {v[2] for v in reds.values()}
        if len(roots) > 1 and not all(r_.lstrip("-").isdigit() for r_ in roots):
            und.append(f"the roots {sorted(roots)} of the reductions are written differently: not compared")
        elif len(roots) > 1:
            badr.append(f"the rows are reduced to different roots {sorted({v[2] for v in reds.values()})}: no process holds the whole line")
    okr = False if badr else None if und else True
    if badr and und:
        badr = badr + ["(not recognised: " + "; ".join(und)[:200] + ")"]
    chk.ob("E6-diagnostic-rows", red, "reduce: op per row", okr, "sums for the four integrals and the energy, MIN/MAX for the extrema, "
           "each row into its own result array on one root" if okr else "; ".join(badr or und), file=F, func=Q + "reduce")
    # ---- square roots: on the result arrays of the two L2 rows only, after the sums
    last_reduce = max((c.lineno for c in calls), default=0)
    sq, bads, unds, sq_ranges = set(), [], [], {}
    for fn_ in (col, red):
        for n in ast.walk(fn_):
            is_sqrt = isinstance(n, ast.Call) and src(n.func) in ("np.sqrt", "sqrt", "math.sqrt") or \
                (isinstance(n, ast.BinOp) and isinstance(n.op, ast.Pow) and src(n.right) in ("0.5", "1 / 2"))
            if not is_sqrt:
                continue
            arg = n.args[0] if isinstance(n, ast.Call) else n.left
            st = n
            while st is not None and not isinstance(st, ast.stmt):
                st = parent(st)
            tgt = st.targets[0] if isinstance(st, ast.Assign) and len(st.targets) == 1 else None
            sq_range = ":"
            if tgt is not None and isinstance(tgt, ast.Subscript) and not isinstance(tgt.slice, ast.Tuple) and \
                    isinstance(arg, ast.Subscript) and src(arg.slice) == src(tgt.slice) and src(arg.value) == src(tgt.value):
                # self.X[S] = sqrt(self.X[S]): the root of the slots S only
                sq_range = _range_text(tgt.slice)
                tgt, arg = tgt.value, arg.value
            elif tgt is not None and isinstance(tgt, ast.Subscript) and src(tgt.slice) in (":", "..."):
                tgt = tgt.value
            if isinstance(arg, ast.Attribute) and src(arg.value) == "self":
                sq_ranges[arg.attr] = sq_range
            # AUDIT: "square root of the local contribution before the global sum" = the root is taken of an entry of the local table,
            # or (in collect) of the value of a norm object that is then stored into the table; a square root that has nothing to do
            # with the table (another local quantity) is not a statement about the diagnostics
            in_store = isinstance(st, ast.Assign) and any("self.diagnostics" in src(t_) for t_ in st.targets)
            of_norm = any(isinstance(x, ast.Call) and isinstance(x.func, ast.Attribute) and isinstance(x.func.value, ast.Attribute) and
                          src(x.func.value.value) == "self" and x.func.value.attr in ctors for x in ast.walk(arg))
            feeds = False
            if fn_ is col and isinstance(st, ast.Assign) and len(st.targets) == 1 and isinstance(st.targets[0], ast.Name):
                nm_ = st.targets[0].id
                feeds = any(isinstance(w_, ast.Assign) and any("self.diagnostics" in src(t_) for t_ in w_.targets) and
                            nm_ in {x.id for x in ast.walk(w_.value) if isinstance(x, ast.Name)} for w_ in ast.walk(col))
            if "self.diagnostics" in src(arg) or (fn_ is col and (in_store or feeds) and of_norm):
                bads.append(f"`{src(st)[:70]}` takes a square root of the local contribution before the global sum: the sum over processes of "
                            "square roots is not the root of the summed squares")
            elif fn_ is col and (in_store or feeds):
                unds.append(f"`{src(st)[:70]}`: a square root enters a value stored into the table; what it is taken of was not recognised")
            elif fn_ is col:
                continue                                # a square root that does not reach the table
            elif isinstance(arg, ast.Attribute) and src(arg.value) == "self" and \
                    ((tgt is not None and src(tgt) == src(arg)) or
                     (isinstance(st, ast.Expr) and isinstance(n, ast.Call) and n is st.value and
                      any(k_.arg == "out" and src(k_.value) == src(arg) for k_ in n.keywords))):
                # self.X = sqrt(self.X) / np.sqrt(self.X, out=self.X): in place, after the reduction that fills THIS array
                fills = [v_[3].lineno for v_ in reds.values() if v_[0] == arg.attr]
                if not fills:
                    if arg.attr in {v_[0] for v_ in reds.values()} or und:
                        unds.append(f"`{src(st)[:70]}`: the reduction that fills `{src(arg)}` was not identified")
                    # else: an array that is not the result array of any row - not one of the documented quantities
                elif st.lineno <= max(fills):
                    bads.append(f"`{src(st)[:70]}` comes before the reduction that fills `{src(arg)}`")
                else:
                    sq.add(arg.attr)
            else:
                unds.append(f"`{src(st)[:70]}` not recognised")
    oks, whys = None, ""
    if 1 in row_of and 2 in row_of and row_of[1] in reds and row_of[2] in reds and not und:
        want = {reds[row_of[1]][0], reds[row_of[2]][0]}
        if bads:
            oks, whys = False, "; ".join(bads)
        elif sq - want:
            oks, whys = False, (f"the square root is applied to {sorted('self.' + x for x in sq - want)}, which hold(s) a quantity that is not a "
                                "squared norm")
        elif unds or sq != want:
            oks, whys = None, "; ".join(unds) or f"square roots found for {sorted(sq)} only (expected the two L2 result arrays {sorted(want)})"
        else:
            # the slots whose root is taken are the slots the reduction has just filled
            mism = [(a_, sq_ranges.get(a_, ":"), ranges.get(row_of[j_], ":")) for j_, a_ in ((1, reds[row_of[1]][0]), (2, reds[row_of[2]][0]))
                    if sq_ranges.get(a_, ":") != ranges.get(row_of[j_], ":")]
            if mism:
                a_, sr_, rr_ = mism[0]
                oks, whys = False, (f"the reduction fills the slots `{rr_}` of self.{a_} with the summed squares, but the square root is taken "
                                    f"of the slots `{sr_}`: " + ("slots filled (and already square-rooted) by an earlier reduce are square-rooted "
                                                                 "again, so the norm printed for those steps is the fourth root"
                                                                 if sr_ == ":" else "other slots than the ones just reduced"))
            else:
                oks, whys = True, "the square root is applied to the two L2 rows only, after the global sum of the squared norms"
    elif bads:
        oks, whys = False, "; ".join(bads)
    else:
        whys = "the result arrays of the two L2 rows were not identified"
    chk.ob("E6-diagnostic-rows", red, "sqrt after reduction", oks, whys, file=F, func=Q + "reduce")
    # ---- printed columns
    cols = _format_columns(gl)
    okg, whyg = None, "format call of getLine not recognised" if cols is None else "the rows / result arrays of the documented quantities " \
        "were not all identified: the printed columns are not compared"
    if cols is not None and not und and len(row_of) == 8 and all(row_of[j_] in reds for j_ in range(1, 8)) and len(gl.args.args) == 2:
        i_ = gl.args.args[1].arg
        want = [f"self.diagnostics[{row_of[0]}, {i_}]"] + [f"self.{reds[row_of[j_]][0]}[{i_}]" for j_ in range(1, 8)]
        from ..resolve import inline_locals as _il, expand as _ex
        env_g = _il(gl)
        got = [src(_ex(c_, env_g)) for c_ in cols]
        # AUDIT (relational): `want` is built from what collect and reduce were FOUND to do (row of each quantity, result array of each
        # row) - the comparison is skipped unless all eight rows and their reductions were identified; `got` is the sequence of
        # expressions in the order of the fields of the format string / f-string
        if got == want:
            okg, whyg = True, "columns are printed in the documented order from the reduced arrays of slot i"
        elif sorted(got) == sorted(want):
            holds = {w_: ROW_NAME[j_] for j_, w_ in enumerate(want)}
            wrong = [f"column {j_} ({ROW_NAME[j_]}) prints `{g}`, which holds the {holds[g]}" for j_, (g, w_) in enumerate(zip(got, want)) if g != w_]
            okg, whyg = False, ("the documented columns are printed in another order (rows as written by collect, result arrays as filled "
                                "by reduce): " + "; ".join(wrong[:4]))
        elif any(g.startswith("self.diagnostics[") and not g.startswith(f"self.diagnostics[{row_of[0]},") for g in got):
            okg, whyg = False, ("a column is printed from the local table self.diagnostics instead of the reduced array: the line shows the "
                                f"contribution of one process: {[g for g in got if g.startswith('self.diagnostics[')]}")
        elif len(got) == len(want) and all(g == w or g.split("[")[0] in {w_.split("[")[0] for w_ in want} for g, w in zip(got, want)):
            wrong = [(g, w) for g, w in zip(got, want) if g != w]

            def parts(text):
                """'self.X[i]' -> ('self.X', 'i') ; 'self.diagnostics[0, i]' -> ('self.diagnostics[0,', 'i')"""
                try:
                    e0 = ast.parse(text, mode="eval").body
                except SyntaxError:
                    return None
                if not isinstance(e0, ast.Subscript):
                    return None
                if isinstance(e0.slice, ast.Tuple) and len(e0.slice.elts) == 2:
                    return f"{src(e0.value)}[{src(e0.slice.elts[0])},", src(e0.slice.elts[1])
                return src(e0.value), src(e0.slice)
            pg, pw = [parts(g) for g in got], [parts(w) for w in want]
            # AUDIT: "wrong slot" = the columns of ONE line are read at different slots.  When every column reads its own array (in
            # the documented order) at one and the same slot expression that is not the bare parameter, getLine numbers its lines in
            # another way than the slots (a convention with its callers, which is not followed here)
            if all(x is not None for x in pg + pw) and [x[0] for x in pg] == [x[0] for x in pw] and len({x[1] for x in pg}) == 1:
                okg, whyg = None, (f"every column reads its own array at the slot `{pg[0][1]}` (not `{i_}`): how the callers of getLine number "
                                   "the lines was not followed")
            else:
                okg, whyg = False, f"columns read the wrong array or slot: {wrong[:3]}"
        else:
            whyg = f"printed columns {got} not recognised"
    chk.ob("E6-diagnostic-rows", gl, "getLine: column order", okg, whyg, file=F, func=Q + "getLine")


def _format_columns(gl):
    """expressions printed by getLine, in order: `'...{a}...{b}'.format(a=..., b=...)`, positional fields, or an f-string"""
    import string
    rets = [n for n in ast.walk(gl) if isinstance(n, ast.Return) and n.value is not None]
    if len(rets) != 1:
        return None
    v = rets[0].value
    if isinstance(v, ast.JoinedStr):
        return [x.value for x in v.values if isinstance(x, ast.FormattedValue)]
    if isinstance(v, ast.Call) and isinstance(v.func, ast.Attribute) and v.func.attr == "format":
        fmt = v.func.value
        if isinstance(fmt, ast.Name):
            fmt = _single_def(gl, fmt.id)
        if not (isinstance(fmt, ast.Constant) and isinstance(fmt.value, str)):
            return None
        kws = {k.arg: k.value for k in v.keywords}
        out, auto = [], 0
        try:
            for _, field, _, _ in string.Formatter().parse(fmt.value):
                if field is None:
                    continue
                if field == "":
                    out.append(v.args[auto])
                    auto += 1
                elif field.isdigit():
                    out.append(v.args[int(field)])
                elif field in kws:
                    out.append(kws[field])
                else:
                    return None
        except (ValueError, IndexError):
            return None
        return out
    return None


# ---------------------------------------------------------------------------------------------------------------------
# Grid.getMin / getMax: what every process hands to the reduction, on every path (helpers of the class followed)
# ---------------------------------------------------------------------------------------------------------------------
class _NoPaths(Exception):
    pass


def _subst(e, env):
    """copy of expression e with the names bound in env replaced (one pass: inserted expressions are not revisited)"""
    import copy

    class T(ast.NodeTransformer):
        def visit_Name(self, n):
            if isinstance(n.ctx, ast.Load) and n.id in env:
                return copy.deepcopy(env[n.id])
            return n

        def visit_Lambda(self, n):
            return n
    return T().visit(copy.deepcopy(e))


def _never_none(e):
    return isinstance(e, (ast.Call, ast.BinOp, ast.Subscript, ast.Tuple, ast.List, ast.Compare, ast.UnaryOp)) or \
        (isinstance(e, ast.Constant) and e.value is not None) or (isinstance(e, ast.Attribute) and src(e) in ("np.inf", "numpy.inf"))


def _fold(t):
    """truth value of a test when it follows from its form: True / False / None"""
    if isinstance(t, ast.Constant):
        return bool(t.value)
    if isinstance(t, ast.UnaryOp) and isinstance(t.op, ast.Not):
        v = _fold(t.operand)
        return None if v is None else not v
    if isinstance(t, ast.BoolOp):
        vs = [_fold(v) for v in t.values]
        if isinstance(t.op, ast.And):
            return False if any(v is False for v in vs) else True if all(v is True for v in vs) else None
        return True if any(v is True for v in vs) else False if all(v is False for v in vs) else None
    if isinstance(t, ast.Compare) and len(t.ops) == 1 and isinstance(t.ops[0], (ast.Is, ast.IsNot)) and \
            isinstance(t.comparators[0], ast.Constant) and t.comparators[0].value is None:
        l = t.left
        v = True if isinstance(l, ast.Constant) and l.value is None else False if _never_none(l) else None
        return None if v is None else (v if isinstance(t.ops[0], ast.Is) else not v)
    return None


def _first_open_ifexp(e):
    for n in ast.walk(e):
        if isinstance(n, ast.IfExp):
            return n
    return None


def _resolve_ifexp(e):
    """expression -> list of (conditions, expression) without conditional expressions"""
    import copy
    n = _first_open_ifexp(e)
    if n is None:
        return [([], e)]
    out = []
    v = _fold(n.test)
    pos = next(i for i, x in enumerate(ast.walk(e)) if x is n)
    for pol in (True, False):
        if v is not None and v != pol:
            continue
        # each alternative is made on a PRIVATE copy of the expression (a NodeTransformer rewrites the tree it visits in place:
        # the second alternative must not start from the tree the first one has already resolved)
        ec = copy.deepcopy(e)
        nc = list(ast.walk(ec))[pos]

        class R(ast.NodeTransformer):
            def visit_IfExp(self, x, pol=pol, nc=nc):
                if x is nc:
                    return x.body if pol else x.orelse
                return self.generic_visit(x)
        e2 = R().visit(ec) if ec is not nc else (nc.body if pol else nc.orelse)
        for cs, e3 in _resolve_ifexp(copy.deepcopy(e2)):
            out.append((([] if v is not None else [(n.test, pol)]) + cs, e3))
    return out


class _PathWalk:
    """symbolic paths of a method: the conditions taken (tests with polarity, locals written back), the reduction calls met and
    the returned expression; loops are opaque (what they assign stays a name); calls of other methods of the class on `self`
    are followed through their own return paths"""

    def __init__(self, methods, depth=2, cap=96):
        self.methods, self.depth, self.cap = methods, depth, cap

    def run(self, fn, env=None):
        paths = []
        self._block(list(fn.body), dict(env or {}), [], [], paths, fn)
        for p in paths:
            if p[3] == "open":
                p[3] = None
        return [(c, ev, r) for c, ev, _, r in paths]

    def _finish(self, conds, events, env, ret, paths):
        paths.append([conds, events, env, ret])
        if len(paths) > self.cap:
            raise _NoPaths("too many paths")

    def _expr_alts(self, e, env, fn):
        """alternatives (conds, events, expr) of evaluating e: names written back, helper calls followed, conditional
        expressions split"""
        e = _subst(e, env)
        alts = [([], [], e)]
        # helper call on self at the top of the expression
        if isinstance(e, ast.Call) and isinstance(e.func, ast.Attribute) and src(e.func.value) == "self" and \
                e.func.attr in self.methods and self.depth > 0 and self.methods[e.func.attr] is not fn:
            callee = self.methods[e.func.attr]
            formals = [a.arg for a in callee.args.args][1:]
            if len(e.args) > len(formals) or any(k.arg not in formals for k in e.keywords):
                raise _NoPaths(f"call `{src(e)[:50]}` does not fit the helper's signature")
            benv = dict(zip(formals, e.args))
            benv.update({k.arg: k.value for k in e.keywords})
            defaults = callee.args.defaults
            for f_, d_ in zip(formals[len(formals) - len(defaults):], defaults):
                benv.setdefault(f_, d_)
            if any(f_ not in benv for f_ in formals):
                raise _NoPaths(f"call `{src(e)[:50]}` does not bind every parameter")
            sub = _PathWalk(self.methods, self.depth - 1, self.cap).run(callee, benv)
            alts = [(c, ev, r if r is not None else ast.Constant(value=None)) for c, ev, r in sub]
            return alts
        out = []
        for cs, e2 in _resolve_ifexp(e):
            out.append((cs, [], e2))
        return out

    def _events(self, e):
        return [n for n in ast.walk(e) if isinstance(n, ast.Call) and isinstance(n.func, ast.Attribute)
                and n.func.attr in ("reduce", "allreduce", "Reduce", "Allreduce")]

    def _block(self, stmts, env, conds, events, paths, fn):
        if not stmts:
            self._finish(conds, events, env, "open", paths)
            return
        st, rest = stmts[0], stmts[1:]
        if isinstance(st, ast.Return):
            if st.value is None:
                self._finish(conds, events, env, None, paths)
                return
            for cs, ev, e in self._expr_alts(st.value, env, fn):
                self._finish(conds + cs, events + ev + self._events(e), env, e, paths)
            return
        if isinstance(st, ast.Raise):
            return
        if isinstance(st, ast.If):
            for cs, ev, t in self._expr_alts(st.test, env, fn):
                v = _fold(t)
                for pol, body in ((True, st.body), (False, st.orelse)):
                    if v is not None and v != pol:
                        continue
                    sub = []
                    self._block(list(body), dict(env), conds + cs + ([] if v is not None else [(t, pol)]), events + ev, sub, fn)
                    for c2, e2, env2, r2 in sub:
                        if r2 == "open":
                            self._block(rest, env2, c2, e2, paths, fn)
                        else:
                            self._finish(c2, e2, env2, r2, paths)
            return
        if isinstance(st, (ast.For, ast.While)):
            if any(isinstance(n, (ast.Return, ast.Yield)) for n in ast.walk(st)):
                raise _NoPaths("a loop returns: paths through loops are not followed")
            ev = [c for n in ast.walk(st) for c in self._events(n)] if False else []
            if any(self._events(n) for n in ast.walk(st)):
                raise _NoPaths("a reduction inside a loop")
            env = dict(env)
            for n in ast.walk(st):
                if isinstance(n, ast.Name) and isinstance(n.ctx, ast.Store):
                    env.pop(n.id, None)
                elif isinstance(n, (ast.Subscript, ast.Attribute)) and isinstance(n.ctx, ast.Store):
                    b_ = n
                    while isinstance(b_, (ast.Subscript, ast.Attribute)):
                        b_ = b_.value
                    if isinstance(b_, ast.Name):
                        env.pop(b_.id, None)
            self._block(rest, env, conds, events + ev, paths, fn)
            return
        if isinstance(st, ast.Assign) and len(st.targets) == 1 and isinstance(st.targets[0], ast.Name):
            for cs, ev, e in self._expr_alts(st.value, env, fn):
                env2 = dict(env)
                env2[st.targets[0].id] = e
                self._block(rest, env2, conds + cs, events + ev + self._events(e), paths, fn)
            return
        if isinstance(st, (ast.Assign, ast.AugAssign, ast.AnnAssign, ast.Expr, ast.Assert, ast.Pass, ast.Import, ast.ImportFrom)):
            env = dict(env)
            for n in ast.walk(st):
                if isinstance(n, ast.Name) and isinstance(n.ctx, ast.Store):
                    env.pop(n.id, None)
            ev = []
            if not isinstance(st, ast.Assert):
                for f_ in ("value",):
                    v_ = getattr(st, f_, None)
                    if v_ is not None:
                        ev = self._events(_subst(v_, env))
            self._block(rest, env, conds, events + ev, paths, fn)
            return
        raise _NoPaths(f"statement `{src(st)[:50]}` not followed")


_FLIP = {ast.Lt: ast.Gt, ast.Gt: ast.Lt, ast.LtE: ast.GtE, ast.GtE: ast.LtE, ast.Eq: ast.Eq, ast.NotEq: ast.NotEq}
_NEGCMP = {ast.Lt: ast.GtE, ast.GtE: ast.Lt, ast.Gt: ast.LtE, ast.LtE: ast.Gt, ast.Eq: ast.NotEq, ast.NotEq: ast.Eq}


def _latch_flag(fn):
    """the ownership flag of the loop over the fixed axes: a name assigned a constant before the loop, assigned inside it and
    read after it -> (name, initial constant, loop, in-loop assignments, polarity-ok) or None"""
    for loop in [n for n in ast.walk(fn) if isinstance(n, ast.For)]:
        if not any(isinstance(n, ast.Subscript) and isinstance(n.ctx, ast.Store) for n in ast.walk(loop)):
            continue
        inside = {}
        for n in ast.walk(loop):
            if isinstance(n, ast.Assign) and len(n.targets) == 1 and isinstance(n.targets[0], ast.Name):
                inside.setdefault(n.targets[0].id, []).append(n)
            elif isinstance(n, ast.AugAssign) and isinstance(n.target, ast.Name):
                inside.setdefault(n.target.id, []).append(n)
        blk = None
        p = parent(loop)
        for f_ in ("body", "orelse"):
            if isinstance(getattr(p, f_, None), list) and loop in getattr(p, f_):
                blk = getattr(p, f_)
        if blk is None:
            continue
        k = blk.index(loop)
        after = {n.id for s_ in blk[k + 1:] for n in ast.walk(s_) if isinstance(n, ast.Name) and isinstance(n.ctx, ast.Load)}
        for name, asg in inside.items():
            pre = [s_ for s_ in blk[:k] if isinstance(s_, ast.Assign) and len(s_.targets) == 1 and src(s_.targets[0]) == name]
            if name in after and pre and isinstance(pre[-1].value, ast.Constant) and isinstance(pre[-1].value.value, bool):
                return name, pre[-1].value.value, loop, asg
            # a counter of the fixed indices that are not local: 0 before the loop, only counted up inside, compared with 0 after
            if name in after and pre and isinstance(pre[-1].value, ast.Constant) and type(pre[-1].value.value) is int and \
                    pre[-1].value.value == 0:
                return name, 0, loop, asg
    return None


def _flag_fact(t, flag):
    """what the test `t` says about the ownership flag: 'owns' / 'not-owns' when t is true, or None when t is not a test of the
    flag.  Boolean flag (starts True, only cleared / starts False, only set): the name itself.  Counter (starts 0, only counted
    up): comparisons with 0 / 1 and the bare name (truthy = something is missing)."""
    if not flag:
        return None
    name, c0 = flag[0], flag[1]
    if isinstance(c0, bool):
        if isinstance(t, ast.Name) and t.id == name:
            return "owns" if c0 else "not-owns"
        if isinstance(t, ast.Compare) and len(t.ops) == 1 and isinstance(t.left, ast.Name) and t.left.id == name and \
                isinstance(t.comparators[0], ast.Constant) and isinstance(t.comparators[0].value, bool) and \
                isinstance(t.ops[0], (ast.Is, ast.Eq, ast.IsNot, ast.NotEq)):
            same = isinstance(t.ops[0], (ast.Is, ast.Eq))
            is_true = t.comparators[0].value == same           # the test says `name` is True
            return "owns" if is_true == c0 else "not-owns"
        return None
    if isinstance(t, ast.Name) and t.id == name:
        return "not-owns"
    if isinstance(t, ast.Compare) and len(t.ops) == 1:
        l, op, r = t.left, type(t.ops[0]), t.comparators[0]
        if isinstance(r, ast.Name) and r.id == name and op in _FLIP:
            l, op, r = r, _FLIP[op], l
        if isinstance(l, ast.Name) and l.id == name and isinstance(r, ast.Constant) and type(r.value) is int:
            zero = {(ast.Eq, 0): True, (ast.LtE, 0): True, (ast.Lt, 1): True, (ast.NotEq, 0): False, (ast.Gt, 0): False,
                    (ast.GtE, 1): False}.get((op, r.value))
            if zero is not None:
                return "owns" if zero else "not-owns"
    return None


def _cmp_atoms_pol(t, pol, env):
    """the comparisons that hold when test `t` has truth value `pol`, as (left src, op class, right src): a conjunction that holds,
    a disjunction that fails (De Morgan, each comparison negated); None when the facts are not a conjunction of comparisons"""
    from ..resolve import expand
    t = expand(t, env)

    def go(x, pol):
        if isinstance(x, ast.UnaryOp) and isinstance(x.op, ast.Not):
            return go(x.operand, not pol)
        if isinstance(x, ast.BoolOp):
            if isinstance(x.op, ast.And) != pol:
                return None                      # a disjunction of facts
            out = []
            for v in x.values:
                r = go(v, pol)
                if r is None:
                    return None
                out.extend(r)
            return out
        if isinstance(x, ast.Compare):
            parts, l = [], x.left
            for op, r in zip(x.ops, x.comparators):
                parts.append((src(l), type(op), src(r)))
                l = r
            if pol:
                return parts
            if len(parts) == 1 and parts[0][1] in _NEGCMP:
                return [(parts[0][0], _NEGCMP[parts[0][1]], parts[0][2])]
            return None
        return None
    return go(t, pol)


def _cmp_atoms(t, env):
    """conjunction of comparisons -> list of (left src, op class, right src), chained comparisons split; None if not of that form"""
    from ..resolve import expand
    t = expand(t, env)
    parts = t.values if isinstance(t, ast.BoolOp) and isinstance(t.op, ast.And) else [t]
    out = []
    for p_ in parts:
        if not isinstance(p_, ast.Compare):
            return None
        l = p_.left
        for op, r in zip(p_.ops, p_.comparators):
            out.append((src(l), type(op), src(r)))
            l = r
    return out


def _fed_by(loop, name):
    """the sequence that feeds loop target `name` in `for a, b in zip(X, Y)`: source of X / Y with the array wrappers
    (np.atleast_1d, np.array, list, tuple) taken off, or None"""
    it = loop.iter
    if isinstance(it, ast.Call) and src(it.func) == "zip" and isinstance(loop.target, ast.Tuple) and len(it.args) == len(loop.target.elts):
        for t, a in zip(loop.target.elts, it.args):
            if isinstance(t, ast.Name) and t.id == name:
                while isinstance(a, ast.Call) and src(a.func) in ("np.atleast_1d", "np.array", "np.asarray", "list", "tuple") and a.args:
                    a = a.args[0]
                return src(a)
    return None


_EXTENT_FACT = {}


def _extent_is_end_minus_start(chk):
    """Layout.shape[i] = ends[i] - starts[i]: read off the constructor of the layout class (the only element store into the array behind
    the `shape` property is `self._ends[i] - self._starts[i]`)"""
    if "v" in _EXTENT_FACT:
        return _EXTENT_FACT["v"]
    ok = False
    try:
        lmod = chk.mod(U.LAYOUT)
        cls_ = lmod.cls("Layout")
        prop = next((st for st in cls_.body if isinstance(st, ast.FunctionDef) and st.name == "shape"), None)
        rets = [n for n in ast.walk(prop) if isinstance(n, ast.Return) and n.value is not None] if prop is not None else []
        if len(rets) == 1 and isinstance(rets[0].value, ast.Attribute) and src(rets[0].value.value) == "self":
            a_ = rets[0].value.attr
            st_ = [n for n in ast.walk(cls_) if isinstance(n, (ast.Assign, ast.AugAssign)) and
                   any(isinstance(t, ast.Subscript) and src(t.value) == f"self.{a_}" for t in (n.targets if isinstance(n, ast.Assign) else [n.target]))]
            whole = [n for n in ast.walk(cls_) if isinstance(n, ast.Assign) and any(src(t) == f"self.{a_}" for t in n.targets)]
            if len(st_) == 1 and isinstance(st_[0], ast.Assign) and not isinstance(st_[0].targets[0].slice, (ast.Slice, ast.Tuple)):
                i_ = src(st_[0].targets[0].slice)
                ok = src(st_[0].value).replace(" ", "") == f"self._ends[{i_}]-self._starts[{i_}]" and \
                    all(isinstance(w.value, ast.Call) and (src(w.value.func) in ("np.empty", "np.zeros", "tuple", "list")) for w in whole)
    except Exception:
        ok = False
    _EXTENT_FACT["v"] = ok
    return ok


def _slice_index_rule(chk, m, body_fn, q):
    """inside the loop over (axis number, fixed global index): the axis carrying the dimension, the ownership test
    start <= fix < end on that axis, and the local index fix - start -> (verdict, why, name of the index list)

    AUDIT of the negative verdicts (each is returned only after the loop `for a, b in zip(<axis>, <fixValue>)` over the two PARAMETERS
    of that name was identified, with exactly one store into an index list inside it and loop variables that are not re-bound):
      * the list is indexed by the dimension number / by dims_order[dimension]: read off the subscript of the store, with the loop
        name traced to the parameter `axis` (documented: dimension numbers);
      * the sequences are paired with the wrong loop names: read off the zip;
      * the global index is stored as a local index / the start of another axis is subtracted: read off the value stored;
      * no ownership test at all: no enclosing `if`, no earlier exit of the pass, only tests on the parameters around the loop, and
        the index list is used to subscript self._f without a test in between;
      * boundaries off by one: the guards (with their polarity) form a conjunction of comparisons that are linear in fix / start / end
        (extent = end - start read off the layout class) and differ from start <= fix < end by integer constants only.
    Everything else is UNDECIDED."""
    from ..resolve import inline_locals, expand
    env = {k: v for k, v in inline_locals(body_fn).items() if isinstance(v, (ast.Subscript, ast.Attribute, ast.BinOp, ast.Name))}
    loops = [n for n in ast.walk(body_fn) if isinstance(n, ast.For) and isinstance(n.target, ast.Tuple) and len(n.target.elts) == 2
             and all(isinstance(x, ast.Name) for x in n.target.elts)]
    loops = [l for l in loops if any(isinstance(n, ast.Subscript) and isinstance(n.ctx, ast.Store) for n in ast.walk(l))]
    if len(loops) != 1:
        return None, "the loop over the (axis, fixed index) pairs was not found", None
    loop = loops[0]
    targets = [x.id for x in loop.target.elts]
    stores = [n for n in ast.walk(loop) if isinstance(n, ast.Assign) and len(n.targets) == 1 and isinstance(n.targets[0], ast.Subscript)
              and isinstance(n.targets[0].value, ast.Name)]
    if len(stores) != 1:
        return None, f"{len(stores)} stores into an index list in the loop", None
    st = stores[0]
    idxname = st.targets[0].value.id
    # names assigned once in the loop's own block (their value at the store is that assignment, whatever other loops do with the name)
    for b_ in loop.body:
        if isinstance(b_, ast.Assign) and len(b_.targets) == 1 and isinstance(b_.targets[0], ast.Name) and \
                isinstance(b_.value, (ast.Subscript, ast.Attribute, ast.BinOp, ast.Name)):
            nm_ = b_.targets[0].id
            if sum(1 for x in ast.walk(loop) if isinstance(x, ast.Name) and x.id == nm_ and isinstance(x.ctx, ast.Store)) == 1 and \
                    nm_ not in [x.id for x in loop.target.elts]:
                env[nm_] = b_.value
    De = expand(st.targets[0].slice, env)
    D = src(De)
    ax = None
    if isinstance(De, ast.Subscript) and src(De.value) == "self._layout.inv_dims_order" and isinstance(De.slice, ast.Name) and \
            De.slice.id in targets:
        ax = De.slice.id
    elif isinstance(De, ast.Name) and De.id in targets and _fed_by(loop, De.id) == "axis":
        return False, (f"`{src(st)[:60]}`: the list is indexed by `{D}`, which is a dimension number (the loop takes it from the parameter "
                       f"`axis`): the axis that carries it in this layout is self._layout.inv_dims_order[{D}]"), idxname
    elif isinstance(De, ast.Subscript) and src(De.value) == "self._layout.dims_order" and isinstance(De.slice, ast.Name) and \
            De.slice.id in targets and _fed_by(loop, De.slice.id) == "axis":
        return False, (f"`{src(st)[:60]}`: the list is indexed by `{D}`: dims_order maps an axis to its dimension, the axis carrying "
                       f"dimension {De.slice.id} is self._layout.inv_dims_order[{De.slice.id}]"), idxname
    else:
        return None, f"index position `{D}` not recognised", idxname
    fix = [t for t in targets if t != ax][0]
    # which parameter feeds which loop name
    it = loop.iter
    if isinstance(it, ast.Call) and src(it.func) == "zip" and len(it.args) == 2:
        def base(e):
            return src(e.args[0]) if isinstance(e, ast.Call) and src(e.func) in ("np.atleast_1d", "np.array", "list", "tuple") and e.args else src(e)
        feeds = dict(zip(targets, (base(it.args[0]), base(it.args[1]))))
        if (feeds[ax], feeds[fix]) == ("fixValue", "axis"):
            return False, (f"`{src(loop)[:80]}`: the fixed values are used as axis numbers and the axis numbers as fixed indices "
                           "(the two sequences are paired with the wrong loop names)"), idxname
        if (feeds[ax], feeds[fix]) != ("axis", "fixValue"):
            return None, f"the sequences `{src(it)[:60]}` the loop runs over are not the parameters axis and fixValue", idxname
    else:
        return None, f"loop over `{src(it)[:60]}` not recognised", idxname
    rebound = {n.id for b_ in loop.body for n in ast.walk(b_) if isinstance(n, ast.Name) and isinstance(n.ctx, ast.Store)} & set(targets)
    if rebound:
        return None, f"the loop variable(s) {sorted(rebound)} are re-assigned inside the loop: their meaning at the store is not followed", idxname
    v = st.value
    if isinstance(v, ast.Tuple) and len(v.elts) == 1:
        v = v.elts[0]
    V = src(expand(v, env))
    startD = f"self._layout.starts[{D}]"
    endD = f"self._layout.ends[{D}]"
    if V != f"{fix} - {startD}":
        if V == fix:
            return False, (f"`{src(st)[:60]}` uses the global index `{fix}` as a local index: on every process whose block does not start "
                           "at 0 another point (or none) is read"), idxname
        if V.startswith(f"{fix} - self._layout.starts[") or V == f"{fix} - self._layout.starts[{ax}]":
            return False, f"`{src(st)[:60]}` subtracts the start of another axis than the one indexed ({D})", idxname
        return None, f"stored local index `{V}` not recognised", idxname
    # ownership test guarding the store
    gs = [(t, pol) for t, pol, k in guards_of(st, stop=loop) if k == "if"]
    if not gs:
        # tests passed on the way to the store that are not enclosing `if`s: earlier statements of the enclosing blocks that leave
        # the pass (`if c: continue / break / return / raise`), up to the loop
        early = []
        ch, p_ = st, parent(st)
        while p_ is not None and ch is not loop:
            for f_ in ("body", "orelse", "finalbody"):
                blk = getattr(p_, f_, None)
                if isinstance(blk, list) and ch in blk:
                    for prev in blk[:blk.index(ch)]:
                        if isinstance(prev, ast.If) and any(isinstance(x, (ast.Continue, ast.Break, ast.Return, ast.Raise)) for x in ast.walk(prev)):
                            early.append(prev)
                        elif isinstance(prev, (ast.Try, ast.With, ast.For, ast.While)) and \
                                any(isinstance(x, (ast.Continue, ast.Break, ast.Return, ast.Raise)) for x in ast.walk(prev)):
                            early.append(prev)
            ch, p_ = p_, parent(p_)
        outer = [(t, pol) for t, pol, k in guards_of(loop) if k in ("if", "while")]
        pnames = {a.arg for a in body_fn.args.args}

        def plain(t):
            """a test that only looks at the parameters being given / the block being empty: says nothing about fix vs the block"""
            names = {x.id for x in ast.walk(t) if isinstance(x, ast.Name)}
            return names <= (pnames | {"self", "np"}) and not any(isinstance(x, ast.Call) and src(x.func) not in ("len",) for x in ast.walk(t)) \
                and "starts" not in src(t) and "ends" not in src(t) and "shape" not in src(t)
        uses = [n for n in ast.walk(body_fn) if isinstance(n, ast.Subscript) and src(n.value) == "self._f" and
                src(n.slice) in (f"tuple({idxname})", idxname)]
        if not early and all(plain(t) for t, _ in outer) and uses and V == f"{fix} - {startD}":
            u = uses[0]
            tries = []
            x_ = parent(u)
            while x_ is not None and x_ is not body_fn:
                if isinstance(x_, ast.Try) and any(u in set(ast.walk(b_)) for b_ in x_.body):
                    tries.append(x_)
                x_ = parent(x_)
            caught = [h for t_ in tries for h in t_.handlers if h.type is None or
                      any(nm in src(h.type) for nm in ("IndexError", "LookupError", "Exception"))]
            use_gs = [t for t, pol, k in guards_of(u) if k == "if" and not plain(t)]
            if not use_gs:
                return False, (f"`{src(st)[:60]}` stores the local index `{V}` in every pass, whatever `{fix}` is: no test compares `{fix}` with "
                               f"the bounds of the block before `{src(u)[:40]}` is evaluated" +
                               (f" (the `except {src(caught[0].type) if caught[0].type is not None else ''}` around it only catches an index "
                                "past the END of the axis)" if caught else "") +
                               f".  For `{fix}` below the start of the block the local index is negative, and numpy accepts a negative index "
                               "(it counts from the end of the axis) instead of raising: a process that does not own the requested index "
                               "contributes the extremum of another slice of its block instead of the neutral element" +
                               ("" if caught else "; past the end of the block the indexing raises on that process only")), idxname
        return None, "the store of the local index is not guarded by an ownership test", idxname
    atoms = []
    # a test kept in a local assigned once inside the loop, in the loop's own block before the guarded statement
    in_loop = {}
    for n in ast.walk(loop):
        if isinstance(n, ast.Assign) and len(n.targets) == 1 and isinstance(n.targets[0], ast.Name):
            in_loop.setdefault(n.targets[0].id, []).append(n)
    env_g = dict(env)
    for nm, ds in in_loop.items():
        if len(ds) == 1 and ds[0] in loop.body and isinstance(ds[0].value, (ast.Compare, ast.BoolOp, ast.UnaryOp)) and \
                not any(isinstance(x, ast.AugAssign) and isinstance(x.target, ast.Name) and x.target.id == nm for x in ast.walk(loop)):
            top = st
            while parent(top) is not loop and parent(top) is not None:
                top = parent(top)
            if top in loop.body and loop.body.index(ds[0]) < loop.body.index(top):
                env_g[nm] = ds[0].value
    for t_, pol_ in gs:
        a_ = _cmp_atoms_pol(t_, pol_, env_g)
        if a_ is None:
            return None, f"ownership test `{'' if pol_ else 'not '}{src(t_)[:60]}` not recognised", idxname
        atoms.extend(a_)
    norm = set()
    for l, op, r in atoms:
        if r == fix and op in _FLIP:
            l, op, r = r, _FLIP[op], l
        norm.add((l, op, r))
    want = {(fix, ast.GtE, startD), (fix, ast.Lt, endD)}
    if norm == want:
        return True, ("the fixed global index of dimension ax is looked up on the axis carrying ax, tested against [start, end) of that "
                      "axis and converted to a local index with that axis' start"), idxname
    # the same test in another convention (local index against the local extent, bounds moved to the other side, `>` for `>=` of
    # integers): every comparison as `e >= 0` over the integers, e a linear form of fix, start, end (extent = end - start)
    F_, S_, E_, SH_ = sp.Symbol("fix", integer=True), sp.Symbol("start", integer=True), sp.Symbol("end", integer=True), sp.Symbol("extent", integer=True)
    leaf = {fix: F_, startD: S_, endD: E_, f"self._layout.shape[{D}]": (E_ - S_) if _extent_is_end_minus_start(chk) else SH_}

    def lin(text):
        def go(x):
            t_ = src(x)
            if t_ in leaf:
                return leaf[t_]
            if isinstance(x, ast.Constant) and type(x.value) is int:
                return sp.Integer(x.value)
            if isinstance(x, ast.BinOp) and isinstance(x.op, (ast.Add, ast.Sub)):
                a_, b_ = go(x.left), go(x.right)
                return None if a_ is None or b_ is None else (a_ + b_ if isinstance(x.op, ast.Add) else a_ - b_)
            if isinstance(x, ast.UnaryOp) and isinstance(x.op, ast.USub):
                a_ = go(x.operand)
                return None if a_ is None else -a_
            return None
        try:
            return go(ast.parse(text, mode="eval").body)
        except SyntaxError:
            return None
    forms = set()
    for l, op, r in atoms:
        a_, b_ = lin(l), lin(r)
        if a_ is None or b_ is None or op not in (ast.Lt, ast.LtE, ast.Gt, ast.GtE):
            forms = None
            break
        forms.add(sp.expand({ast.GtE: a_ - b_, ast.Gt: a_ - b_ - 1, ast.LtE: b_ - a_, ast.Lt: b_ - a_ - 1}[op]))
    want_f = {sp.expand(F_ - S_), sp.expand(E_ - F_ - 1)}
    if forms is not None and forms == want_f:
        return True, ("the fixed global index of dimension ax is looked up on the axis carrying ax, tested for start <= index < end of that "
                      "axis (written with the local index / the local extent) and converted to a local index with that axis' start"), idxname
    if forms is not None and len(forms) == 2 and SH_ not in set().union(*[f_.free_symbols for f_ in forms]):
        # the same two bounds up to integer constants: a boundary moved by one
        rest = set(want_f)
        off = []
        for f_ in forms:
            m_ = [w_ for w_ in rest if sp.expand(f_ - w_).is_number]
            if len(m_) == 1:
                rest.discard(m_[0])
                off.append(sp.expand(f_ - m_[0]))
        if not rest and any(o_ != 0 for o_ in off):
            shown = " and ".join(("" if pol_ else "not ") + f"({src(t_)[:60]})" for t_, pol_ in gs)
            return False, (f"ownership test `{shown}` is not `start <= {fix} < end`: an index on a block boundary is assigned to "
                           "no process or to two (out-of-range local index / value taken from the neighbouring block)"), idxname
    if {(l, r) for l, _, r in norm} == {(l, r) for l, _, r in want} and all(op in (ast.Lt, ast.LtE, ast.Gt, ast.GtE) for _, op, _ in norm):
        shown = " and ".join(("" if pol_ else "not ") + f"({src(t_)[:60]})" for t_, pol_ in gs)
        return False, (f"ownership test `{shown}` is not `start <= {fix} < end`: an index on a block boundary is assigned to "
                       "no process or to two (out-of-range local index / value taken from the neighbouring block)"), idxname
    return None, f"ownership test `{src(gs[0][0])[:60]}` not recognised", idxname


# ---- sorts of the small integers in getMin / getMax: a DIMENSION number (0 = r ... as the caller names them in `axis`) is not
# an AXIS position of the local block (what starts / ends / shape / the index list are indexed with); dims_order maps axis ->
# dimension, inv_dims_order maps dimension -> axis.  A static sort inference over the statements of the method.
_AX, _DM, _GI = "axis position", "dimension number", "global index"
_AXIS_TABLES = {"self._layout.starts": _GI, "self._layout.ends": _GI, "self._layout.shape": None, "self._layout.max_block_shape": None,
                "self._f.shape": None}


class _Sorts:
    def __init__(self, fn):
        self.fn = fn
        self.env = {}           # name -> sort | ('seq', elem sort) | ('dict', key sort, value sort) | ('tuple', [sorts])
        self.bad, self.checked = [], 0
        self.origin = {}
        for a in fn.args.args:
            if a.arg == "axis":
                self.env[a.arg] = ("seq", _DM)
            elif a.arg == "fixValue":
                self.env[a.arg] = ("seq", _GI)

    def need(self, node, idx, want, table, maps):
        # AUDIT: a lookup is reported only when the sort of the index is KNOWN (derived from the parameters `axis` = dimension numbers,
        # `fixValue` = global indices, from dims_order / inv_dims_order and from enumerate over per-axis tables) and is the other of
        # the two sorts; 0 .. ndims-1 from range(ndims) is both and is never reported
        got = self.sort(idx)
        if got in (_AX, _DM):
            self.checked += 1
            if got != want:
                self.bad.append((node, f"`{src(node)[:60]}`: `{src(idx)[:30]}` is {'an' if got == _AX else 'a'} {got}"
                                 f"{self.origin.get(src(idx), '')}, but {table} {maps}"))

    def sort(self, e):
        if isinstance(e, ast.Name):
            return self.env.get(e.id)
        if isinstance(e, ast.Call):
            f = src(e.func)
            if f in ("np.atleast_1d", "np.array", "np.asarray", "list", "tuple", "np.asanyarray") and e.args:
                s_ = self.sort(e.args[0])
                return s_ if isinstance(s_, tuple) and s_[0] == "seq" else ("seq", s_) if s_ in (_AX, _DM, _GI) else None
            if f == "zip":
                els = []
                for a in e.args:
                    s_ = self.sort(a)
                    els.append(s_[1] if isinstance(s_, tuple) and s_[0] == "seq" else None)
                return ("seq", ("tuple", els))
            if f == "enumerate" and e.args:
                s_ = self.sort(e.args[0])
                el = s_[1] if isinstance(s_, tuple) and s_[0] == "seq" else None
                first = _AX if self.axis_indexed(e.args[0]) else None
                return ("seq", ("tuple", [first, el]))
            if f == "range" and len(e.args) == 1 and (src(e.args[0]) in ("self._f.ndim", "self._layout.ndims", "self._nDims") or
                                                     (isinstance(e.args[0], ast.Call) and src(e.args[0].func) == "len" and e.args[0].args
                                                      and self.axis_indexed(e.args[0].args[0]))):
                # 0 .. ndims-1 numbers the axes of the block AND the dimensions alike: which of the two the loop means is not known
                return ("seq", None)
            if f == "dict" and len(e.args) == 1:
                s_ = self.sort(e.args[0])
                if isinstance(s_, tuple) and s_[0] == "seq" and isinstance(s_[1], tuple) and s_[1][0] == "tuple" and len(s_[1][1]) == 2:
                    return ("dict", s_[1][1][0], s_[1][1][1])
            if isinstance(e.func, ast.Attribute) and e.func.attr in ("get", "pop") and e.args:
                d = self.sort(e.func.value)
                if isinstance(d, tuple) and d[0] == "dict":
                    self.need(e, e.args[0], d[1], f"the keys of `{src(e.func.value)}`", f"are {d[1]}s")
                    return d[2]
            if isinstance(e.func, ast.Attribute) and e.func.attr in ("items", "keys", "values") and not e.args:
                d = self.sort(e.func.value)
                if isinstance(d, tuple) and d[0] == "dict":
                    return ("seq", {"items": ("tuple", [d[1], d[2]]), "keys": d[1], "values": d[2]}[e.func.attr])
            if f == "int" and len(e.args) == 1:
                return self.sort(e.args[0])
            return None
        if isinstance(e, ast.Subscript):
            base = src(e.value)
            if base == "self._layout.inv_dims_order" and not isinstance(e.slice, (ast.Slice, ast.Tuple)):
                self.need(e, e.slice, _DM, "inv_dims_order", "maps a dimension number to the axis carrying it (the map from an axis to its "
                          "dimension is dims_order)")
                return _AX
            if base == "self._layout.dims_order" and not isinstance(e.slice, (ast.Slice, ast.Tuple)):
                self.need(e, e.slice, _AX, "dims_order", "maps an axis position to its dimension (the map from a dimension to the axis "
                          "carrying it is inv_dims_order)")
                return _DM
            if base in _AXIS_TABLES and not isinstance(e.slice, (ast.Slice, ast.Tuple)):
                self.need(e, e.slice, _AX, f"`{base}`", "is indexed by the axis position in the local block")
                return _AXIS_TABLES[base]
            d = self.sort(e.value)
            if isinstance(d, tuple) and d[0] == "dict" and not isinstance(e.slice, ast.Slice):
                self.need(e, e.slice, d[1], f"the keys of `{base}`", f"are {d[1]}s")
                return d[2]
            if isinstance(d, tuple) and d[0] == "idxlist" and not isinstance(e.slice, (ast.Slice, ast.Tuple)):
                self.need(e, e.slice, _AX, f"the index list `{base}` of self._f", "has one entry per axis of the local block")
            return None
        if isinstance(e, ast.BinOp):
            self.sort(e.left)
            self.sort(e.right)
            return None
        if isinstance(e, (ast.Tuple, ast.List)):
            return ("tuple", [self.sort(x) for x in e.elts])
        if isinstance(e, ast.Attribute) and src(e) in _AXIS_TABLES:
            return ("seq", _AXIS_TABLES[src(e)])
        for ch in ast.iter_child_nodes(e):
            if isinstance(ch, ast.expr):
                self.sort(ch)
        return None

    def axis_indexed(self, e):
        """is the sequence one whose positions are the axes of the local block (starts, ends, shape, a zip of them)?"""
        if src(e) in _AXIS_TABLES:
            return True
        if isinstance(e, ast.Call) and src(e.func) == "zip" and e.args:
            return all(self.axis_indexed(a) for a in e.args)
        if isinstance(e, ast.Name):
            return isinstance(self.env.get(e.id), tuple) and self.env[e.id][0] == "idxlist"
        return False

    def bind(self, t, s_, why=""):
        if isinstance(t, ast.Name):
            self.env[t.id] = s_
            if s_ in (_AX, _DM) and why:
                self.origin[t.id] = why
        elif isinstance(t, (ast.Tuple, ast.List)):
            parts = s_[1] if isinstance(s_, tuple) and s_[0] == "tuple" and len(s_[1]) == len(t.elts) else [None] * len(t.elts)
            for x, y in zip(t.elts, parts):
                self.bind(x, y, why)

    def block(self, stmts):
        for st in stmts:
            if isinstance(st, ast.Assign) and len(st.targets) == 1:
                v = st.value
                t = st.targets[0]
                if isinstance(t, ast.Name) and ("self._f.ndim" in src(v) or "np.s_[:]" in src(v)) and isinstance(v, (ast.BinOp, ast.List, ast.ListComp)):
                    self.env[t.id] = ("idxlist",)
                    continue
                s_ = self.sort(v)
                if isinstance(t, ast.Subscript):
                    self.sort(t)
                else:
                    self.bind(t, s_, f" (`{src(st)[:50]}`)")
            elif isinstance(st, ast.For):
                s_ = self.sort(st.iter)
                el = s_[1] if isinstance(s_, tuple) and s_[0] == "seq" else None
                self.bind(st.target, el, f" (it runs over `{src(st.iter)[:60]}`)")
                self.block(st.body)
                self.block(st.orelse)
            elif isinstance(st, (ast.If, ast.While)):
                self.sort(st.test)
                self.block(st.body)
                self.block(st.orelse)
            elif isinstance(st, (ast.Return, ast.Expr)) and st.value is not None:
                self.sort(st.value)
            elif isinstance(st, ast.AugAssign):
                self.sort(st.value)
                self.sort(st.target)
            elif isinstance(st, (ast.With, ast.Try)):
                self.block(st.body)
        return self


def _take_chain(fn, name, idxname):
    """`name` starts as the real part of the local values and is then restricted, one fixed axis at a time, with
    np.take(name, [local index], axis=axis) for the (axis, local index) pairs of the index table `idxname`: the values of the slice"""
    defs = [n for n in ast.walk(fn) if isinstance(n, ast.Assign) and len(n.targets) == 1 and isinstance(n.targets[0], ast.Name)
            and n.targets[0].id == name]
    if len(defs) != 2:
        return False
    first, second = sorted(defs, key=lambda n: n.lineno)
    if src(first.value) not in ("np.real(self._f)", "self._f.real", "self._f"):
        return False
    lp = parent(second)
    if not (isinstance(lp, ast.For) and len(lp.body) == 1 and isinstance(lp.target, ast.Tuple) and len(lp.target.elts) == 2 and
            all(isinstance(x, ast.Name) for x in lp.target.elts) and src(lp.iter) == f"{idxname}.items()"):
        return False
    ax, ix = (x.id for x in lp.target.elts)
    v = second.value
    if not (isinstance(v, ast.Call) and src(v.func) in ("np.take", "numpy.take") and v.args and src(v.args[0]) == name):
        return False
    kw = {k.arg: src(k.value) for k in v.keywords}
    ind = src(v.args[1]) if len(v.args) > 1 else kw.get("indices")
    axis = src(v.args[2]) if len(v.args) > 2 else kw.get("axis")
    return ind in (f"[{ix}]", f"({ix},)") and axis == ax


def _break_to_latch(fn):
    """`for ...: S1; if c: break; S2  else: E` is read in the form the ownership rules know: a flag that starts True and is cleared
    where the loop would be left, the rest of the pass in the other arm of the test, and `if flag: E` after the loop.
        flag = True
        for ...: S1
                 if c: flag = False
                 else: S2
        if flag: E
    The two differ only in that the passes after the leaving one still run: they write the loop's own locals (E7-query-purity), which
    the code after the loop reads only when the flag is still set, i.e. when no pass left the loop.  Done on the in-memory tree of
    this run only -> list of the loops rewritten (descriptions)"""
    done = []

    def has_break(stmts):
        """break statements of THIS loop in the statements (nested loops have their own)"""
        out = []
        for st in stmts:
            if isinstance(st, ast.Break):
                out.append(st)
            elif isinstance(st, (ast.For, ast.While)):
                out += has_break(st.orelse)
            elif isinstance(st, (ast.If, ast.With, ast.Try)):
                for f_ in ("body", "orelse", "finalbody"):
                    out += has_break(getattr(st, f_, []) or [])
                for h in getattr(st, "handlers", []):
                    out += has_break(h.body)
        return out

    def clear(flag, at):
        return ast.copy_location(ast.Assign(targets=[ast.Name(id=flag, ctx=ast.Store())], value=ast.Constant(value=False), lineno=at.lineno), at)

    def rewrite(stmts, flag):
        """statement list with the breaks turned into `flag = False`, what followed a leaving test moved to its other arm; None when a
        break sits where this reading does not apply"""
        for i, st in enumerate(stmts):
            if not has_break([st]):
                continue
            if isinstance(st, ast.Break):
                return stmts[:i] + [clear(flag, st)]
            if not isinstance(st, ast.If):
                return None
            body, orelse = rewrite(list(st.body), flag), rewrite(list(st.orelse), flag)
            if body is None or orelse is None:
                return None
            rest = rewrite(list(stmts[i + 1:]), flag)
            if rest is None:
                return None
            b_leaves = bool(st.body) and has_break(st.body) and isinstance(st.body[-1], ast.Break)
            o_leaves = bool(st.orelse) and has_break(st.orelse) and isinstance(st.orelse[-1], ast.Break)
            if b_leaves and not has_break(st.body[:-1]) and not has_break(st.orelse):
                new = ast.If(test=st.test, body=body, orelse=orelse + rest)
            elif o_leaves and not has_break(st.orelse[:-1]) and not has_break(st.body):
                new = ast.If(test=st.test, body=body + rest, orelse=orelse)
            else:
                return None
            return stmts[:i] + [ast.copy_location(new, st)]
        return stmts
    k = 0
    for blk_owner in list(ast.walk(fn)):
        for f_ in ("body", "orelse"):
            blk = getattr(blk_owner, f_, None)
            if not isinstance(blk, list):
                continue
            for i, lp in enumerate(list(blk)):
                if not (isinstance(lp, ast.For) and has_break(lp.body)) or any(isinstance(n, ast.Continue) for n in ast.walk(lp)):
                    continue
                k += 1
                flag = "_no_pass_left" + (str(k) if k > 1 else "")
                nb = rewrite(list(lp.body), flag)
                if nb is None:
                    continue
                pre = ast.copy_location(ast.Assign(targets=[ast.Name(id=flag, ctx=ast.Store())], value=ast.Constant(value=True),
                                                   lineno=lp.lineno), lp)
                lp.body = nb
                post = []
                if lp.orelse:
                    post = [ast.copy_location(ast.If(test=ast.Name(id=flag, ctx=ast.Load()), body=list(lp.orelse), orelse=[]), lp.orelse[0])]
                    lp.orelse = []
                j = blk.index(lp)
                blk[j:j + 1] = [pre, lp] + post
                done.append(f"{fn.name}: loop at line {lp.lineno} left by `break` read with the flag `{flag}`")
    if done:
        ast.fix_missing_locations(fn)
    return done


def extrema(chk):
    from .. import lints
    gmod = chk.mod(U.GRID)
    methods = gmod.methods("Grid")
    for m, neutral, op, red in (("getMin", "np.inf", "MPI.MIN", "amin"), ("getMax", "-np.inf", "MPI.MAX", "amax")):
        fn = chk.func(U.GRID, f"Grid.{m}")
        q = f"Grid.{m}"
        # the method together with the helpers of the class it calls on self
        group, todo = [fn], [fn]
        while todo:
            f_ = todo.pop()
            for c in ast.walk(f_):
                if isinstance(c, ast.Call) and isinstance(c.func, ast.Attribute) and src(c.func.value) == "self" and \
                        c.func.attr in methods and methods[c.func.attr] not in group and not c.func.attr.startswith("get"):
                    group.append(methods[c.func.attr])
                    todo.append(methods[c.func.attr])
        for g in group[1:]:
            chk.functions.add(f"{U.GRID}:Grid.{g.name}")
        latched = [d_ for g in group for d_ in _break_to_latch(g)]
        if latched:
            gmod._link()
            chk.note("loops left early read as flag loops: " + "; ".join(latched))
        # a query: nothing reachable from the grid is modified, so the answer does not depend on earlier requests
        res_ = [lints.shared_state_mutations(g, lambda s_: s_.startswith("self.")) for g in group]
        muts = [x for r_ in res_ for x in r_]
        # possible modifications the engine could not establish (alias liveness / view-or-copy not followed): undecided, not HOLDS
        for r_ in res_:
            for node_, desc_, why_ in getattr(r_, "undecided", ()):
                chk.ob("E7-query-purity", node_, f"Grid.{m} modifies nothing of the grid: {desc_}"[:160], None,
                       f"{desc_}: not established ({why_})", file=U.GRID, func=q)
        # AUDIT: "an earlier request changes the answer of a later one" = the state that is modified is also READ by the query (outside
        # the modifying statement itself): a store into something the query never looks at (a log, a counter) does not change
        # what it reports -> UNDECIDED
        okq = True
        if muts:
            okq = None
            import re as _re
            for node_, desc_ in muts:
                tnodes = []
                if isinstance(node_, ast.Assign):
                    tnodes = list(node_.targets)
                elif isinstance(node_, ast.AugAssign):
                    tnodes = [node_.target]
                elif isinstance(node_, ast.Call) and isinstance(node_.func, ast.Attribute):
                    tnodes = [node_.func.value]
                roots_ = {src(x) for t_ in tnodes for x in ast.walk(t_) if isinstance(x, ast.Attribute) and src(x.value) == "self"}
                # the stored state a local alias is a view of (named by the alias analysis)
                for r_ in _re.findall(r"stored `([^`]+)`", desc_):
                    try:
                        roots_ |= {src(x) for x in ast.walk(ast.parse(r_, mode="eval")) if isinstance(x, ast.Attribute) and src(x.value) == "self"}
                    except SyntaxError:
                        pass
                own_ = {id(x) for t_ in tnodes for x in ast.walk(t_)}
                if any(isinstance(x, ast.Attribute) and src(x) in roots_ and id(x) not in own_ and isinstance(x.ctx, ast.Load)
                       for g in group for x in ast.walk(g)):
                    okq = False
        chk.ob("E7-query-purity", muts[0][0] if muts else fn, f"Grid.{m} modifies nothing of the grid", okq,
               "the slice index is built in a fresh local list" if not muts else "; ".join(d for _, d in muts)[:300] +
               (" - state kept by the grid and read again by the query: what an earlier request stored there (an axis fixed in a kept index "
                "list, say) is still there in later ones, which then report the extremum of another set of points" if okq is False else
                " - whether the query reads that state again was not established"), file=U.GRID, func=q)
        # ---- ownership flag: latched as soon as one fixed index is outside the local block
        flag = None
        okl, whyl = None, "no ownership flag (constant before the loop over the fixed axes, changed inside, read after) was found"
        for g in group:
            fl = _latch_flag(g)
            if fl:
                flag = fl
                name, c0, loop, asg = fl
                wrong, unclear = None, None
                # AUDIT: "only the last axis counts" = an assignment inside the loop gives the flag a value that does not depend on its
                # previous value (a plain overwrite: the flag's own name does not occur on the right-hand side, and the statement is
                # not an augmented assignment), and the loop is not left at the first failing axis; any other update that is not one
                # of the recognised accumulating forms is UNDECIDED
                leaves_early = any(isinstance(x, (ast.Break, ast.Return)) for x in ast.walk(loop)) or \
                    any(isinstance(x, ast.Name) and x.id.startswith("_no_pass_left") for x in ast.walk(loop))
                for a_ in asg:
                    v_ = a_.value
                    mentions_self = isinstance(a_, ast.AugAssign) or any(isinstance(x, ast.Name) and x.id == name for x in ast.walk(v_))
                    if not isinstance(c0, bool):
                        # counter: only `+= positive constant` (or name = name + positive constant) keeps what was counted
                        from ..core import increment_of
                        inc = increment_of(a_)
                        if not (inc and inc[0] == name and isinstance(inc[1], ast.Constant) and type(inc[1].value) is int and inc[1].value > 0):
                            if mentions_self or leaves_early:
                                unclear = a_
                            else:
                                wrong = a_
                        continue
                    if isinstance(a_, ast.AugAssign):
                        if not isinstance(a_.op, (ast.BitAnd if c0 else ast.BitOr)):
                            unclear = a_
                    elif isinstance(v_, ast.Constant) and v_.value is (not c0):
                        continue
                    elif isinstance(v_, ast.BoolOp) and isinstance(v_.op, ast.And if c0 else ast.Or) and \
                            any(isinstance(x, ast.Name) and x.id == name for x in v_.values):
                        continue
                    elif mentions_self or leaves_early:
                        unclear = a_
                    else:
                        wrong = a_
                if wrong is None and unclear is not None:
                    okl, whyl = None, (f"`{src(unclear)[:70]}` updates {name} inside the loop over the fixed axes in a form that is not recognised "
                                       "as accumulating (or the loop is left early): whether every fixed axis counts was not established")
                elif wrong is None and not isinstance(c0, bool):
                    okl, whyl = True, (f"{name} starts at 0 and is only counted up inside the loop over fixed axes: it is 0 after the loop iff "
                                       "every fixed index is local")
                elif wrong is None:
                    okl, whyl = True, (f"{name} starts {c0} and can only be switched to {not c0} inside the loop over fixed axes: a rank owns "
                                       "the slice iff it owns every fixed index")
                else:
                    okl, whyl = False, (f"`{src(wrong)[:70]}` re-assigns {name} on every pass of the loop over the fixed axes, so only the "
                                        "last axis counts: a rank that misses an earlier fixed index but owns the last one contributes "
                                        "values from outside the slice")
                break
        if flag is None:
            # recognised wrong form: a boolean set before the loop over the fixed axes and tested after it, never changed inside
            for g in group:
                for loop in [n for n in ast.walk(g) if isinstance(n, ast.For)]:
                    guarded = [n for n in ast.walk(loop) if isinstance(n, ast.Assign) and isinstance(n.targets[0], ast.Subscript)
                               and any(k_ == "if" for _, _, k_ in guards_of(n, stop=loop))]
                    p_ = parent(loop)
                    blk = next((getattr(p_, f_) for f_ in ("body", "orelse") if isinstance(getattr(p_, f_, None), list) and loop in getattr(p_, f_)), None)
                    if not guarded or blk is None or any(isinstance(n, (ast.Return, ast.Break, ast.Raise)) for n in ast.walk(loop)):
                        continue
                    k_ = blk.index(loop)
                    stored_in = {n.id for n in ast.walk(loop) if isinstance(n, ast.Name) and isinstance(n.ctx, ast.Store)}
                    for pre in blk[:k_]:
                        if isinstance(pre, ast.Assign) and len(pre.targets) == 1 and isinstance(pre.targets[0], ast.Name) and \
                                isinstance(pre.value, ast.Constant) and isinstance(pre.value.value, bool) and pre.targets[0].id not in stored_in:
                            nm = pre.targets[0].id
                            # AUDIT: the test after the loop decides what is handed to the reduction (a reduction call is governed by it)
                            tested = [s_ for s_ in blk[k_ + 1:] if isinstance(s_, ast.If) and any(isinstance(x, ast.Name) and x.id == nm
                                                                                                 for x in ast.walk(s_.test)) and
                                      any(isinstance(x, ast.Call) and isinstance(x.func, ast.Attribute) and "reduce" in x.func.attr.lower()
                                          for x in ast.walk(s_))]
                            if tested:
                                okl, whyl = False, (f"`{nm}` is set to {pre.value.value} before the loop over the fixed axes and tested after it "
                                                    f"(`{src(tested[0].test)[:40]}`) but never changed inside the loop: a process that does not own "
                                                    "a fixed index skips the guarded store and still contributes the extremum of its un-restricted "
                                                    "block, values from outside the requested slice")
        chk.ob("E7-ownership-latch", flag[2] if flag else fn, f"Grid.{m}: ownership flag", okl, whyl, file=U.GRID, func=q)
        # ---- fixed index -> local index
        oki, whyi, idxname = None, "the loop over the fixed axes was not found", None
        for g in group:
            r_ = _slice_index_rule(chk, m, g, q)
            if r_[0] is not None or r_[2] is not None or g is group[-1]:
                oki, whyi, idxname = r_
                if r_[0] is not None or r_[2] is not None:
                    break
        chk.ob("E7-slice-index", fn, f"Grid.{m}: fixed index -> local index", oki, whyi, file=U.GRID, func=q)
        # ---- sorts: dimension numbers and axis positions are not mixed in the lookups
        bad_s, n_s = [], 0
        for g in group:
            so = _Sorts(g).block(g.body)
            bad_s += so.bad
            n_s += so.checked
        if n_s:
            chk.ob("E7-index-sorts", bad_s[0][0] if bad_s else fn, f"Grid.{m}: dimension numbers vs axis positions", not bad_s,
                   f"{n_s} lookups in dims_order / inv_dims_order / starts / ends / the index list are made with the right kind of index"
                   if not bad_s else "; ".join(dict.fromkeys(m_ for _, m_ in bad_s))[:600] + ": in every layout whose axis order is not "
                   "its own inverse another axis (or none) is selected, so the extremum of another slice is reported",
                   file=U.GRID, func=q)
        # ---- what every path hands to the reduction
        try:
            paths = _PathWalk({k: v for k, v in methods.items()}).run(fn)
        except _NoPaths as e:
            chk.ob("E7-neutral-element", fn, f"Grid.{m}: contributions", None, f"paths of the method not followed: {e}", file=U.GRID, func=q)
            continue
        # AUDIT (E7-neutral-element): every path of the method (helpers of the class followed, conditional expressions split on private
        # copies) with the conditions taken on it; a contribution is judged only on paths all of whose conditions are recognised
        # (emptiness of the block, the ownership flag with its polarity, which parameters are None); `literal` = a constant written in
        # the call; anything not recognised goes to `unknown` (UNDECIDED)
        bad, unknown, kinds = [], [], set()
        for conds, events, ret in paths:
            if not events:
                continue
            owns, whole, fixed, why_not, unrec = True, False, False, "", []
            pnames = {a.arg for a in fn.args.args}

            def atoms(t, pol):
                """(expression, polarity) facts that follow from `t` being `pol`"""
                if isinstance(t, ast.UnaryOp) and isinstance(t.op, ast.Not):
                    return atoms(t.operand, not pol)
                if isinstance(t, ast.BoolOp) and (isinstance(t.op, ast.And) == pol):
                    return [x for v_ in t.values for x in atoms(v_, pol)]
                return [(t, pol)]
            for t0, pol0 in conds:
                for t, pol in atoms(t0, pol0):
                    ts = src(t)
                    is_none = isinstance(t, ast.Compare) and len(t.ops) == 1 and isinstance(t.ops[0], (ast.Is, ast.IsNot)) and \
                        src(t.comparators[0]) == "None" and isinstance(t.left, ast.Name) and t.left.id in pnames
                    if ts in ("self._f.size == 0", "0 == self._f.size", "self._f.size < 1", "self._f.size <= 0"):
                        if pol:
                            owns, why_not = False, "empty"
                    elif ts in ("self._f.size != 0", "self._f.size > 0", "self._f.size", "0 < self._f.size", "self._f.size >= 1"):
                        if not pol:
                            owns, why_not = False, "empty"
                    elif _flag_fact(t, flag) is not None:
                        if (_flag_fact(t, flag) == "owns") != pol:
                            owns, why_not = False, "flag"
                    elif is_none:
                        if t.left.id in ("axis", "fixValue"):
                            if pol == isinstance(t.ops[0], ast.Is):
                                whole = True
                            else:
                                fixed = True
                    elif isinstance(t, ast.BoolOp) and all(isinstance(x, ast.Compare) and isinstance(x.ops[0], (ast.Is, ast.IsNot)) and
                                                           src(x.comparators[0]) == "None" and src(x.left) in ("axis", "fixValue") for x in t.values):
                        # a disjunction of `is None` facts that holds / a conjunction that fails: some index is fixed
                        kinds_ = {isinstance(x.ops[0], ast.Is) for x in t.values}
                        if len(kinds_) == 1 and (kinds_ == {True}) != pol:
                            fixed = True
                        elif len(kinds_) == 1 and (kinds_ == {False}) and pol:
                            fixed = True
                        else:
                            unrec.append(ts)
                    else:
                        unrec.append(ts)
            for c in events:
                a0 = c.args[0] if c.args else next((k.value for k in c.keywords if k.arg in ("sendobj", "sendbuf")), None)
                # reduce / allreduce(sendobj, op, root) ; Reduce / Allreduce(sendbuf, recvbuf, op, root)
                op_pos = 1 if c.func.attr in ("reduce", "allreduce") else 2
                opk = [src(k.value) for k in c.keywords if k.arg == "op"] or ([src(c.args[op_pos])] if len(c.args) > op_pos else [])
                if any(isinstance(a_, ast.Starred) for a_ in c.args) or any(k.arg is None for k in c.keywords):
                    unknown.append(f"`{src(c)[:50]}` passes its arguments by unpacking")
                    continue
                # AUDIT: "does not reduce with MPI.MIN / MPI.MAX" = the operation is written in the call as ANOTHER MPI constant, or no
                # operation is given (mpi4py's default is the sum); an operation held in a name / looked up in a table is not followed
                if opk and not opk[0].startswith("MPI."):
                    unknown.append(f"`{src(c)[:50]}`: the reduction operation `{opk[0]}` is not written in the call")
                    continue
                if not opk or opk[0] != op:
                    bad.append(f"`{src(c)[:60]}` does not reduce with {op}" + ("" if opk else " (the default is a sum)"))
                if a0 is None:
                    unknown.append(src(c)[:40])
                    continue
                a0s = src(a0)
                literal = a0s in ("np.inf", "-np.inf", "np.nan", "None") or (isinstance(a0, ast.Constant)) or \
                    (isinstance(a0, ast.UnaryOp) and isinstance(a0.operand, ast.Constant))
                # red(np.real(self._f)) / red(np.real(self._f[tuple(idx)]))
                inner, fname = None, None
                if isinstance(a0, ast.Call) and src(a0.func) in ("np.amin", "np.amax", "np.min", "np.max", "min", "max") and len(a0.args) == 1:
                    fname, inner = src(a0.func).split(".")[-1], a0.args[0]
                elif isinstance(a0, ast.Call) and isinstance(a0.func, ast.Attribute) and a0.func.attr in ("min", "max") and not a0.args:
                    fname, inner = a0.func.attr, a0.func.value
                if fname is not None:
                    fname = {"min": "amin", "max": "amax"}.get(fname, fname)
                sel = None
                if isinstance(inner, ast.Name) and idxname and _take_chain(fn, inner.id, idxname):
                    # vals = real(self._f); for dim, i in <index dict>.items(): vals = np.take(vals, [i], axis=dim)
                    sel = "slice"
                if inner is not None and isinstance(inner, ast.Call) and src(inner.func) == "np.real" and len(inner.args) == 1:
                    x = inner.args[0]
                    # a property of the class that only returns an expression stands for that expression
                    if isinstance(x, ast.Attribute) and src(x.value) == "self" and x.attr in methods and \
                            any(src(d_) == "property" for d_ in methods[x.attr].decorator_list):
                        rs_ = [n for n in ast.walk(methods[x.attr]) if isinstance(n, ast.Return) and n.value is not None]
                        if len(rs_) == 1:
                            x = rs_[0].value
                    if src(x).startswith("self._my_data[") and isinstance(x, ast.Subscript) and not isinstance(x.slice, ast.Slice):
                        sel = "raw"
                        bad.append(f"the local contribution is `{a0s[:60]}`, the extremum over the whole memory block `{src(x)[:40]}`: the block "
                                   "is sized for the largest layout / largest block and is longer than the local data whenever the points do not "
                                   "divide evenly, so stale or uninitialised entries enter the extremum (the local values are the view self._f)")
                    elif src(x) == "self._f":
                        sel = "all"
                    elif isinstance(x, ast.Subscript) and src(x.value) == "self._f":
                        sx = src(x.slice)
                        sel = "slice" if idxname and sx in (f"tuple({idxname})", idxname) else "other"
                if unrec:
                    unknown.append(f"`{a0s[:50]}` under the unrecognised condition(s) {unrec[:2]}")
                elif owns:
                    if sel == "slice" and fname == red and not whole:
                        kinds.add("own-slice")
                    elif sel == "all" and fname == red and whole:
                        kinds.add("own-all")
                    elif sel == "all" and fname == red and not fixed:
                        unknown.append(f"`{a0s[:50]}` (not known whether indices are fixed on this path)")
                    elif literal:
                        bad.append(f"a process that owns part of the requested points contributes `{a0s}` instead of {red}(real(local values))")
                    elif fname is not None and fname != red and sel in ("all", "slice"):
                        bad.append(f"the local contribution is `{a0s[:60]}`: {fname} instead of {red}")
                    elif sel == "all" and not whole and fname == red:
                        bad.append(f"with fixed indices requested the process contributes `{a0s[:60]}`, the extremum of its whole block "
                                   "instead of the requested slice")
                    else:
                        unknown.append(a0s[:60])
                else:
                    if a0s == neutral:
                        kinds.add("neutral-" + why_not)
                    elif literal:
                        bad.append(f"a process without data of the slice contributes `{a0s}` instead of the neutral element {neutral} of {op}")
                    elif why_not == "flag" and sel in ("all", "slice", "other"):
                        bad.append(f"a process that does not own the fixed indices still contributes `{a0s[:60]}`: values from outside "
                                   "the slice enter the extremum")
                    else:
                        unknown.append(a0s[:60])
        need = {"neutral-empty", "neutral-flag"}
        okn = False if bad else None if unknown or not (need <= kinds) or not (kinds & {"own-all", "own-slice"}) else True
        chk.ob("E7-neutral-element", fn, f"Grid.{m}: contributions on every path", okn,
               f"ranks that own part of the slice contribute their local extremum, all others the neutral element {neutral}" if okn
               else ("; ".join(dict.fromkeys(bad)) or (f"contributions {sorted(set(unknown))} not recognised" if unknown else
                                                        f"path kinds found: {sorted(kinds)}; expected an owning path and neutral "
                                                        "contributions for an empty block and for a slice owned elsewhere")),
               file=U.GRID, func=q)


def flatten_hierarchy(mod, class_names, method_names):
    """classes that share code through a common base class of the same module are read as if they were written out: a method the
    class inherits is looked up in its base(s); a method whose whole body is `return self.helper(<expressions>)` gets the body of
    the helper (own or inherited) with the parameters replaced by those expressions.  Done on the in-memory tree of this run."""
    from ..core import clone
    classes = {st.name: st for st in mod.tree.body if isinstance(st, ast.ClassDef)}
    done = []

    def lookup(cls, name, depth=0):
        c = classes.get(cls)
        if c is None or depth > 4:
            return None
        for st in c.body:
            if isinstance(st, ast.FunctionDef) and st.name == name:
                return st
        for b in c.bases:
            bn = src(b).split(".")[-1]
            r = lookup(bn, name, depth + 1)
            if r is not None:
                return r
        return None
    for cls in class_names:
        c = classes.get(cls)
        if c is None:
            continue
        own = {st.name: st for st in c.body if isinstance(st, ast.FunctionDef)}
        for name in method_names:
            if name not in own:
                inh = lookup(cls, name)
                if inh is not None and f"{cls}.{name}" not in mod._index:
                    mod._index[f"{cls}.{name}"] = inh
                    done.append(f"{cls}.{name} = inherited {getattr(inh, '_qual', inh.name)}")
        for name, m in own.items():
            body = [st for st in m.body if not (isinstance(st, ast.Expr) and isinstance(st.value, ast.Constant))]
            if len(body) != 1 or not isinstance(body[0], ast.Return) or not isinstance(body[0].value, ast.Call):
                continue
            call = body[0].value
            if not (isinstance(call.func, ast.Attribute) and src(call.func.value) == "self"):
                continue
            h = lookup(cls, call.func.attr)
            if h is None or h is m:
                continue
            formals = [a.arg for a in h.args.args][1:]
            if len(call.args) > len(formals) or any(k.arg not in formals for k in call.keywords) or \
                    any(isinstance(a, ast.Starred) for a in call.args):
                continue
            bind = dict(zip(formals, call.args))
            bind.update({k.arg: k.value for k in call.keywords})
            for f_, d_ in zip(formals[len(formals) - len(h.args.defaults):], h.args.defaults):
                bind.setdefault(f_, d_)
            stored = {n.id for n in ast.walk(h) if isinstance(n, ast.Name) and isinstance(n.ctx, ast.Store)}
            if any(f_ not in bind for f_ in formals) or (stored & set(formals)) or \
                    (stored & {n.id for a in bind.values() for n in ast.walk(a) if isinstance(n, ast.Name)}):
                continue

            class Bind(ast.NodeTransformer):
                def visit_Name(self, n):
                    if isinstance(n.ctx, ast.Load) and n.id in bind:
                        return clone(bind[n.id])
                    return n
            new_body = [Bind().visit(st) for st in clone([st for st in h.body if not (isinstance(st, ast.Expr) and isinstance(st.value, ast.Constant))])]
            doc = [st for st in m.body if isinstance(st, ast.Expr) and isinstance(st.value, ast.Constant)]
            m.body = doc + new_body
            ast.fix_missing_locations(m)
            done.append(f"{cls}.{name} <- {call.func.attr}({', '.join(f'{k}={src(v)[:30]}' for k, v in bind.items())})")
    if done:
        mod._link()
    return done


def run(chk):
    for rel_ in (U.NORMS, U.ENERGY):
        merged = flatten_hierarchy(chk.mod(rel_), [c for r, c, _ in CLASSES if r == rel_], ["__init__"] + [m for r, _, m in CLASSES if r == rel_])
        if merged:
            chk.note("shared code read as written out: " + "; ".join(merged))
    chk.explanation = (
        "Engine W (abstract interpretation of the four diagnostic constructors, helper functions followed): self._factor1 is a "
        "separable tensor whose factor on the axis carrying r is the [start:end) block of (trapezoid weight x r) of the global r grid "
        "and whose factor on the axis carrying v is the block of the trapezoid weight (x v^2 for the energy), for both orders of the "
        "two axes and for the 3-D potential; self._factor2 = dq dz (x 1/2); engine C types the named windows; the value returned by "
        "each norm method as a formula of f = a + i b, the weights and the volume factor; the coordinate arrays are only read; "
        "DiagnosticCollector (relational: collect, reduce and getLine are compared with one another, the row a quantity lives in is "
        "their private convention): every documented quantity (class/layout/argument of its norm object) is written to one row, "
        "through direct stores, a view of the slot's column or a whole-column store; that row is reduced with the operation of the "
        "quantity into its own result array (calls in loops over literal tables enumerated; one reduction of several rows into a block "
        "whose rows the constructor hands out as result arrays; named integers - IntEnum members, module constants - read as their "
        "values); binding time: a receive array fixed before reduce runs (an entry of a table built by the constructor, a row view of a "
        "receive block) is the object getLine reads only while no method re-binds the attribute; square roots only on the result arrays "
        "of the two L2 rows after the sums; getLine prints the result arrays in the documented order; Grid.getMin/getMax: what every "
        "symbolic path (helpers followed) hands to the reduction, ownership latch (boolean, a counter of non-local fixed indices, or a "
        "loop left by `break` with for/else, read as the flag form), the ownership test as a normal form over the integers (local index "
        "against the local extent = end - start, read off the layout class, is the same test), "
        "fixed global index -> axis and local index (ownership test in positive or negated form), a sort inference keeping dimension "
        "numbers and axis positions apart in every lookup (dims_order / inv_dims_order / starts / ends / index list / tables keyed by "
        "the caller's axis numbers), query purity; the slot of collect is (t // dt) modulo the number of slots allocated (also with a guard against a quotient "
        "just below an integer: floor(t / dt * (1 + eps)), round(t / dt)), and the slot index is an INTEGER for every documented type of "
        "the arguments (kinds int / float of scalar expressions: a `//` / `%` / `/` chain on a value documented float stays a float and "
        "must pass through int(...) or math.floor before it subscripts the numpy table); constructor and norm method are one unit: a "
        "constant factor may sit in the r weights, the v weights, the volume factor or the method, what is decided is their product, and "
        "every negative verdict on the constructor requires that the method was read as sum(integrand x _factor1) x _factor2; recognised "
        "wrong constructs in the constructor are markers that must reach the weights kept by the class. The slot<->step relation of the "
        "driver's printing and the analytic volume factors are not decided.")
    chk.assumptions += ["theta and z grids are uniform (x_d(k) = a_d + k h_d): the rectangle rule's spacing may be taken between any two "
                        "neighbouring points", "1 <= number of points per block; at least 3 points in r and v"]
    chk.in_file(U.NORMS)
    minfo = integrand_info(chk)
    placed, scales = weight_tensor(chk, minfo)
    weight_windows(chk, placed)
    integrands_emit(chk, minfo, scales)
    coordinates_read_only(chk)
    collector(chk)
    extrema(chk)
    chk.floor("C-window", 2)
    chk.floor("C-axis-placement", 5)
    chk.floor("F9-", 12)
    chk.floor("G2-", 2)
    chk.floor("E6-", 5)
    chk.floor("E7-", 6)


# --- engine I (pgverif/oneshot.py): one-shot iterators handed out by the grid accessors are walked once per creation and never memoised.
# Run first so that its reports do not depend on the idiom recognition of the rules above.
_run_before_engine_I = run


def run(chk):  # noqa: F811
    from ..oneshot import attach
    attach(chk, [(U.DIAG, None), (U.NORMS, None), (U.ENERGY, None)])
    _run_before_engine_I(chk)
