"""C13 - parallel gradient is the field-aligned finite-difference derivative."""
from __future__ import annotations

import ast
import copy

import sympy as sp
from sympy import Symbol, Function

from ..core import src, AnalysisError, parent
from .. import units as U
from ..symx import alg_equal, Undecided, Wrap
from ..npsym import NpSym
from .. import lints
from .C05 import parallel_gradient as pg_index_spaces, v_parallel
from .C10 import sibling_geometry

CLS = "ParallelGradient"


def fd_system(chk):
    fn = chk.func(U.ADV, f"{CLS}.getCoeffsFirstDeriv")
    t = src(fn).replace(" ", "").replace("\n", ";")
    ok_b = "b=np.zeros(n)" in t and "b[1]=1" in t
    chk.ob("F7-fd-system", fn, "b = e_1", ok_b, "right-hand side selects the first derivative (moment 1)" if ok_b else
           "right-hand side is not the unit vector e_1", file=U.ADV, func=f"{CLS}.getCoeffsFirstDeriv")
    ok_s = "self._shifts=np.arange(n)+start" in t
    st = [n for n in fn.body if isinstance(n, ast.Assign) and src(n.targets[0]) == "start"]
    # centred for even order (odd number of points n): start = -(n-1)/2 ; in general start = 1 - (n+1)//2
    okc = False
    if st:
        try:
            okc = all(eval(src(st[0].value), {"__builtins__": {}}, {"n": n}) == 1 - (n + 1) // 2 for n in range(2, 12))
        except Exception:
            okc = False
    chk.ob("F7-fd-system", st[0] if st else fn, "shifts = arange(n) + 1 - (n+1)//2", ok_s and okc,
           "n consecutive integer shifts, symmetric about 0 when n is odd (even order)" if ok_s and okc else
           "stencil shifts are not arange(n) + 1 - (n+1)//2", file=U.ADV, func=f"{CLS}.getCoeffsFirstDeriv")
    # A[i, j] = (j + start)**i  (Vandermonde in the shifts), coefficients = solve(A, b)
    asg = [n for n in ast.walk(fn) if isinstance(n, ast.Assign) and src(n.targets[0]).replace(" ", "") == "A[i,j]"]
    ok_a = len(asg) == 1 and src(asg[0].value).replace(" ", "") in ("(j+start)**i", "(start+j)**i") and "self._coeffs=solve(A,b)" in t
    lp = [n for n in ast.walk(fn) if isinstance(n, ast.For)]
    ok_l = len(lp) == 2 and all(src(l.iter).replace(" ", "") == "range(n)" for l in lp)
    chk.ob("F7-fd-system", asg[0] if asg else fn, "A[i,j] = shift_j**i; coeffs = solve(A, b)", ok_a and ok_l,
           "sum_j c_j shift_j^i = delta_{i1}: exact first derivative for polynomials up to degree n-1" if ok_a and ok_l else
           "moment system changed", file=U.ADV, func=f"{CLS}.getCoeffsFirstDeriv")
    ok_fb = "self._fwdSteps=-start" in t and "self._bkwdSteps=self._shifts[-1]" in t
    chk.ob("F7-fd-system", fn, "_fwdSteps = -start, _bkwdSteps = shifts[-1]", ok_fb,
           "the unwrapped index regime is bounded by the most negative and most positive shift", file=U.ADV,
           func=f"{CLS}.getCoeffsFirstDeriv")
    init = chk.func(U.ADV, f"{CLS}.__init__")
    ti = src(init).replace(" ", "").replace("\n", ";")
    ok_o = "self.getCoeffsFirstDeriv(order+1)" in ti and "assertself._nz>order" in ti
    chk.ob("F7-fd-system", init, "getCoeffsFirstDeriv(order + 1)", ok_o, "order + 1 stencil points for the requested order; grids "
           "smaller than the stencil are refused" if ok_o else "number of stencil points is not order+1", file=U.ADV, func=f"{CLS}.__init__")


THETA_TABLE_TEMPLATE = """
for k in range(eta_grid[2].size):
    for i, l in enumerate(self._shifts):
        thetaVals[(k + l) % n, i, :] = fieldline(eta_grid[1], self._dz * l, iota, r, R0)
"""


def theta_table(chk):
    """_getThetaVals: column i_l of the table holds the field-line angle for shift l"""
    from ..core import find, same_expr, contains
    fn = chk.func(U.ADV, f"{CLS}._getThetaVals")
    b = find(fn, THETA_TABLE_TEMPLATE)
    okn = b is not None and (contains(fn, "n = eta_grid[2].size", bind={"n": b["n"]}) if "n" in b else True)
    ok, why = (True, "column i of the table = angle reached from each theta node by following the field line over shift_i cells "
               "(dz x shift); identical for every row") if b is not None and okn else (None, "table fill not recognised")
    asg = [n for n in ast.walk(fn) if isinstance(n, ast.Assign) and isinstance(n.targets[0], ast.Subscript)
           and src(n.targets[0].value) == "thetaVals"]
    if ok is None and len(asg) == 1 and isinstance(asg[0].targets[0].slice, ast.Tuple) and len(asg[0].targets[0].slice.elts) == 3:
        a = asg[0]
        lv = parent(a)
        if isinstance(lv, ast.For) and isinstance(lv.target, ast.Tuple) and len(lv.target.elts) == 2 and isinstance(parent(lv), ast.For) \
                and isinstance(parent(lv).target, ast.Name):
            col, shift = (e.id for e in lv.target.elts)
            kvar = parent(lv).target.id
            row, cidx, rest = a.targets[0].slice.elts
            bnd = {"k": kvar, "l": shift, "i": col}
            diffs = []
            if not same_expr(lv.iter, "enumerate(self._shifts)"):
                diffs.append(f"the columns are generated from `{src(lv.iter)}` instead of enumerate(self._shifts), the shifts the weights and the scatter use")
            if not (isinstance(row, ast.BinOp) and isinstance(row.op, ast.Mod) and same_expr(row.left, "k + l", bind=bnd)):
                diffs.append(f"row index `{src(row)}` is not (row + shift) mod n")
            if not same_expr(cidx, "i", bind=bnd):
                diffs.append(f"column index `{src(cidx)}` is not the position of the shift")
            if not same_expr(a.value, "fieldline(eta_grid[1], self._dz * l, iota, r, R0)", bind=bnd):
                diffs.append(f"entry `{src(a.value)}` is not fieldline(theta nodes, dz x shift, iota, r, R0)")
            if diffs:
                ok, why = False, "; ".join(diffs)
    chk.ob("F7-theta-table", asg[0] if asg else fn, "thetaVals[(k+l) % n, i, :] = fieldline(theta, dz*l, iota, r, R0)", ok, why,
           file=U.ADV, func=f"{CLS}._getThetaVals")


def regimes(chk):
    """the three index regimes of parallel_gradient are one statement; their ranges tile [0, nz)"""
    fn = chk.func(U.ADV, f"{CLS}.parallel_gradient")
    loops = [n for n in fn.body if isinstance(n, ast.For)]
    if len(loops) != 3:
        chk.ob("F7-regimes", fn, "three index regimes", None, f"{len(loops)} top-level loops found, 3 expected (idiom changed)",
               file=U.ADV, func=f"{CLS}.parallel_gradient")
        return None

    class Strip(ast.NodeTransformer):
        def visit_BinOp(self, node):
            self.generic_visit(node)
            if isinstance(node.op, ast.Mod) and src(node.right) == "self._nz":
                return node.left
            return node
    bodies = []
    for l in loops:
        m = ast.Module(body=[ast.parse(src(s)).body[0] for s in l.body], type_ignores=[])
        m = Strip().visit(m)
        bodies.append(src(ast.fix_missing_locations(m)).replace("(i - s)", "i - s"))
    same = len(set(bodies)) == 1
    rng = [src(l.iter).replace(" ", "") for l in loops]
    tile = rng == ["range(self._fwdSteps)", "range(self._fwdSteps,self._nz-self._bkwdSteps)", "range(self._nz-self._bkwdSteps,self._nz)"]
    wrapped = ["% self._nz" in src(l) for l in loops]
    chk.ob("F7-regimes", fn, "three loops over z rows", same and tile and wrapped[0] and wrapped[2],
           "the three loops are the same statement up to the modulo on the target row, their ranges tile [0, nz), and both "
           "boundary regimes wrap the target row" if same and tile and wrapped[0] and wrapped[2] else
           f"bodies identical={same}, ranges={rng}, boundary regimes wrap={wrapped}", file=U.ADV, func=f"{CLS}.parallel_gradient")
    return loops


def gradient_formula(chk, loops):
    fn = chk.func(U.ADV, f"{CLS}.parallel_gradient")
    lp = loops[0]
    # row i is interpolated, then for stencil entry j: evaluate at thetaVals[i, j, :], accumulate c_j * value into row (i - s_j)
    from ..core import find as _find
    ok = _find(lp, """
self._interpolator.compute_interpolant(phi_r[i, :], self._thetaSpline)
for j, (s, c) in enumerate(zip(self._shifts, self._coeffs)):
    self._thetaSpline.eval_vector(thetaVals[i, j, :], tmp)
    der[(i - s) % self._nz, :] += c * tmp
""") is not None
    bad = None
    if not ok:
        from ..core import same_expr as _same
        inner = [n for n in ast.walk(lp) if isinstance(n, ast.For) and n is not lp]
        acc = [n for n in ast.walk(lp) if isinstance(n, ast.AugAssign) and isinstance(n.target, ast.Subscript) and src(n.target.value) == "der"]
        if len(inner) == 1 and len(acc) == 1 and _same(inner[0].iter, "enumerate(zip(self._shifts, self._coeffs))") \
                and isinstance(acc[0].target.slice, ast.Tuple):
            row = acc[0].target.slice.elts[0]
            core_row = row.left if isinstance(row, ast.BinOp) and isinstance(row.op, ast.Mod) else row
            if not isinstance(acc[0].op, ast.Add):
                bad = f"`{src(acc[0])}` does not add the stencil contribution"
            elif not _same(core_row, "i - s"):
                bad = (f"the contribution of source row i with shift s is accumulated into row `{src(row)}`, not row i - s: the finite "
                       "difference is taken along the wrong direction / with the wrong pairing of row and weight")
            elif not _same(acc[0].value, "c * tmp"):
                bad = f"the accumulated value `{src(acc[0].value)}` is not (weight of the same stencil entry) x (interpolated row)"
    chk.pat("F7-gradient-formula", lp, "der[(i - s_j) % nz] += c_j * S_i(thetaVals[i, j])", ok,
            "der[k] = sum_j c_j * (theta-spline of row k + s_j)(theta shifted along the field line by s_j cells): shift, "
            "coefficient and angle column carry the same j", bad, file=U.ADV, func=f"{CLS}.parallel_gradient")
    pre = src(fn).replace(" ", "").replace("\n", ";")
    ok0 = "der[:]=0" in pre and pre.index("der[:]=0") < pre.index("foriinrange")
    chk.ob("F7-gradient-formula", fn, "der[:] = 0 before accumulation", ok0, "the result array is cleared before the scatter-add"
           if ok0 else "the result is not cleared before accumulation", file=U.ADV, func=f"{CLS}.parallel_gradient")
    # scaling: der *= bz * inv_dz  with inv_dz = 1/dz, once, after the loops
    init = chk.func(U.ADV, f"{CLS}.__init__")
    ti = src(init).replace(" ", "").replace("\n", ";")
    aug = [n for n in fn.body if isinstance(n, ast.AugAssign) and src(n.target) == "der"]
    bz, inv = sp.symbols("bz inv_dz")
    oks = False
    if len(aug) == 1 and isinstance(aug[0].op, ast.Mult) and aug[0].lineno > loops[-1].lineno:
        try:
            n = NpSym(env={"bz": bz}, hooks={"self._inv_dz": inv})
            oks = alg_equal(n.ev(aug[0].value), bz * inv)
        except Undecided:
            oks = False
    okd = "self._inv_dz=1.0/self._dz" in ti or "self._inv_dz=1/self._dz" in ti
    okz = "self._dz=eta_grid[2][1]-eta_grid[2][0]" in ti
    bzdef = [n for n in fn.body if isinstance(n, ast.Assign) and src(n.targets[0]) == "bz"]
    okb = len(bzdef) == 1 and src(bzdef[0].value) == "self._bz[i]"
    chk.ob("F7-scaling", aug[0] if aug else fn, "der *= b_z(r_i) / dz", oks and okd and okz and okb,
           "the finite-difference combination is scaled once by b_z of the slice's radius over the z spacing" if oks and okd and okz and okb
           else f"scaling ok={oks}, 1/dz ok={okd}, dz ok={okz}, bz of row i ok={okb}", file=U.ADV, func=f"{CLS}.parallel_gradient")
    muts = lints.shared_state_mutations(fn, lambda s: s.split("[")[0] in ("self._bz", "self._thetaVals", "self._coeffs", "self._shifts"))
    chk.ob("G2-no-shared-mutation", fn, "parallel_gradient vs precomputed tables", not muts,
           "the precomputed b_z, angle and coefficient tables are only read" if not muts else
           "; ".join(d for _, d in muts) + " - every later call for the same radius is scaled again", file=U.ADV,
           func=f"{CLS}.parallel_gradient")


def run(chk):
    chk.explanation = (
        "Finite-difference moment system (e_1 right-hand side, consecutive shifts centred for even order, Vandermonde rows); "
        "field-line angle table (column i = fieldline(theta, dz x shift_i)); the three index regimes are one statement and "
        "tile [0, nz); accumulation pairs shift, coefficient and angle column of the same j and targets row (i - s_j) mod nz; "
        "scaling b_z(r_i)/dz applied once; b_z and pitch agree with the flux-surface advection; the precomputed tables are "
        "not mutated by a call; index-space typing of the per-radius tables (engine C). Convergence order is not decided.")
    chk.in_file(U.ADV)
    fd_system(chk)
    theta_table(chk)
    loops = regimes(chk)
    if loops:
        gradient_formula(chk, loops)
    sibling_geometry(chk)
    pg_attrs, pg_summ = pg_index_spaces(chk)
    # the grid-level caller hands parallel_gradient the index space its tables need
    v_parallel(chk, pg_summ)
    from .. import lints as _l
    _l.check_cache_keys(chk, U.ADV, "ParallelGradient")
    chk.floor("F7-", 9)
    chk.floor("C-", 3)
