"""C01 - layout transposes preserve the global field (LayoutHandler).

Decides (DESIGN 5/C01): D1 source intact with a spare buffer, D2 the result lands
in `dest` on every path (field-location flow, route lengths 1..7, shown 2-periodic),
D3 no stale read / clobber, D4 layout book-keeping advances with the data, D5 view
extents, G1 packer/unpacker/buffer-size geometry agreement, G2 communicator and
axis agreement between pack, exchange and unpack, G3 axis-role discipline after the
0<->a0 swap, P1 transposition permutations map source axes onto destination axes.
"""
from __future__ import annotations

import ast

from ..core import src, AnalysisError, parent
from ..resolve import Program, inline_locals, expand
from .. import units as U
from ..bufflow import Interp, State, Tok, Roots, Sym, OPAQUE, Fresh
from ..geometry import ShapeFlow, canon_product
from .. import permcheck

CLS = "LayoutHandler"
ROUTE_LENGTHS = list(range(1, 8))


def entry_state(buf_given: bool):
    env = {"source": Roots({"source"}), "dest": Roots({"dest"}),
           "buf": Roots({"buf"}) if buf_given else None,
           "source_name": Sym("name", "source_name"), "dest_name": Sym("name", "dest_name"), "self": OPAQUE,
           "<lay_dst>": None, "<lay_src>": None}
    return State(env, Tok(loc="source", layout=Sym("name", "source_name")))


def unwrap(x):
    while isinstance(x, Sym) and x.kind == "layout":
        x = x.arg
    return x


# --------------------------------------------------------------------------
# which array parameters of a routine must not denote the same memory: a static effect summary (no execution)
ARRAY_NAMES = ("source", "dest", "buf", "data", "tobuffer")
_VIEW_METHODS = {"reshape", "transpose", "view", "swapaxes", "squeeze", "ravel"}
_VIEW_ATTRS = {"T", "real", "imag", "flat", "base"}
_NP_VIEWS = {"split", "transpose", "reshape", "real", "imag", "atleast_1d", "swapaxes", "moveaxis", "squeeze", "array_split",
             "asarray", "ravel"}
_COLLECTIVES = ("Alltoall", "Alltoallv", "Allgather", "Allgatherv", "Gather", "Gatherv", "Scatter", "Sendrecv")


class Effects:
    """reads / writes / must-differ pairs of the array parameters of one method, from its statements in program order (which
    parameters a local is a view of is followed statement by statement; the arms of an `if` are joined; a loop body is read twice).
    A pair {p, q} must differ when (a) a store inside a loop writes (a view of) q from (a view of) p: the iterations read what the
    earlier ones overwrote; (b) a collective sends from p and receives in q (MPI forbids overlapping buffers); (c) q is written and
    p is read afterwards (or in the same loop): with p == q the later read sees the new contents; (d) a callee needs it."""

    def __init__(self, owner, name, fn):
        self.owner, self.name, self.fn = owner, name, fn
        self.params = [a.arg for a in fn.args.args if a.arg in ARRAY_NAMES]
        self.reads, self.writes = set(), set()
        self.pairs = {}            # frozenset({p, q}) -> reason
        self.hard = {}             # frozenset({p, q}) -> True: overlapping is certainly wrong; False: it changes what a later read sees
        self.static_alias = []     # (call node, message): one expression passed for two parameters that must differ
        self.events = []           # (reads, writes, loops, node, kind, arms)


def _view_roots(e, env):
    """the parameters an expression is a view of (env: local name -> set of parameters)"""
    if isinstance(e, ast.Name):
        return set(env.get(e.id, ()))
    if isinstance(e, ast.Subscript):
        return _view_roots(e.value, env)
    if isinstance(e, ast.Attribute) and e.attr in _VIEW_ATTRS:
        return _view_roots(e.value, env)
    if isinstance(e, ast.Starred):
        return _view_roots(e.value, env)
    if isinstance(e, ast.IfExp):
        return _view_roots(e.body, env) | _view_roots(e.orelse, env)
    if isinstance(e, (ast.Tuple, ast.List)):
        out = set()
        for x in e.elts:
            out |= _view_roots(x, env)
        return out
    if isinstance(e, ast.Call):
        f = e.func
        if isinstance(f, ast.Attribute) and isinstance(f.value, ast.Name) and f.value.id in ("np", "numpy"):
            if f.attr in _NP_VIEWS and e.args:
                return _view_roots(e.args[0], env)
            return set()
        if isinstance(f, ast.Attribute) and f.attr in _VIEW_METHODS:
            return _view_roots(f.value, env)
        if isinstance(f, ast.Name) and f.id in ("enumerate", "zip", "reversed", "list", "tuple", "iter"):
            out = set()
            for x in e.args:
                out |= _view_roots(x, env)
            return out
    return set()


_META_ATTRS = {"shape", "size", "dtype", "ndim", "itemsize", "nbytes", "strides"}


def _read_roots(e, env):
    """every parameter whose CONTENTS some part of the expression reads (`x.shape`, `x.size`, `x.dtype`, `len(x)` read the array's
    description, not its elements)"""
    out = set()
    todo = [e]
    while todo:
        x = todo.pop()
        if isinstance(x, ast.Attribute) and x.attr in _META_ATTRS:
            continue
        if isinstance(x, ast.Call) and isinstance(x.func, ast.Name) and x.func.id == "len":
            continue
        if isinstance(x, ast.Name) and isinstance(x.ctx, ast.Load):
            out |= set(env.get(x.id, ()))
        todo += list(ast.iter_child_nodes(x))
    return out


def _bind(target, roots, env):
    if isinstance(target, ast.Name):
        env[target.id] = set(roots)
    elif isinstance(target, (ast.Tuple, ast.List)):
        for x in target.elts:
            _bind(x, roots, env)
    elif isinstance(target, ast.Starred):
        _bind(target.value, roots, env)


def _join(a, b):
    out = {k: set(v) for k, v in a.items()}
    for k, v in b.items():
        out.setdefault(k, set()).update(v)
    return out


def _own_class_call(call, cls_name, meths):
    """name of the method of the same class a call invokes (self.m(...), Cls.m(...), cls.m(...)), else None"""
    f = call.func
    if isinstance(f, ast.Attribute) and isinstance(f.value, ast.Name) and f.value.id in ("self", "cls", cls_name) and f.attr in meths:
        return f.attr
    return None


def class_effects(mod, cls_name):
    """Effects of every method of the class (callees summarised first; recursion through `transpose` uses its contract)"""
    cache = mod.__dict__.setdefault("_c01_effects", {})
    if cls_name in cache:
        return cache[cls_name]
    cdef = mod.cls(cls_name)
    meths = {m.name: m for m in cdef.body if isinstance(m, ast.FunctionDef)}
    done, active = {}, set()

    def contract(name):
        """the public transpose (and anything reached recursively): source -> dest, scratch in buf (or in source)"""
        e = Effects(cls_name, name, meths[name])
        ps = e.params
        e.reads, e.writes = set(ps), set(ps)
        for i, a in enumerate(ps):
            for b in ps[i + 1:]:
                e.pairs[frozenset((a, b))] = f"{name} moves the field from one of them to the other through the third"
                e.hard[frozenset((a, b))] = True
        return e

    def summarise(name):
        if name in done:
            return done[name]
        if name in active:
            return contract(name)
        active.add(name)
        fn = meths[name]
        e = Effects(cls_name, name, fn)
        arms = []          # (if node, arm) the statement being visited is control dependent on (exclusive alternatives)
        rec = [True]

        def add_pair(p, q, why, hard=True):
            if rec[0] and p != q and p in e.params and q in e.params:
                k = frozenset((p, q))
                if k not in e.pairs or (hard and not e.hard.get(k)):
                    e.pairs[k] = why
                    e.hard[k] = hard

        def event(reads, writes, loops, node, kind):
            if not rec[0]:
                return
            e.events.append((set(reads), set(writes), tuple(loops), node, kind, tuple(arms)))
            e.reads |= set(reads)
            e.writes |= set(writes)

        def simple(st, loops, env):
            for c in [c for c in ast.walk(st) if isinstance(c, ast.Call)]:
                f = c.func
                nm = f.attr if isinstance(f, ast.Attribute) else f.id if isinstance(f, ast.Name) else ""
                if nm in _COLLECTIVES and len(c.args) >= 2:
                    def first(x):
                        return x.elts[0] if isinstance(x, (ast.Tuple, ast.List)) and x.elts else x
                    r_, w_ = _view_roots(first(c.args[0]), env), _view_roots(first(c.args[1]), env)
                    event(r_, w_, loops, c, "collective")
                    for p in r_:
                        for q in w_:
                            add_pair(p, q, f"`{src(c)[:60]}` sends from `{p}` and receives in `{q}`: MPI forbids overlapping send and receive buffers")
                    continue
                if isinstance(f, ast.Attribute) and src(f) in ("np.copyto", "numpy.copyto") and len(c.args) >= 2:
                    event(_read_roots(c.args[1], env), _view_roots(c.args[0], env), loops, c, "store")
                    continue
                g = _own_class_call(c, cls_name, meths)
                ge = None
                if g is None and isinstance(f, ast.Attribute) and f.attr == "transpose" and len(c.args) + len(c.keywords) >= 4 \
                        and "transpose" in meths and not (isinstance(f.value, ast.Name) and f.value.id in ("np", "numpy")):
                    g, ge = "transpose", contract("transpose")          # another manager's transpose: same contract
                elif g is not None:
                    ge = summarise(g)
                if g is None:
                    continue
                am = call_args(c, meths[g])
                if am is None:
                    continue
                amap = {p: _view_roots(v, env) for p, v in am.items() if p in ARRAY_NAMES and v is not None}
                r_ = set().union(*[amap.get(p, set()) for p in ge.reads]) if ge.reads else set()
                w_ = set().union(*[amap.get(p, set()) for p in ge.writes]) if ge.writes else set()
                event(r_, w_, loops, c, "call")
                for pair, why in ge.pairs.items():
                    a, b = sorted(pair)
                    for p in amap.get(a, set()):
                        for q in amap.get(b, set()):
                            add_pair(p, q, f"`{src(c)[:70]}` passes them as `{a}` and `{b}` of {g}: {why}", hard=ge.hard.get(pair, True))
                    va, vb = am.get(a), am.get(b)
                    if rec[0] and ge.hard.get(pair, True) and isinstance(va, ast.Name) and isinstance(vb, ast.Name) and va.id == vb.id \
                            and va.id in e.params and env.get(va.id) == {va.id}:
                        e.static_alias.append((c, f"`{src(c)[:90]}` passes the array `{va.id}` both as `{a}` and as `{b}` of {g}, "
                                               f"which must not overlap: {why}"))
            if isinstance(st, (ast.Assign, ast.AugAssign)):
                tgts = st.targets if isinstance(st, ast.Assign) else [st.target]
                for t in tgts:
                    w_ = set()
                    if isinstance(t, ast.Subscript) or (isinstance(t, ast.Attribute) and t.attr == "flat"):
                        w_ = _view_roots(t.value, env)
                    elif isinstance(st, ast.AugAssign) and isinstance(t, ast.Name):
                        w_ = _view_roots(t, env)
                    if not w_:
                        continue
                    r_ = _read_roots(st.value, env) | (w_ if isinstance(st, ast.AugAssign) else set())
                    event(r_, w_, loops, st, "store")
                    if loops:
                        for q in w_:
                            for p in r_:
                                add_pair(p, q, f"`{src(st)[:70]}` (in a loop) fills `{q}` piece by piece from `{p}`: with one array for both, "
                                         "later pieces are built from elements that earlier iterations have already overwritten")
            # bindings made by the statement
            if isinstance(st, ast.Assign):
                for t in st.targets:
                    if isinstance(t, (ast.Tuple, ast.List)) and isinstance(st.value, (ast.Tuple, ast.List)) and len(t.elts) == len(st.value.elts):
                        vals = [_view_roots(b, env) for b in st.value.elts]
                        for a_, v_ in zip(t.elts, vals):
                            _bind(a_, v_, env)
                    elif isinstance(t, (ast.Name, ast.Tuple, ast.List)):
                        _bind(t, _view_roots(st.value, env), env)

        def visit(stmts, loops, env):
            """-> the names-to-parameters map after the statements (env is not modified)"""
            env = {k: set(v) for k, v in env.items()}
            pushed = 0
            for st in stmts:
                if isinstance(st, (ast.FunctionDef, ast.ClassDef)):
                    continue
                if isinstance(st, (ast.For, ast.While)):
                    was = rec[0]
                    rec[0] = False
                    e1 = dict(env)
                    if isinstance(st, ast.For):
                        _bind(st.target, _view_roots(st.iter, env), e1)
                    e1 = _join(env, visit(st.body, loops + [st], e1))
                    rec[0] = was
                    if isinstance(st, ast.For):
                        _bind(st.target, _view_roots(st.iter, e1), e1)
                    env = _join(e1, visit(st.body, loops + [st], e1))
                    env = _join(env, visit(getattr(st, "orelse", []), loops, env))
                    continue
                if isinstance(st, ast.If):
                    arms.append((st, 0))
                    ea = visit(st.body, loops, env)
                    arms[-1] = (st, 1)
                    eb = visit(st.orelse, loops, env)
                    arms.pop()
                    leaves = bool(st.body) and isinstance(st.body[-1], (ast.Return, ast.Raise))
                    if leaves and not loops:
                        # `if c: ...; return` - what follows in this block is the other alternative
                        arms.append((st, 1))
                        pushed += 1
                        env = eb
                    else:
                        env = _join(ea, eb)
                    continue
                if isinstance(st, (ast.With, ast.Try)):
                    env = visit(getattr(st, "body", []), loops, env)
                    for h in getattr(st, "handlers", []):
                        env = _join(env, visit(h.body, loops, env))
                    env = visit(getattr(st, "orelse", []), loops, env)
                    env = visit(getattr(st, "finalbody", []), loops, env)
                    continue
                simple(st, loops, env)
            for _ in range(pushed):
                arms.pop()
            return env
        visit(fn.body, [], {p: {p} for p in e.params})
        # written, then another parameter read afterwards (or in the same loop)
        for i, (r1, w1, l1, n1, k1, c1) in enumerate(e.events):
            for j, (r2, w2, l2, n2, k2, c2) in enumerate(e.events):
                if i == j:
                    continue
                shared = [x for x in l1 if any(x is y for y in l2)]
                if not shared and any(a[0] is b[0] and a[1] != b[1] for a in c1 for b in c2):
                    continue          # alternatives of one `if`: never both on a path
                if j > i or shared:
                    for q in w1:
                        for p in r2:
                            add_pair(p, q, f"`{q}` is written by `{src(n1)[:50]}` and `{p}` is read by `{src(n2)[:50]}` afterwards: with one array "
                                     "for both, the read sees the new contents", hard=False)
        active.discard(name)
        done[name] = e
        return e
    for nm in meths:
        summarise(nm)
    cache[cls_name] = done
    return done


class FlowInterp(Interp):
    """the field-location interpreter with what the layout checks need on top of the engine: (1) a list that is appended to is
    no longer known; (2) tuples, list concatenation, zip/enumerate of known lists, identity tests on buffers; (3) comparisons of
    symbolic quantities are remembered along a path (sign of a-b), so that contradictory branch combinations are not explored;
    (4) single-step routines are recognised by their signature (source, dest, layout_source, layout_dest), whatever their name;
    (5) the layouts of the enclosing step are known inside the kernels it calls (view extents); (6) two array parameters bound to
    one array are reported when the callee's effect summary says they must differ; (7) an array argument that cannot be followed
    makes the path undecided, never wrong.  (Loops over unknown sequences, try/finally, iterators, generators, list mutation and
    stores of unfollowed values are the engine's since its audit: the copies that lived here were removed; a path on which a callee
    raises ends there, see `run`.)"""

    def __init__(self, *a, effects=None, **k):
        super().__init__(*a, **k)
        self.laystack = []
        self.effects = effects or {}

    # ------------------------------------------------------------ expressions
    def ev(self, e, st, fq):
        if isinstance(e, ast.Call):
            f = e.func
            nm = f.id if isinstance(f, ast.Name) else None
            if nm in ("zip", "enumerate", "reversed") and e.args and all(k.arg == "start" and nm == "enumerate" for k in e.keywords):
                args = [self.ev(a, st, fq) for a in e.args] + [self.ev(k.value, st, fq) for k in e.keywords]
                if nm == "zip" and all(isinstance(a, (list, tuple)) for a in args):
                    return [tuple(x) for x in zip(*args)]
                if nm == "enumerate" and isinstance(args[0], (list, tuple)) and (len(args) == 1 or isinstance(args[1], int)):
                    return [tuple(x) for x in enumerate(args[0], *args[1:2])]
                if nm == "reversed" and isinstance(args[0], (list, tuple)):
                    return list(reversed(args[0]))
                return OPAQUE
            if nm in ("list", "tuple") and len(e.args) == 1:
                v = self.ev(e.args[0], st, fq)
                if isinstance(v, (list, tuple)):
                    return list(v) if nm == "list" else tuple(v)
            if nm == "next" and 1 <= len(e.args) <= 2 and isinstance(e.args[0], ast.Name) and e.args[0].id in st.env.get("<iters>", ()) \
                    and isinstance(st.env.get(e.args[0].id), list):
                # an iterator hands out its first remaining item and keeps the rest
                items = st.env[e.args[0].id]
                if items:
                    st.env[e.args[0].id] = list(items[1:])
                    return items[0]
                return self.ev(e.args[1], st, fq) if len(e.args) == 2 else OPAQUE
            gen = self.generator_items(e, st, fq)
            if gen is not None:
                return gen
            if isinstance(f, ast.Attribute) and isinstance(f.value, ast.Name) and f.value.id in ("np", "numpy") \
                    and f.attr in ("empty", "zeros", "ones", "full", "ndarray", "empty_like", "zeros_like", "ones_like", "full_like"):
                return Fresh(frozenset())          # a new local array that holds no field data yet
        if isinstance(e, (ast.List, ast.Tuple)) and any(isinstance(x, ast.Starred) for x in e.elts):
            # [a, *xs]: the items of xs, not xs itself, are elements of the new sequence
            out = []
            for x in e.elts:
                if isinstance(x, ast.Starred):
                    v = self.ev(x.value, st, fq)
                    if not isinstance(v, (list, tuple)):
                        return OPAQUE
                    out += list(v)
                else:
                    out.append(self.ev(x, st, fq))
            return out if isinstance(e, ast.List) else tuple(out)
        if isinstance(e, (ast.ListComp, ast.GeneratorExp)) and len(e.generators) == 1:
            # a comprehension over a sequence whose items are known is the list of its element expression (the comprehension's own
            # variables are bound in a copy of the state); over an unknown sequence: views of an array stay views of that array
            g = e.generators[0]
            it = self.ev(g.iter, st, fq)
            if isinstance(it, (list, tuple)) and not g.ifs:
                out = []
                for x in it:
                    s2 = st.fork()
                    self.bind_target(g.target, x, s2)
                    out.append(self.ev(e.elt, s2, fq))
                return out
            s2 = st.fork()
            self.bind_target(g.target, self.abstract_elem(g.iter, st, fq), s2)
            v = self.ev(e.elt, s2, fq)
            if isinstance(v, Roots):
                return Roots(v)
            if isinstance(v, Fresh):
                return v
            return OPAQUE
        if isinstance(e, ast.Subscript):
            base = self.ev(e.value, st, fq)
            if isinstance(base, tuple):
                if isinstance(e.slice, ast.Slice):
                    lo = self.ev(e.slice.lower, st, fq) if e.slice.lower else None
                    hi = self.ev(e.slice.upper, st, fq) if e.slice.upper else None
                    if all(x is None or (isinstance(x, int) and not isinstance(x, bool)) for x in (lo, hi)) and e.slice.step is None:
                        return base[lo:hi]
                    return OPAQUE
                i = self.ev(e.slice, st, fq)
                if isinstance(i, int) and not isinstance(i, bool) and -len(base) <= i < len(base):
                    return base[i]
                return OPAQUE
        if isinstance(e, ast.BinOp) and isinstance(e.op, ast.Add):
            a, b = self.ev(e.left, st, fq), self.ev(e.right, st, fq)
            if isinstance(a, list) and isinstance(b, list):
                return a + b
            if isinstance(a, tuple) and isinstance(b, tuple):
                return a + b
        if isinstance(e, ast.Attribute):
            base = self.ev(e.value, st, fq) if src(e) not in st.env else None
            if isinstance(base, Sym) and base.kind == "mgr":
                return Sym("mattr", (base.arg, e.attr))
        if isinstance(e, ast.Compare) and len(e.ops) == 1:
            a, b = self.ev(e.left, st, fq), self.ev(e.comparators[0], st, fq)
            op = e.ops[0]
            if isinstance(a, Roots) and isinstance(b, Roots) and isinstance(op, (ast.Is, ast.IsNot)):
                if len(a) == 1 and a == b:
                    return isinstance(op, ast.Is)
                if not (set(a) & set(b)):
                    return isinstance(op, ast.IsNot)
                return OPAQUE
            if isinstance(a, Sym) and isinstance(b, Sym) and a != b and type(op) in _CMP_SIGNS \
                    and {a.kind, b.kind} <= {"mattr", "lattr"}:
                return self.decide_cmp(Sym("cmp", (type(op).__name__, repr(a), repr(b))), st)
        if isinstance(e, ast.UnaryOp) and isinstance(e.op, ast.Not):
            v = self.ev(e.operand, st, fq)
            if isinstance(v, Sym) and v.kind == "cmp":
                return Sym("cmp", (_CMP_NEG[v.arg[0]], v.arg[1], v.arg[2]))
        if isinstance(e, ast.IfExp):
            t = self.ev(e.test, st, fq)
            if isinstance(t, Sym) and t.kind == "cmp":
                t = self.decide_cmp(t, st)
            if isinstance(t, bool):
                return self.ev(e.body if t else e.orelse, st, fq)
            a, b = self.ev(e.body, st, fq), self.ev(e.orelse, st, fq)
            return a if repr(a) == repr(b) else OPAQUE
        return super().ev(e, st, fq)

    # ------------------------------------------------------------ remembered comparisons
    @staticmethod
    def _signs(v):
        op, a, b = v.arg
        s = _CMP_SIGNS[getattr(ast, op)]
        if a > b:
            a, b = b, a
            s = frozenset({"<": ">", ">": "<", "=": "="}[x] for x in s)
        return (a, b), s

    def decide_cmp(self, v, st):
        """a comparison whose outcome follows from what the path has already assumed is a constant"""
        key, s = self._signs(v)
        have = dict(st.env.get("<facts>", ())).get(key)
        if have is not None:
            if have <= s:
                return True
            if not (have & s):
                return False
        return v

    def learn(self, v, truth, st):
        key, s = self._signs(v)
        if not truth:
            s = frozenset("<=>") - s
        facts = dict(st.env.get("<facts>", ()))
        facts[key] = facts.get(key, frozenset("<=>")) & s
        st.env["<facts>"] = tuple(sorted(facts.items(), key=lambda kv: kv[0]))

    # ------------------------------------------------------------ statements
    def stmt(self, n, st, fq):
        if isinstance(n, ast.Expr) and isinstance(n.value, ast.Call) and src(n.value.func) in ("np.copyto", "numpy.copyto") \
                and len(n.value.args) >= 2:
            # np.copyto(dst, src) is the store dst[...] = src
            dst, val = self.ev(n.value.args[0], st, fq), self.ev(n.value.args[1], st, fq)
            if isinstance(dst, Roots):
                if self.unknown_value(val, n.value.args[1]):
                    self.problem(st, "store-undecided", f"the value copied by `{src(n)[:70]}` could not be followed back to the arrays of the transpose", n, fq)
                self.check_extent(st, dst, n, fq, "destination")
                self.check_extent(st, val, n, fq, "source")
                self.event(st, self.roots_of(val), set(dst), n, fq)
                return [st]
            if not isinstance(dst, Fresh):
                self.problem(st, "array-argument-undecided", f"the target of `{src(n)[:60]}` could not be followed", n, fq)
            return [st]
        if isinstance(n, ast.Expr) and isinstance(n.value, ast.Call):
            c = n.value
            nm = c.func.attr if isinstance(c.func, ast.Attribute) else c.func.id if isinstance(c.func, ast.Name) else ""
            if nm not in _COLLECTIVES and nm not in ("warn", "print", "format", "Barrier", "barrier") and not self.prog.resolve(c, self.rel):
                given = [a for a in list(c.args) + [k.value for k in c.keywords] if isinstance(self.ev(a, st, fq), Roots)]
                recv = self.ev(c.func.value, st, fq) if isinstance(c.func, ast.Attribute) else None
                if given or (isinstance(recv, Roots) and nm not in ("any", "all", "sum", "min", "max")):
                    # a call that is handed one of the arrays and is not one of the analysed routines: it may write it
                    self.problem(st, "call-undecided", f"`{src(n)[:70]}` is given an array of the transpose; what it does with it is not known", n, fq)
                    return [st]
        if isinstance(n, ast.Assign) and isinstance(n.value, ast.Call):
            # `x = f(<array>, ...)` with f none of the analysed routines, not a numpy function, not a method of an array and not a
            # builtin that only inspects its arguments: f may write the array or return a copy the analysis cannot relate to it
            c = n.value
            f = c.func
            nm = f.attr if isinstance(f, ast.Attribute) else f.id if isinstance(f, ast.Name) else ""
            if nm not in _COLLECTIVES and not self.prog.resolve(c, self.rel) and self.generator_items(c, st.fork(), fq) is None:
                recv_np = isinstance(f, ast.Attribute) and isinstance(f.value, ast.Name) and f.value.id in ("np", "numpy", "math", "warnings")
                recv_val = self.ev(f.value, st, fq) if isinstance(f, ast.Attribute) and not recv_np else None
                inspects = isinstance(f, ast.Name) and f.id in _INSPECTING_BUILTINS
                if not (recv_np or isinstance(recv_val, (Roots, Fresh)) or inspects):
                    given = [a for a in list(c.args) + [k.value for k in c.keywords] if isinstance(self.ev(a, st, fq), Roots)]
                    if given:
                        self.problem(st, "call-undecided", f"`{src(n)[:70]}` hands an array of the transpose to a routine that was not analysed", n, fq)
        if isinstance(n, ast.AugAssign) and isinstance(n.target, ast.Name) and isinstance(st.env.get(n.target.id), list):
            st.env[n.target.id] = OPAQUE
            return [st]
        if isinstance(n, ast.If):
            t = self.ev(n.test, st, fq)
            if isinstance(t, Sym) and t.kind == "cmp":
                t = self.decide_cmp(t, st)
            if isinstance(t, Sym) and t.kind == "cmp":
                ts = src(n.test)
                a, b = st.fork(), st.fork()
                a.tok = a.tok.with_(assumed=a.tok.assumed + (ts,))
                b.tok = b.tok.with_(assumed=b.tok.assumed + ("not (" + ts + ")",))
                self.learn(t, True, a)
                self.learn(t, False, b)
                return self.block(n.body, [a], fq) + self.block(n.orelse, [b], fq)
            if isinstance(t, bool) and self.assumed_value(n.test) is None:
                return self.block(n.body if t else n.orelse, [st], fq)
        if isinstance(n, ast.Assign) and len(n.targets) == 1 and isinstance(n.targets[0], ast.Name) and not isinstance(n.value, ast.Call):
            v = self.ev(n.value, st, fq)
            if isinstance(v, Sym) and v.kind == "cmp":
                st.env[n.targets[0].id] = v
                return [st]
        return super().stmt(n, st, fq)

    def run(self, fn, st, fq):
        """a path on which a CALLEE raises does not come back to the caller (the engine would let it continue after the call, and join
        it with the path that returned normally, which then carries the mark `<raises>` and is discarded as a whole): it ends there.
        (Handlers of an enclosing `try` are not followed anyway.)  The raising paths of the entry routine itself are kept: the flow
        check leaves them out by their mark."""
        n0 = st.tok.assumed.count("<raises>")
        outs = super().run(fn, st, fq)
        if len(self.stack) > 1:
            outs = [o for o in outs if o.tok.assumed.count("<raises>") == n0]
        return outs

    def moves_field(self, loop):
        """does the loop body call a routine of the analysed classes that is given arrays (a layout step)?"""
        for c in ast.walk(loop):
            if isinstance(c, ast.Call) and isinstance(c.func, ast.Attribute):
                for owner, effs in self.effects.items():
                    e_ = effs.get(c.func.attr)
                    if e_ is not None and len(e_.params) >= 2 and src(c.func.value).startswith(("self", "cls", owner)) \
                            and len(c.args) + len(c.keywords) >= len(e_.params):
                        return True
        return False

    def check_extent(self, st, view, node, fq, side):
        if st.env.get("<lay_dst>") is None and st.env.get("<lay_src>") is None and self.laystack:
            saved = (st.env.get("<lay_src>"), st.env.get("<lay_dst>"))
            st.env["<lay_src>"], st.env["<lay_dst>"] = self.laystack[-1]
            try:
                return super().check_extent(st, view, node, fq, side)
            finally:
                st.env["<lay_src>"], st.env["<lay_dst>"] = saved
        return super().check_extent(st, view, node, fq, side)

    # ------------------------------------------------------------ calls
    def exec_call(self, e, st, fq, want_value):
        f = e.func
        name = f.id if isinstance(f, ast.Name) else f.attr if isinstance(f, ast.Attribute) else ""
        if name in _COLLECTIVES + ("Bcast", "Reduce", "Allreduce") and len(e.args) >= 2:
            # ASSUMPTION of the engine's reading of a collective (field moves from the send to the receive buffer): both buffers are
            # views of known arrays.  A buffer that was not followed makes the path undecided; a local array that receives takes over
            # what the send buffer holds
            vals = []
            for a, role in zip(e.args[:2], ("send", "receive")):
                v = self.ev(a, st, fq)
                if isinstance(v, (tuple, list)) and v:
                    v = v[0]
                vals.append(v)
                if not isinstance(v, (Roots, Fresh)):
                    self.problem(st, "array-argument-undecided", f"the {role} buffer `{src(a)[:50]}` of `{src(e)[:60]}` could not be followed", e, fq)
            if isinstance(vals[1], Fresh):
                b = e.args[1]
                if isinstance(b, (ast.Tuple, ast.List)) and b.elts:
                    b = b.elts[0]
                for _ in range(6):
                    if isinstance(b, ast.Subscript):
                        b = b.value
                    elif isinstance(b, ast.Call) and isinstance(b.func, ast.Attribute) and b.func.attr in _VIEW_METHODS:
                        b = b.func.value
                    else:
                        break
                if isinstance(b, ast.Name) and isinstance(st.env.get(b.id), Fresh):
                    st.env[b.id] = Fresh(frozenset(st.env[b.id].derived | self.roots_of(vals[0])))
                else:
                    self.problem(st, "array-argument-undecided", f"the local receive buffer `{src(e.args[1])[:50]}` of `{src(e)[:60]}` could not be followed", e, fq)
        return super().exec_call(e, st, fq, want_value)

    def invoke(self, call, q, fn, st, fq):
        params = [a.arg for a in fn.args.args]
        if params and params[0] in ("self", "cls"):
            params = params[1:]
        dvals = dict(zip(params[len(params) - len(fn.args.defaults):], fn.args.defaults))
        if any(isinstance(d, ast.Name) and d.id == "staticmethod" for d in fn.decorator_list) and [a.arg for a in fn.args.args][:1] not in (["self"], ["cls"]):
            params = [a.arg for a in fn.args.args]
        bound = {}
        # positional arguments; `*seq` stands for the items of seq when they are known (a tuple built by the caller or yielded by a
        # generator), otherwise every parameter from there on is unknown (never bound to the sequence itself)
        pos, star_unknown = [], False
        for a in call.args:
            if isinstance(a, ast.Starred):
                v = self.ev(a.value, st, fq)
                if isinstance(v, (tuple, list)):
                    pos += list(v)
                else:
                    star_unknown = True
                    break
            else:
                pos.append(self.ev(a, st, fq))
        for i, v in enumerate(pos):
            if i < len(params):
                bound[params[i]] = v
        for k in call.keywords:
            if k.arg in params:
                bound[k.arg] = self.ev(k.value, st, fq)
            elif k.arg is None:
                star_unknown = True
        for p in params:
            if p not in bound:
                bound[p] = OPAQUE if star_unknown else (self.ev(dvals[p], st, fq) if p in dvals else OPAQUE)
        short, owner = q.split(".")[-1], q.split(".")[0]
        lay_src = bound.get("layout_source", bound.get("source_name"))
        lay_dst = bound.get("layout_dest", bound.get("dest_name"))
        is_kernel_step = {"source", "dest", "layout_source", "layout_dest"} <= set(params)
        is_step = is_kernel_step or short == "transpose"
        if is_step and lay_src is not None:
            cur, got = unwrap(st.tok.layout), unwrap(lay_src)
            if isinstance(got, Sym) and isinstance(cur, Sym) and got != cur:
                self.problem(st, "layout-bookkeeping", f"step called with source layout `{got}` but the data is in layout `{cur}`", call, fq)
            elif not isinstance(got, Sym):
                self.problem(st, "layout-bookkeeping-undecided", f"cannot identify the source layout argument `{src(call)[:60]}`", call, fq)
        # array arguments: each is a view of known buffers (or None where the parameter may be absent)
        arrs = [p for p in params if p in ARRAY_NAMES]
        for p in arrs:
            v = bound[p]
            if not (isinstance(v, Roots) or (v is None and (p in dvals or p == "buf"))):
                self.problem(st, "array-argument-undecided", f"the array passed as `{p}` in `{src(call)[:70]}` could not be followed", call, fq)
        eff = self.effects.get(owner, {}).get(short)
        if eff is not None:
            for i, a in enumerate(arrs):
                for b in arrs[i + 1:]:
                    va, vb = bound[a], bound[b]
                    if isinstance(va, Roots) and isinstance(vb, Roots) and set(va) & set(vb) and frozenset((a, b)) in eff.pairs:
                        hard = eff.hard.get(frozenset((a, b)), True)
                        self.problem(st, "aliasing" if hard else "aliasing-undecided",
                                     f"`{src(call)[:80]}` binds `{a}` and `{b}` of {short} to the same array "
                                     f"`{'/'.join(sorted(set(va) & set(vb)))}`" + (", but they must not overlap: " if hard else
                                                                                  "; whether that is intended was not established: ")
                                     + eff.pairs[frozenset((a, b))], call, fq)
        use_contract = (q in self.stack) or (short in self.contract_funcs and self.stack) or len(self.stack) >= self.max_depth
        recv_is_other_mgr = isinstance(call.func, ast.Attribute) and not (isinstance(call.func.value, ast.Name) and call.func.value.id == "self") \
            and short == "transpose"
        if recv_is_other_mgr:
            use_contract = True
        if use_contract:
            if short != "transpose":
                raise AnalysisError(f"recursion through {q} has no contract")
            s_, d_, b_ = bound.get("source"), bound.get("dest"), bound.get("buf")
            if not isinstance(s_, Roots) or not isinstance(d_, Roots):
                self.problem(st, "contract-args-undecided", f"cannot identify buffers in `{src(call)[:60]}`", call, fq)
                return [(st, OPAQUE)]
            if set(s_) & set(d_) or (isinstance(b_, Roots) and set(b_) & (set(s_) | set(d_))):
                self.problem(st, "aliasing", f"`{src(call)[:80]}` calls transpose with overlapping arrays: source, dest and buf must be distinct",
                             call, fq)
            self.event(st, set(s_), set(d_), call, fq, what=f"contract {q}({sorted(s_)}->{sorted(d_)})")
            st.tok = st.tok.with_(writes=st.tok.writes | frozenset(b_ if isinstance(b_, Roots) else s_))
            if lay_dst is not None:
                st.tok = st.tok.with_(layout=unwrap(lay_dst))
            if owner == "LayoutSwapper" and not recv_is_other_mgr:
                st.env["self._current_manager"] = Sym("mgr", unwrap(lay_dst))
                st.tok = st.tok.with_(attrs=tuple(x for x in st.tok.attrs if x[0] != "self._current_manager") +
                                      (("self._current_manager", Sym("mgr", unwrap(lay_dst))),))
            return [(st, None)]
        env2 = {k: v for k, v in st.env.items() if k.startswith("self.") or k in ("<same-name>", "<facts>")}
        env2.update(bound)
        env2["self"] = OPAQUE
        env2["<lay_dst>"] = lay_dst if is_kernel_step else None
        env2["<lay_src>"] = lay_src if is_kernel_step else None
        callee_state = State(env2, st.tok)
        self.stack.append(q)
        if is_kernel_step:
            self.laystack.append((lay_src, lay_dst))
        try:
            outs = self.run(fn, callee_state, q)
        finally:
            self.stack.pop()
            if is_kernel_step:
                self.laystack.pop()
        results = []
        for o in outs:
            s3 = State(dict(st.env), o.tok)
            for k, v in o.env.items():
                if k.startswith("self.") or k == "<facts>":
                    s3.env[k] = v
            if is_step and lay_dst is not None:
                s3.tok = s3.tok.with_(layout=unwrap(lay_dst))
            results.append((s3, o.retval))
        return results


_INSPECTING_BUILTINS = {"len", "zip", "enumerate", "list", "tuple", "range", "slice", "reversed", "iter", "next", "sorted", "isinstance", "id", "min",
                        "max", "sum", "any", "all", "int", "float", "bool", "str", "type", "print", "repr", "abs", "divmod", "map", "filter", "hasattr",
                        "getattr", "memoryview"}
_CMP_SIGNS = {ast.Lt: frozenset("<"), ast.LtE: frozenset("<="), ast.Gt: frozenset(">"), ast.GtE: frozenset(">="),
              ast.Eq: frozenset("="), ast.NotEq: frozenset("<>")}
_CMP_NEG = {"Lt": "GtE", "GtE": "Lt", "Gt": "LtE", "LtE": "Gt", "Eq": "NotEq", "NotEq": "Eq"}


def _short_path(assumed):
    out = []
    for a in assumed:
        if not out or out[-1] != a:
            out.append(a)
    return "; ".join(out) or "-"


def safe_flow_check(chk, prog, rel, cls, entry="transpose", extra_final=None):
    """flow_check; when the interpreter gives up (state explosion, recursion without contract) the flow rules are undecided and the
    remaining rules of the check still run"""
    try:
        return flow_check(chk, prog, rel, cls, entry, extra_final)
    except AnalysisError as e:
        chk.ob("D0-flow-undecided", chk.mod(rel).func(f"{cls}.{entry}"), f"field-location flow over {cls}.{entry}", None,
               f"cannot decide: the field-location flow could not be completed ({e})", file=rel, func=f"{cls}.{entry}")
        return None


def flow_check(chk, prog, rel, cls, entry="transpose", extra_final=None):
    """run the field-location flow over cls.transpose for buf in {None, given} x route lengths"""
    mod = chk.mod(rel)
    fn = mod.func(f"{cls}.{entry}")
    summary = {}
    n_paths = 0
    effects = {c: class_effects(mod, c) for c in ("LayoutHandler", "LayoutSwapper") if mod.has(c)}
    alias_seen = set()
    any_lost = {}
    for buf_given in (False, True):
        for n in ROUTE_LENGTHS:
            it = FlowInterp(prog, rel, cls, chk, {"nSteps": n}, assume_false={"self._buffer_size == 0"},
                            contract_funcs=("transpose",), effects=effects)
            st = entry_state(buf_given)
            it.stack.append(f"{cls}.{entry}")
            outs = it.run(fn, st, f"{cls}.{entry}")
            for q in it.executed:
                chk.functions.add(f"{rel}:{q}")
            bdesc = "buf given" if buf_given else "buf=None"
            finals = []
            for o in outs:
                t = o.tok
                if "<raises>" in t.assumed:
                    continue
                n_paths += 1
                path = _short_path(t.assumed)
                same = bool(o.env.get("<same-name>"))
                RULES = {"stale-read": "D3-no-stale-read", "clobber": "D3-no-clobber", "aliasing": "D1-distinct-buffers",
                         "layout-bookkeeping": "D4-layout-bookkeeping", "extent": "D5-view-extent"}
                lost = any(kind not in RULES for kind, *_ in t.problems)
                # D1/D3/D4/D5 problems recorded along the path.  ASSUMPTION of each: what the interpreter knew when it recorded the
                # problem was complete - for the token-dependent kinds (stale read, clobber, book-keeping, extent) nothing on the whole
                # path was left unfollowed; for `aliasing` (two parameters of one call bound to one array) nothing BEFORE the call
                lost_before = False
                for kind, msg, line, construct, fq in t.problems:
                    rule = RULES.get(kind)
                    if rule is None:
                        lost_before = True
                        chk.ob("D0-flow-undecided", None, construct, None, f"{msg} [{bdesc}, route length {n}]",
                               file=rel, func=fq)
                        continue
                    if (lost and kind != "aliasing") or (kind == "aliasing" and lost_before):
                        chk.ob("D0-flow-undecided", None, construct, None, f"{msg} - on a path the analysis could not follow completely "
                               f"[{bdesc}, route length {n}]", file=rel, func=fq)
                        continue
                    if kind == "aliasing":
                        if (construct, fq) in alias_seen:
                            continue
                        alias_seen.add((construct, fq))
                    # ASSUMPTION (checked above): decisive only on a path followed completely (`lost`/`lost_before` demote it to D0-flow-undecided)
                    o_ = chk.ob(rule, None, construct, False, f"{msg} [{bdesc}, route length {n}, path: {path}]",
                                file=rel, func=fq)
                    o_.line = line
                und = " (an array or layout argument could not be followed on this path: undecided)"
                # D2 result location
                ok = (t.loc == "dest")
                chk.ob("D2-result-in-dest", fn, f"{cls}.{entry}[{bdesc}; {'route length %d' % n if not same else 'same layout'}; {path}]",
                       ok if ok or not lost else None, "field ends in `dest`" if ok else
                       f"field ends in `{t.loc}`, the caller swaps its buffers assuming `dest` "
                       f"(trace: {[x[1] for x in t.trace][-4:]})" + (und if lost else ""), file=rel, func=f"{cls}.{entry}")
                # D4 final layout
                # ASSUMPTION: the layout the data is in is ONE layout name of the route (a symbol); anything else (a list of names, an
                # unknown value) means the layout argument of a step was mis-read: undecided
                lay = unwrap(t.layout)
                expect = {repr(Sym("name", "dest_name")), repr(Sym("step", n - 1))}
                if same:
                    expect.add(repr(Sym("name", "source_name")))
                okl = repr(lay) in expect
                lay_known = isinstance(lay, Sym) and lay.kind in ("name", "step")
                chk.ob("D4-final-layout", fn, f"{cls}.{entry}[{bdesc}; route length {n}; {path}]", okl if okl or (lay_known and not lost) else None,
                       "data is in the destination layout at exit" if okl else
                       f"data is in layout `{lay}` at exit, expected the destination layout" + (und if lost or not lay_known else ""), file=rel,
                       func=f"{cls}.{entry}")
                # D1 source intact.  ASSUMPTION: the write to `source` was attributed through names whose values were followed on the
                # whole path (on a path with an unfollowed loop/argument the buffer variables may be stale): else undecided
                if buf_given:
                    oks = "source" not in t.writes
                    chk.ob("D1-source-intact", fn, f"{cls}.{entry}[{bdesc}; route length {n}; {path}]", oks if oks or not lost else None,
                           "source is not in the write set" if oks else
                           f"`source` is written although a spare buffer was supplied "
                           f"(writes {[x for x in t.trace if 'source' in x[3]][:2]})" + (und if lost else ""), file=rel, func=f"{cls}.{entry}")
                if extra_final:
                    o.interp, o.lost = it, lost
                    extra_final(chk, o, bdesc, n, path, same)
                finals.append((t.loc, tuple(sorted(t.writes)), same, path.replace(str(n), "n")))
                any_lost[(buf_given, n)] = any_lost.get((buf_given, n), False) or lost
            summary[(buf_given, n)] = sorted(set((a, b, c) for a, b, c, d in finals))
    # 2-periodicity of the abstract result in the route length
    for buf_given in (False, True):
        for n in ROUTE_LENGTHS:
            if n >= 2 and n + 2 in ROUTE_LENGTHS:
                ok = summary[(buf_given, n)] == summary[(buf_given, n + 2)]
                if not ok and (any_lost.get((buf_given, n)) or any_lost.get((buf_given, n + 2))):
                    ok = None          # the final states of a path that was not followed completely are not comparable
                chk.ob("D2-periodic", fn, f"{cls}.{entry}[{'buf given' if buf_given else 'buf=None'}; n={n} vs n+2]",
                       ok, "abstract final state depends only on the parity of the route length "
                       "(so the enumerated lengths cover all lengths)" if ok else
                       f"final states differ between route lengths {n} and {n + 2}: {summary[(buf_given, n)]} vs "
                       f"{summary[(buf_given, n + 2)]}", file=rel, func=f"{cls}.{entry}")
    chk.extra.setdefault("flow_paths", 0)
    chk.extra["flow_paths"] += n_paths
    return summary


# --------------------------------------------------------------------------
# small syntax helpers shared by the layout/grid checks (C01-C04)
def clone(node):
    """private copy of a syntax tree (line numbers kept, parent links set inside the copy): rules that need a rewritten
    VIEW of a function work on such a copy, never on the module's own tree"""
    def cp(n):
        if isinstance(n, list):
            return [cp(x) for x in n]
        if not isinstance(n, ast.AST):
            return n
        new = type(n)()
        for f in n._fields:
            if hasattr(n, f):
                setattr(new, f, cp(getattr(n, f)))
        for a in ("lineno", "col_offset", "end_lineno", "end_col_offset"):
            if hasattr(n, a):
                setattr(new, a, getattr(n, a))
        if hasattr(n, "_qual"):
            new._qual = n._qual
        return new
    out = cp(node)
    link(out)
    return out


def link(root, top=None):
    for n in ast.walk(root):
        for ch in ast.iter_child_nodes(n):
            ch._parent = n
    if not hasattr(root, "_parent"):
        root._parent = top
    return root


class ModView:
    """a module in which some functions are replaced by rewritten (behaviour-preserving) views; everything else is the
    module itself.  Engines that take a module (`mod.func(q)`, `mod.rel`) can be run on the views."""

    def __init__(self, mod, views):
        self._mod, self._views = mod, dict(views)
        self.rel = mod.rel

    def func(self, q):
        return self._views.get(q) or self._mod.func(q)

    def has(self, q):
        return q in self._views or self._mod.has(q)

    def __getattr__(self, name):
        return getattr(self._mod, name)


# --------------------------------------------------------------------------
# the two single-step routines of a layout manager, found by ROLE: `X(source, dest, layout_source, layout_dest)` (the source is the
# workspace) and `X_source_intact(source, dest, buf, layout_source, layout_dest)`.  When the two were merged into one routine with an
# optional buffer (`buf=None`), each rule still reads the two behaviours: the merged routine specialised for `buf is None` and for
# `buf is not None` (tests on the parameter folded, `buf = source` written through).
STEP_PARAMS = {"source", "dest", "layout_source", "layout_dest"}


class _FoldNone(ast.NodeTransformer):
    """the tests `p is None` / `p is not None` / `p == None` / `p != None` are known"""

    def __init__(self, p, is_none):
        self.p, self.is_none = p, is_none

    def visit_Compare(self, node):
        self.generic_visit(node)
        if len(node.ops) == 1 and isinstance(node.ops[0], (ast.Is, ast.IsNot, ast.Eq, ast.NotEq)):
            a, b = node.left, node.comparators[0]
            for x, y in ((a, b), (b, a)):
                if isinstance(x, ast.Name) and x.id == self.p and isinstance(y, ast.Constant) and y.value is None:
                    truth = self.is_none if isinstance(node.ops[0], (ast.Is, ast.Eq)) else not self.is_none
                    return ast.copy_location(ast.Constant(value=truth), node)
        return node

    def visit_UnaryOp(self, node):
        self.generic_visit(node)
        if isinstance(node.op, ast.Not) and isinstance(node.operand, ast.Constant) and isinstance(node.operand.value, bool):
            return ast.copy_location(ast.Constant(value=not node.operand.value), node)
        return node

    def visit_BoolOp(self, node):
        self.generic_visit(node)
        is_and = isinstance(node.op, ast.And)
        vals = []
        for v in node.values:
            if isinstance(v, ast.Constant) and isinstance(v.value, bool):
                if v.value != is_and:
                    return ast.copy_location(ast.Constant(value=v.value), node)        # False in `and` / True in `or`
                continue
            vals.append(v)
        if not vals:
            return ast.copy_location(ast.Constant(value=is_and), node)
        if len(vals) == 1:
            return vals[0]
        node.values = vals
        return node

    def visit_IfExp(self, node):
        self.generic_visit(node)
        if isinstance(node.test, ast.Constant) and isinstance(node.test.value, bool):
            return node.body if node.test.value else node.orelse
        return node


def _fold_constant_ifs(fn):
    changed = True
    while changed:
        changed = False
        for owner, f, blk in list(_blocks_of(fn)):
            for k, st in enumerate(blk):
                if isinstance(st, ast.If) and isinstance(st.test, ast.Constant) and isinstance(st.test.value, bool):
                    taken = st.body if st.test.value else st.orelse
                    blk[k:k + 1] = list(taken)
                    if not blk:
                        blk.append(ast.copy_location(ast.Pass(), st))
                    changed = True
                    break
            if changed:
                break


def propagate_param_aliases(fn):
    """`p = q` at the top level of the function (p, q parameters; p bound nowhere else, q never rebound): the later reads of p are
    reads of q (the statement is dropped); `p = p` is dropped"""
    params = {a.arg for a in fn.args.args}
    n_done = 0
    for k, st in enumerate(list(fn.body)):
        if not (isinstance(st, ast.Assign) and len(st.targets) == 1 and isinstance(st.targets[0], ast.Name) and isinstance(st.value, ast.Name)):
            continue
        p, q = st.targets[0].id, st.value.id
        if p not in params or q not in params:
            continue
        if p == q:
            fn.body.remove(st)
            n_done += 1
            continue
        stores_p = sum(1 for x in ast.walk(fn) if isinstance(x, ast.Name) and x.id == p and isinstance(x.ctx, (ast.Store, ast.Del)))
        if stores_p != 1 or _stores(fn, q):
            continue
        idx = next(i for i, s_ in enumerate(fn.body) if s_ is st)
        for j in range(idx + 1, len(fn.body)):
            fn.body[j] = _Subst({p: ast.Name(id=q, ctx=ast.Load())}).visit(fn.body[j])
        fn.body.remove(st)
        n_done += 1
    if n_done:
        ast.fix_missing_locations(fn)
        link(fn)
    return n_done


def specialise_on_none(fn, p, is_none, new_name=None):
    """private copy of a routine for the calls in which parameter p is (is not) None"""
    v = clone(fn)
    v._parent = getattr(fn, "_parent", None)
    _FoldNone(p, is_none).visit(v)
    _fold_constant_ifs(v)
    split_parallel_assign(v)
    propagate_param_aliases(v)
    final = p
    if new_name and new_name != p and not _occurs(v, new_name) and not any(a.arg == new_name for a in v.args.args):
        for a in v.args.args:
            if a.arg == p:
                a.arg = new_name
        _RenameAll(p, new_name).visit(v)
        final = new_name
    names = [a.arg for a in v.args.args]
    pos = names.index(final)
    first_def = len(names) - len(v.args.defaults)
    if is_none:
        # the parameter is absent in these calls: when nothing reads it any more it is not one of the routine's arrays
        if not any(isinstance(x, ast.Name) and x.id == final for b_ in v.body for x in ast.walk(b_)):
            if pos >= first_def:
                del v.args.defaults[pos - first_def]
            del v.args.args[pos]
    elif pos >= first_def:
        # always given in these calls: a required parameter (the parameters after it keep their defaults)
        if pos == first_def:
            del v.args.defaults[0]
    ast.fix_missing_locations(v)
    link(v)
    v._parent = getattr(fn, "_parent", None)
    return v


def canonical_steps(mod, cls_name):
    """the module with `<cls>._transpose` and `<cls>._transpose_source_intact` present: the module itself when both exist; when they
    were merged into one routine with an optional spare buffer, a view holding the two specialisations of that routine"""
    if isinstance(mod, ModView):
        return mod
    cache = mod.__dict__.setdefault("_c01_canon_steps", {})
    if cls_name in cache:
        return cache[cls_name]
    q0, q1 = f"{cls_name}._transpose", f"{cls_name}._transpose_source_intact"
    out = mod
    if mod.has(cls_name) and not (mod.has(q0) and mod.has(q1)):
        meths = class_methods(mod, cls_name)
        merged = []
        for nm, m in meths.items():
            ps = [a.arg for a in m.args.args if a.arg not in ("self", "cls")]
            if not STEP_PARAMS <= set(ps):
                continue
            extra = [p_ for p_ in ps if p_ not in STEP_PARAMS]
            dflt = dict(zip([a.arg for a in m.args.args][len(m.args.args) - len(m.args.defaults):], m.args.defaults))
            opt = [p_ for p_ in extra if isinstance(dflt.get(p_), ast.Constant) and dflt[p_].value is None]
            if len(extra) == 1 and opt == extra:
                merged.append((nm, m, extra[0]))
        preferred = [x for x in merged if x[0] in ("_transpose", "_transpose_source_intact")] or merged
        if len(preferred) == 1:
            nm, m, p = preferred[0]
            va = specialise_on_none(m, p, True, "buf")
            vb = specialise_on_none(m, p, False, "buf")
            va.name, vb.name = "_transpose", "_transpose_source_intact"
            va._qual, vb._qual = q0, q1
            va._merged_from = vb._merged_from = f"{cls_name}.{nm}"
            out = ModView(mod, {q0: va, q1: vb})
    cache[cls_name] = out
    return out


def call_args(call, fndef):
    """parameter name -> argument expression of a call of `fndef` (positional and keyword), or None"""
    params = [a.arg for a in fndef.args.args]
    static = any(isinstance(d, ast.Name) and d.id == "staticmethod" for d in fndef.decorator_list)
    if params and params[0] in ("self", "cls") and not static:
        params = params[1:]
    if any(isinstance(a, ast.Starred) for a in call.args) or len(call.args) > len(params):
        return None
    m = dict(zip(params, call.args))
    kwonly = {a.arg for a in fndef.args.kwonlyargs}
    for k in call.keywords:
        if k.arg is not None and k.arg in kwonly:
            continue          # keyword-only options are not among the positional parameters the rules speak about
        if k.arg is None or k.arg not in params or k.arg in m:
            return None
        m[k.arg] = k.value
    defaults = dict(zip(params[len(params) - len(fndef.args.defaults):], fndef.args.defaults))
    for p_ in params:
        if p_ not in m and p_ in defaults:
            m[p_] = defaults[p_]
    return m


def xsrc(e, env):
    """source of an expression with the single-assignment locals of its function written out"""
    try:
        return src(expand(e, env))
    except Exception:
        return src(e)


def _xtext(text, env):
    try:
        e = ast.parse(text, mode="eval").body
    except SyntaxError:
        return text
    return xsrc(e, env)


def written_out(sl, env):
    """shape list whose overridden positions and values have their temporaries written out"""
    out = sl.copy()
    out.over = {_xtext(k, env): _xtext(v, env) for k, v in sl.over.items()}
    return out


_LAY = r"(?:layout_source|layout_dest|l1|l2)"
_AX = r"(?:axis\[[012]\]|0)"


def _known_factor(text):
    """is a factor of a block-size product written in the vocabulary the geometry rules understand?"""
    import re
    t = text.replace(" ", "")
    return bool(re.fullmatch(rf"{_LAY}\.(?:max_block_shape|shape|fullShape)\[{_AX}\]", t) or
                re.fullmatch(rf"{_LAY}\.(?:mpi_lengths|mpi_starts)\({_AX}\)\[\w+\]", t) or
                re.fullmatch(rf"{_LAY}\.nprocs\[{_AX}\]", t) or
                re.fullmatch(r"(?:comm|self\._subcomms\[axis\[[012]\]\])\.Get_size\(\)", t) or
                t in ("mpi_size", "nSplits") or re.fullmatch(r"\d+", t))


def _known_product(sl, roles=None):
    from ..geometry import _split_mul, rename
    import re
    if roles:
        # the two layout variables written by their roles (source / destination of the pair)
        sl = sl.copy()
        sl.base = rename(sl.base, roles)
        sl.over = {rename(k, roles): rename(v, roles) for k, v in sl.over.items()}
    return all(_known_factor(f) for v in sl.over.values() for f in _split_mul(v)) and \
        all(re.fullmatch(_AX, k.replace(" ", "")) for k in sl.over) and \
        bool(re.fullmatch(rf"{_LAY}\.shape", sl.base.replace(" ", "")))


def _defs(fn, name):
    return [n for n in ast.walk(fn) if isinstance(n, ast.Assign) and len(n.targets) == 1 and isinstance(n.targets[0], ast.Name)
            and n.targets[0].id == name]


def alternatives(fn, e, depth=4, guards=()):
    """the values an expression can take where it is used: a local bound by several guarded assignments is replaced by
    each of its definitions.  -> [([factor expressions of the product], [(test, polarity, kind)])]"""
    from ..core import guards_of
    if isinstance(e, ast.Name) and depth > 0:
        ds = _defs(fn, e.id)
        others = [n for n in ast.walk(fn) if isinstance(n, (ast.AugAssign, ast.For, ast.comprehension)) and
                  any(isinstance(x, ast.Name) and x.id == e.id for x in ast.walk(n.target))]
        scaled = [n for n in others if isinstance(n, ast.AugAssign) and isinstance(n.op, ast.Mult) and isinstance(n.target, ast.Name)]
        if ds and len(scaled) == len(others):
            out = []
            for d in ds:
                out += alternatives(fn, d.value, depth - 1, tuple(guards) + tuple(guards_of(d)))
            # `x *= f` under a guard: the value with and without the factor
            for a in scaled:
                more = []
                for fa, ga in out:
                    for fb, gb in alternatives(fn, a.value, depth - 1, tuple(guards_of(a))):
                        more.append((fa + fb, list(ga) + [g for g in gb if g not in ga]))
                out = out + more
            return out
        if ds or others:
            # bound in a way the rule does not follow (loop target, other augmented assignment): an unknown factor
            return [([ast.Name(id=f"<{e.id}: not followed>", ctx=ast.Load())], list(guards))]
    if isinstance(e, ast.Call) and src(e.func) in ("max", "min", "np.maximum", "np.minimum") and len(e.args) >= 2 and not e.keywords \
            and not any(isinstance(a, ast.Starred) for a in e.args) and depth > 0:
        # the larger / smaller of several values is one of them
        out = []
        for a in e.args:
            out += alternatives(fn, a, depth - 1, guards)
        return out
    if isinstance(e, ast.BinOp) and isinstance(e.op, ast.Mult):
        out = []
        for fa, ga in alternatives(fn, e.left, depth, guards):
            for fb, gb in alternatives(fn, e.right, depth, ()):
                out.append((fa + fb, list(ga) + [g for g in gb if g not in ga]))
        return out
    return [([e], list(guards))]


def reaching_def(fn, name, at):
    """the assignment `name = expr` that dominates statement `at` with no other binding of `name` in between (searched backwards in
    the block of `at`, then in the enclosing blocks), or None"""
    cur = at
    while cur is not None and cur is not fn:
        par = parent(cur)
        blk = None
        for f in ("body", "orelse", "finalbody"):
            b = getattr(par, f, None)
            if isinstance(b, list) and any(x is cur for x in b):
                blk = b
        if blk is None:
            return None
        idx = [i for i, x in enumerate(blk) if x is cur][0]
        for prev in reversed(blk[:idx]):
            if isinstance(prev, ast.Assign) and len(prev.targets) == 1 and isinstance(prev.targets[0], ast.Name) and prev.targets[0].id == name:
                return prev
            if _stores(prev, name):
                return None
        if isinstance(par, (ast.For, ast.While)) and (_stores(par, name)):
            return None
        cur = par
    return None


def resolve_at(fn, e, at, keep=(), depth=5):
    """expression with the locals replaced by their dominating definitions at statement `at` (names in `keep` stay)"""
    class R(ast.NodeTransformer):
        def visit_Name(self, node):
            if isinstance(node.ctx, ast.Load) and node.id not in keep and depth > 0:
                d = reaching_def(fn, node.id, at)
                if d is not None:
                    return resolve_at(fn, d.value, d, keep, depth - 1)
            return node
    new = ast.parse(ast.unparse(e), mode="eval").body
    return ast.fix_missing_locations(R().visit(new))


# --------------------------------------------------------------------------
# behaviour-preserving rewrites applied to a private copy of a function before rules/engines that read statement shapes
# look at it (the module's own tree is never changed)
def _blocks_of(node):
    for n in ast.walk(node):
        for f in ("body", "orelse", "finalbody"):
            b = getattr(n, f, None)
            if isinstance(b, list) and b and isinstance(b[0], ast.stmt):
                yield n, f, b


def _stores(node, name):
    return any(isinstance(x, ast.Name) and x.id == name and isinstance(x.ctx, (ast.Store, ast.Del)) for x in ast.walk(node))


def _occurs(node, name):
    return any(isinstance(x, ast.Name) and x.id == name for x in ast.walk(node))


def fold_none_tests(fn):
    """`x = None` / `x = tuple(...)` directly followed (no other binding of x in between) by `if x is None:` / `if x is not None:`:
    the test is known, the statement is the arm that is taken"""
    changed = True
    n_done = 0
    while changed:
        changed = False
        for owner, f, blk in list(_blocks_of(fn)):
            for k, st in enumerate(blk):
                if not (isinstance(st, ast.If) and isinstance(st.test, ast.Compare) and len(st.test.ops) == 1
                        and isinstance(st.test.ops[0], (ast.Is, ast.IsNot)) and isinstance(st.test.left, ast.Name)
                        and isinstance(st.test.comparators[0], ast.Constant) and st.test.comparators[0].value is None):
                    continue
                x = st.test.left.id
                known = None
                for j in range(k - 1, -1, -1):
                    prev = blk[j]
                    if isinstance(prev, ast.Assign) and len(prev.targets) == 1 and isinstance(prev.targets[0], ast.Name) and prev.targets[0].id == x:
                        v = prev.value
                        if isinstance(v, ast.Constant) and v.value is None:
                            known = True
                        elif isinstance(v, (ast.Tuple, ast.List, ast.ListComp, ast.Dict)) or \
                                (isinstance(v, ast.Call) and src(v.func) in ("tuple", "list", "slice", "dict", "np.array", "np.empty", "np.zeros")) or \
                                (isinstance(v, ast.Constant) and v.value is not None):
                            known = False
                        break
                    if _stores(prev, x):
                        break
                if known is None:
                    continue
                taken = st.body if (known == isinstance(st.test.ops[0], ast.Is)) else st.orelse
                blk[k:k + 1] = list(taken)
                if not blk:
                    blk.append(ast.copy_location(ast.Pass(), st))
                changed = True
                n_done += 1
                break
            if changed:
                break
    return n_done


def _ends_flow(blk):
    return bool(blk) and isinstance(blk[-1], (ast.Return, ast.Raise, ast.Break, ast.Continue))


def early_return_to_else(fn):
    """at the end of a function `if c: A; return` followed by R is `if c: A else: R` (only for value-less returns, in tail position)"""
    n_done = 0

    def tail(blk):
        nonlocal n_done
        for k, st in enumerate(blk):
            if isinstance(st, ast.If) and st.body and isinstance(st.body[-1], ast.Return) and \
                    (st.body[-1].value is None or (isinstance(st.body[-1].value, ast.Constant) and st.body[-1].value.value is None)) \
                    and k + 1 < len(blk) and not any(isinstance(x, ast.Return) and x is not st.body[-1] for b_ in st.body for x in ast.walk(b_)):
                rest = blk[k + 1:]
                if any(isinstance(x, (ast.FunctionDef, ast.ClassDef)) for x in rest):
                    continue
                del blk[k + 1:]
                st.body = st.body[:-1] or [ast.copy_location(ast.Pass(), st)]
                st.orelse = list(st.orelse) + rest
                n_done += 1
                break
        if blk and isinstance(blk[-1], ast.If):
            tail(blk[-1].body)
            if blk[-1].orelse:
                tail(blk[-1].orelse)
    tail(fn.body)
    return n_done


def duplicate_tail(fn, max_len=4):
    """`if c: A else: B` followed by a short straight-line tail R that reads a name bound in only one of the arms is
    `if c: A; R else: B; R` (in tail position of the function)"""
    n_done = 0

    def tail(blk):
        nonlocal n_done
        for k, st in enumerate(blk):
            rest = blk[k + 1:]
            if not (isinstance(st, ast.If) and rest and len(rest) <= max_len):
                continue
            if not all(isinstance(x, (ast.Assign, ast.Expr, ast.AugAssign, ast.Assert, ast.Pass, ast.Return)) for x in rest):
                continue
            bound_a = {x.id for b_ in st.body for x in ast.walk(b_) if isinstance(x, ast.Name) and isinstance(x.ctx, ast.Store)}
            bound_b = {x.id for b_ in st.orelse for x in ast.walk(b_) if isinstance(x, ast.Name) and isinstance(x.ctx, ast.Store)}
            partial = bound_a ^ bound_b
            if not any(isinstance(x, ast.Name) and isinstance(x.ctx, ast.Load) and x.id in partial for r_ in rest for x in ast.walk(r_)):
                continue
            if k + 1 + len(rest) != len(blk):
                continue
            del blk[k + 1:]
            if not _ends_flow(st.body):
                st.body = list(st.body) + [clone(r_) for r_ in rest]
            if not _ends_flow(st.orelse):
                st.orelse = [x for x in st.orelse if not isinstance(x, ast.Pass)] + [clone(r_) for r_ in rest]
            n_done += 1
            break
        if blk and isinstance(blk[-1], ast.If):
            tail(blk[-1].body)
            if blk[-1].orelse:
                tail(blk[-1].orelse)
    tail(fn.body)
    return n_done


class _RenameFrom(ast.NodeTransformer):
    def __init__(self, old, new):
        self.old, self.new = old, new

    def visit_Name(self, node):
        if node.id == self.old:
            node.id = self.new
        return node


def split_self_updates(fn):
    """`x = f(x)` at the top level of a block that is not inside a loop, x not used after the block: the new value gets a new
    name (x__v2) in the rest of the block.  Engines that forget what they know about x when x is rebound then keep both facts."""
    link(fn)
    n_done = 0
    for owner, f, blk in list(_blocks_of(fn)):
        # not inside a loop
        p, inside_loop = owner, False
        while p is not None and p is not fn:
            if isinstance(p, (ast.For, ast.While)):
                inside_loop = True
            p = getattr(p, "_parent", None)
        if inside_loop or isinstance(owner, (ast.For, ast.While)):
            continue
        for k, st in enumerate(blk):
            if not (isinstance(st, ast.Assign) and len(st.targets) == 1 and isinstance(st.targets[0], ast.Name)):
                continue
            x = st.targets[0].id
            if not any(isinstance(n, ast.Name) and n.id == x for n in ast.walk(st.value)):
                continue
            # x must not be read after this block on any continuation
            live, node, cur_blk = False, owner, blk
            child = None
            while True:
                if child is not None:
                    idx = next((i for i, s_ in enumerate(cur_blk) if s_ is child), None)
                    if idx is not None and any(_occurs(s_, x) for s_ in cur_blk[idx + 1:]):
                        live = True
                        break
                if node is fn or node is None:
                    break
                child = node
                par = getattr(node, "_parent", None)
                cur_blk = None
                if par is not None:
                    for f2 in ("body", "orelse", "finalbody"):
                        b2 = getattr(par, f2, None)
                        if isinstance(b2, list) and any(s_ is node for s_ in b2):
                            cur_blk = b2
                if cur_blk is None:
                    live = True
                    break
                node = par
            if live:
                continue
            new = f"{x}__v{n_done + 2}"
            if any(isinstance(n, ast.Name) and n.id == new for n in ast.walk(fn)):
                continue
            st.targets[0].id = new
            for j in range(k + 1, len(blk)):
                blk[j] = _RenameFrom(x, new).visit(blk[j])
            n_done += 1
    link(fn)
    return n_done


def normal_view(fn):
    """private, behaviour-preserving rewrite of a function: known `is None` tests folded, early `return` turned into `else`, a short
    common tail copied into both arms of the final `if`, `x = f(x)` given a fresh name"""
    v = clone(fn)
    v._parent = getattr(fn, "_parent", None)
    fold_none_tests(v)
    early_return_to_else(v)
    duplicate_tail(v)
    split_self_updates(v)
    ast.fix_missing_locations(v)
    link(v)
    v._parent = getattr(fn, "_parent", None)
    return v


# --------------------------------------------------------------------------
# further behaviour-preserving rewrites of a private copy: calling convention, parallel assignment, delegation to a sibling method,
# branch combinations that contradict each other
def class_methods(mod, cls_name):
    return {m.name: m for m in mod.cls(cls_name).body if isinstance(m, ast.FunctionDef)}


def positional_calls(fn, cls_name, meths):
    """calls of methods of the same class written with keyword arguments are written positionally (same binding)"""
    n_done = 0
    for c in [c for c in ast.walk(fn) if isinstance(c, ast.Call) and c.keywords]:
        g = _own_class_call(c, cls_name, meths)
        if g is None:
            continue
        m = call_args(c, meths[g])
        if m is None:
            continue
        params = [a.arg for a in meths[g].args.args]
        static = any(isinstance(d, ast.Name) and d.id == "staticmethod" for d in meths[g].decorator_list)
        if params and params[0] in ("self", "cls") and not static:
            params = params[1:]
        supplied = [p_ for p_ in params if p_ in m]
        if supplied != params[:len(supplied)]:
            continue
        c.args = [m[p_] for p_ in supplied]
        c.keywords = []
        n_done += 1
    return n_done


def split_parallel_assign(fn):
    """`a, b = x, y` (plain names on the left, none of them read on the right) is `a = x; b = y`"""
    n_done = 0
    for owner, f, blk in list(_blocks_of(fn)):
        k = 0
        while k < len(blk):
            st = blk[k]
            if isinstance(st, ast.Assign) and len(st.targets) == 1 and isinstance(st.targets[0], ast.Tuple) and isinstance(st.value, ast.Tuple) \
                    and len(st.targets[0].elts) == len(st.value.elts) and all(isinstance(t, ast.Name) for t in st.targets[0].elts):
                names = {t.id for t in st.targets[0].elts}
                if len(names) == len(st.targets[0].elts) and not any(isinstance(x, ast.Name) and x.id in names for v in st.value.elts for x in ast.walk(v)):
                    new = [ast.copy_location(ast.Assign(targets=[ast.Name(id=t.id, ctx=ast.Store())], value=v), st)
                           for t, v in zip(st.targets[0].elts, st.value.elts)]
                    blk[k:k + 1] = new
                    k += len(new)
                    n_done += 1
                    continue
            k += 1
    return n_done


def conditional_comprehensions(fn):
    """`X = [V1 if k == P1 else V2 if k == P2 else D(x) for k, x in enumerate(S)]` (V1, V2, P1, P2 independent of k and x) builds
    the same list as `X = [D(x) for x in S]; X[P2] = V2; X[P1] = V1`: written that way"""
    n_done = 0
    for owner, f, blk in list(_blocks_of(fn)):
        k_ = 0
        while k_ < len(blk):
            st = blk[k_]
            k_ += 1
            if not (isinstance(st, ast.Assign) and len(st.targets) == 1 and isinstance(st.targets[0], ast.Name)):
                continue
            wrap, comp = None, st.value
            if isinstance(comp, ast.Call) and src(comp.func) in ("tuple", "list") and len(comp.args) == 1 and not comp.keywords \
                    and isinstance(comp.args[0], (ast.ListComp, ast.GeneratorExp)):
                wrap, comp = src(comp.func), comp.args[0]
            if not (isinstance(comp, (ast.ListComp, ast.GeneratorExp)) and (wrap is not None or isinstance(comp, ast.ListComp))
                    and len(comp.generators) == 1 and not comp.generators[0].ifs and isinstance(comp.elt, ast.IfExp)):
                continue
            st_value = comp
            g = st_value.generators[0]
            if not (isinstance(g.iter, ast.Call) and src(g.iter.func) == "enumerate" and len(g.iter.args) == 1 and isinstance(g.target, ast.Tuple)
                    and len(g.target.elts) == 2 and all(isinstance(x, ast.Name) for x in g.target.elts)):
                continue
            kv, xv = g.target.elts[0].id, g.target.elts[1].id
            cases, e, ok = [], st_value.elt, True
            while isinstance(e, ast.IfExp):
                t = e.test
                pos = None
                if isinstance(t, ast.Compare) and len(t.ops) == 1 and isinstance(t.ops[0], ast.Eq):
                    l_, r_ = t.left, t.comparators[0]
                    if isinstance(l_, ast.Name) and l_.id == kv:
                        pos = r_
                    elif isinstance(r_, ast.Name) and r_.id == kv:
                        pos = l_
                if pos is None or any(isinstance(x, ast.Name) and x.id in (kv, xv) for y in (pos, e.body) for x in ast.walk(y)):
                    ok = False
                    break
                cases.append((pos, e.body))
                e = e.orelse
            if not ok or not cases or any(isinstance(x, ast.Name) and x.id == kv for x in ast.walk(e)):
                continue
            X = st.targets[0].id
            base = ast.copy_location(ast.Assign(targets=[ast.Name(id=X, ctx=ast.Store())], value=ast.ListComp(
                elt=e, generators=[ast.comprehension(target=ast.Name(id=xv, ctx=ast.Store()), iter=g.iter.args[0], ifs=[], is_async=0)])), st)
            new = [base]
            for pos, val in reversed(cases):
                new.append(ast.copy_location(ast.Assign(targets=[ast.Subscript(value=ast.Name(id=X, ctx=ast.Load()), slice=pos, ctx=ast.Store())],
                                                        value=val), st))
            if wrap == "tuple":
                new.append(ast.copy_location(ast.Assign(targets=[ast.Name(id=X, ctx=ast.Store())], value=ast.Call(
                    func=ast.Name(id="tuple", ctx=ast.Load()), args=[ast.Name(id=X, ctx=ast.Load())], keywords=[])), st))
            blk[k_ - 1:k_] = new
            k_ += len(new) - 1
            n_done += 1
    if n_done:
        ast.fix_missing_locations(fn)
    return n_done


class _RenameAll(ast.NodeTransformer):
    def __init__(self, old, new):
        self.old, self.new = old, new

    def visit_Name(self, node):
        if node.id == self.old:
            return ast.copy_location(ast.Name(id=self.new, ctx=node.ctx), node)
        return node


def unroll_name_loops(fn, max_items=4, max_body=3):
    """`for v in (a, b, c): <short body>` over a literal tuple of plain names is the body written once per name"""
    n_done = 0
    for owner, f, blk in list(_blocks_of(fn)):
        for k_, st in enumerate(list(blk)):
            if not (isinstance(st, ast.For) and not st.orelse and isinstance(st.target, ast.Name) and isinstance(st.iter, (ast.Tuple, ast.List))
                    and 1 <= len(st.iter.elts) <= max_items and all(isinstance(x, ast.Name) for x in st.iter.elts) and len(st.body) <= max_body):
                continue
            v = st.target.id
            if any(isinstance(x, (ast.Break, ast.Continue, ast.Return)) for b_ in st.body for x in ast.walk(b_)):
                continue
            if any(isinstance(x, ast.Name) and x.id == v and isinstance(x.ctx, ast.Store) for b_ in st.body for x in ast.walk(b_)):
                continue
            idx = next(i for i, s_ in enumerate(blk) if s_ is st)
            if any(_occurs(s_, v) for s_ in blk[idx + 1:]):
                continue
            new = []
            for nm in st.iter.elts:
                for b_ in st.body:
                    new.append(_RenameAll(v, nm.id).visit(clone(b_)))
            blk[idx:idx + 1] = new
            n_done += 1
    if n_done:
        ast.fix_missing_locations(fn)
    return n_done


class _Subst(ast.NodeTransformer):
    def __init__(self, mapping):
        self.m = mapping

    def visit_Name(self, node):
        if node.id in self.m and isinstance(node.ctx, ast.Load):
            new = clone(self.m[node.id])
            for x in ast.walk(new):
                ast.copy_location(x, node)
            return new
        return node


def _inlinable_body(g, args_of):
    """the statements of method g with its parameters replaced by the argument expressions, or None when that is not a faithful
    rewrite (a parameter is rebound, a value is returned, a `return` is not in tail position, nested scopes)"""
    gv = clone(g)
    early_return_to_else(gv)
    body = [s_ for s_ in gv.body if not (isinstance(s_, ast.Expr) and isinstance(s_.value, ast.Constant) and isinstance(s_.value.value, str))]

    def strip_tail(blk):
        if blk and isinstance(blk[-1], ast.Return) and blk[-1].value is None:
            blk.pop()
            if not blk:
                blk.append(ast.Pass())
        if blk and isinstance(blk[-1], ast.If):
            strip_tail(blk[-1].body)
            if blk[-1].orelse:
                strip_tail(blk[-1].orelse)
    strip_tail(body)
    mod_ = ast.Module(body=body, type_ignores=[])
    if any(isinstance(x, (ast.Return, ast.FunctionDef, ast.Lambda, ast.ClassDef, ast.Global, ast.Nonlocal, ast.Yield, ast.YieldFrom))
           for x in ast.walk(mod_)):
        return None
    for p_, a in args_of.items():
        simple = isinstance(a, (ast.Name, ast.Constant)) or (isinstance(a, (ast.Attribute, ast.Subscript)) and
                                                            all(isinstance(x, (ast.Name, ast.Attribute, ast.Subscript, ast.Constant, ast.Load))
                                                                for x in ast.walk(a)))
        if not simple:
            return None
        if any(isinstance(x, ast.Name) and x.id == p_ and isinstance(x.ctx, (ast.Store, ast.Del)) for x in ast.walk(mod_)):
            if not (isinstance(a, ast.Name) and a.id == p_):
                return None
    mapping = {p_: a for p_, a in args_of.items() if not (isinstance(a, ast.Name) and a.id == p_)}
    if mapping:
        mod_ = _Subst(mapping).visit(mod_)
    return mod_.body


def inline_delegations(fn, cls_name, meths, want, depth=2):
    """a statement `self.g(...)` that hands the work to a sibling method whose body has what the rule looks for (`want(g)`) is
    replaced by that body with the parameters written as the arguments (the wrapper and the sibling then read as one routine)"""
    n_done = 0
    locals_f = {x.id for x in ast.walk(fn) if isinstance(x, ast.Name) and isinstance(x.ctx, ast.Store)} | {a.arg for a in fn.args.args}
    for _ in range(depth):
        changed = False
        for owner, f, blk in list(_blocks_of(fn)):
            for k, st in enumerate(blk):
                if not (isinstance(st, ast.Expr) and isinstance(st.value, ast.Call)):
                    continue
                g = _own_class_call(st.value, cls_name, meths)
                if g is None or g == fn.name or not want(meths[g]):
                    continue
                am = call_args(st.value, meths[g])
                params = [a.arg for a in meths[g].args.args if a.arg not in ("self", "cls")]
                if am is None or any(p_ not in am for p_ in params):
                    continue
                # locals of g must not capture names of f that are live in f (parameters that keep their name are fine)
                g_locals = {x.id for x in ast.walk(meths[g]) if isinstance(x, ast.Name) and isinstance(x.ctx, ast.Store)}
                f_used_after = {x.id for s_ in blk[k + 1:] for x in ast.walk(s_) if isinstance(x, ast.Name) and isinstance(x.ctx, ast.Load)}
                if g_locals & f_used_after & (locals_f - set(params)):
                    continue
                body = _inlinable_body(meths[g], am)
                if body is None:
                    continue
                for s_ in body:
                    for x in ast.walk(s_):
                        if not hasattr(x, "lineno") and isinstance(x, (ast.stmt, ast.expr)):
                            ast.copy_location(x, st)
                blk[k:k + 1] = body
                n_done += 1
                changed = True
                break
            if changed:
                break
        if not changed:
            break
    if n_done:
        ast.fix_missing_locations(fn)
        link(fn)
    return n_done


def _cmp_fact(fn, test, at):
    """(key, signs) of a comparison `A op B` between two expressions built from parameters only (locals written out at `at`);
    `not X` and a local bound to such a comparison are followed.  None when the test is something else."""
    neg = False
    t = test
    for _ in range(4):
        if isinstance(t, ast.UnaryOp) and isinstance(t.op, ast.Not):
            neg, t = not neg, t.operand
        elif isinstance(t, ast.Name):
            d = reaching_def(fn, t.id, at)
            if d is None:
                return None
            t, at = d.value, d
        else:
            break
    if not (isinstance(t, ast.Compare) and len(t.ops) == 1 and type(t.ops[0]) in _CMP_SIGNS):
        return None
    params = {a.arg for a in fn.args.args}
    sides = []
    for x in (t.left, t.comparators[0]):
        xx = resolve_at(fn, x, at, keep=params)
        if any(isinstance(n, ast.Name) and n.id not in params and n.id not in ("len", "np") for n in ast.walk(xx)):
            return None
        if any(isinstance(n, ast.Call) for n in ast.walk(xx)):
            return None
        sides.append(src(xx))
    a, b = sides
    if a == b:
        return None
    s = _CMP_SIGNS[type(t.ops[0])]
    if a > b:
        a, b = b, a
        s = frozenset({"<": ">", ">": "<", "=": "="}[x] for x in s)
    if neg:
        s = frozenset("<=>") - s
    return (a, b), s


def prune_infeasible(fn):
    """arms of an `if` that contradict what the enclosing tests have established about the same two quantities (sign of A - B,
    A and B written with parameters only) are never executed: their statements are replaced by `pass` (the tests stay)"""
    n_done = [0]

    def walk(blk, facts):
        for st in list(blk):
            if isinstance(st, ast.If):
                kf = _cmp_fact(fn, st.test, st)
                fa, fb = dict(facts), dict(facts)
                dead_a = dead_b = False
                if kf is not None:
                    key, s = kf
                    have = facts.get(key, frozenset("<=>"))
                    fa[key], fb[key] = have & s, have - s
                    dead_a, dead_b = not fa[key], not fb[key]
                if dead_a and not all(isinstance(x, ast.Pass) for x in st.body):
                    st.body = [ast.copy_location(ast.Pass(), st)]
                    n_done[0] += 1
                if dead_b and st.orelse and not all(isinstance(x, ast.Pass) for x in st.orelse):
                    st.orelse = [ast.copy_location(ast.Pass(), st)]
                    n_done[0] += 1
                walk(st.body, fa)
                walk(st.orelse, fb)
                # after `if c: ...; return`, the rest of the block runs under `not c`
                if st.body and isinstance(st.body[-1], (ast.Return, ast.Raise)) and kf is not None:
                    facts = fb
            elif isinstance(st, (ast.For, ast.While, ast.With, ast.Try)):
                for f in ("body", "orelse", "finalbody"):
                    walk(getattr(st, f, []) or [], facts)
    walk(fn.body, {})
    if n_done[0]:
        link(fn)
    return n_done[0]


def inline_param_items(fn):
    """`a, b, c = P` and `a = P[0]` for a parameter P that the function never rebinds or stores into (a, b, c bound once): the names are
    written `P[0]`, `P[1]`, `P[2]` wherever they are read (the rules speak about the items of `axis`)"""
    params = {x.arg for x in fn.args.args}
    stored = {}
    for n in ast.walk(fn):
        if isinstance(n, ast.Name) and isinstance(n.ctx, (ast.Store, ast.Del)):
            stored[n.id] = stored.get(n.id, 0) + 1
        elif isinstance(n, ast.Subscript) and isinstance(n.ctx, (ast.Store, ast.Del)) and isinstance(n.value, ast.Name):
            stored[n.value.id] = stored.get(n.value.id, 0) + 1
    mapping, drop = {}, []
    for owner, f, blk in list(_blocks_of(fn)):
        if owner is not fn:
            continue
        for st in blk:
            if not (isinstance(st, ast.Assign) and len(st.targets) == 1):
                continue
            t, v = st.targets[0], st.value
            if isinstance(t, ast.Tuple) and isinstance(v, ast.Name) and v.id in params and not stored.get(v.id) \
                    and all(isinstance(x, ast.Name) and stored.get(x.id) == 1 and x.id not in params for x in t.elts):
                for i, x in enumerate(t.elts):
                    mapping[x.id] = ast.Subscript(value=ast.Name(id=v.id, ctx=ast.Load()), slice=ast.Constant(value=i), ctx=ast.Load())
                drop.append(st)
            elif isinstance(t, ast.Name) and stored.get(t.id) == 1 and t.id not in params and isinstance(v, ast.Subscript) \
                    and isinstance(v.value, ast.Name) and v.value.id in params and not stored.get(v.value.id) \
                    and isinstance(v.slice, ast.Constant) and isinstance(v.slice.value, int):
                mapping[t.id] = v
                drop.append(st)
    if not mapping:
        return 0
    for owner, f, blk in list(_blocks_of(fn)):
        blk[:] = [_Subst(mapping).visit(s_) for s_ in blk if not any(s_ is d for d in drop)] or [ast.Pass()]
    ast.fix_missing_locations(fn)
    return len(mapping)


class _InvToIndex(ast.NodeTransformer):
    """`L.inv_dims_order[e]` is `L.dims_order.index(e)` (inv_dims_order is the inverse permutation of dims_order: C02 P2-derived-attributes)"""

    def visit_Subscript(self, node):
        self.generic_visit(node)
        if isinstance(node.value, ast.Attribute) and node.value.attr == "inv_dims_order" and not isinstance(node.slice, (ast.Slice, ast.Tuple)) \
                and isinstance(node.ctx, ast.Load):
            new = ast.Call(func=ast.Attribute(value=ast.Attribute(value=node.value.value, attr="dims_order", ctx=ast.Load()), attr="index", ctx=ast.Load()),
                           args=[node.slice], keywords=[])
            return ast.copy_location(new, node)
        return node


def copyto_as_store(fn):
    """`np.copyto(A, B)` / `np.copyto(A, B, casting=...)` as a statement is the store `A[...] = B` (assignment into an array casts like
    casting='unsafe'; the other casting rules only refuse some element types, they never change a value): written `A[:] = B`, the form
    the store-reading engines know (not rewritten with `where=`)"""
    n_done = 0
    for owner, f, blk in list(_blocks_of(fn)):
        for k, st in enumerate(blk):
            if isinstance(st, ast.Expr) and isinstance(st.value, ast.Call) and src(st.value.func) in ("np.copyto", "numpy.copyto") \
                    and len(st.value.args) == 2 and all(kw.arg == "casting" for kw in st.value.keywords) \
                    and not any(isinstance(a, ast.Starred) for a in st.value.args):
                dst, val = st.value.args
                new = ast.Assign(targets=[ast.Subscript(value=dst, slice=ast.Slice(lower=None, upper=None, step=None), ctx=ast.Store())], value=val)
                blk[k] = ast.copy_location(new, st)
                n_done += 1
    if n_done:
        ast.fix_missing_locations(fn)
    return n_done


def unit_view(mod, cls_name, q, want=None, normal=False):
    """private copy of method q of the class with: own-class calls written positionally, parallel assignments of plain names split,
    (when `want` is given and q itself lacks it) sibling methods it delegates to written in place, contradictory arms emptied;
    `normal=True` adds the rewrites of normal_view"""
    meths = class_methods(mod, cls_name)
    fn = mod.func(q)
    v = clone(fn)
    v._parent = getattr(fn, "_parent", None)
    positional_calls(v, cls_name, meths)
    if want is not None and not want(v):
        inline_delegations(v, cls_name, meths, want)
        positional_calls(v, cls_name, meths)
    split_parallel_assign(v)
    copyto_as_store(v)
    _InvToIndex().visit(v)
    ast.fix_missing_locations(v)
    inline_param_items(v)
    conditional_comprehensions(v)
    unroll_name_loops(v)
    link(v)
    if normal:
        fold_none_tests(v)
        early_return_to_else(v)
        duplicate_tail(v)
        split_self_updates(v)
    prune_infeasible(v)
    ast.fix_missing_locations(v)
    link(v)
    v._parent = getattr(fn, "_parent", None)
    return v


def has_call(*names):
    def want(fn):
        return any(isinstance(c, ast.Call) and isinstance(c.func, ast.Attribute) and c.func.attr in names for c in ast.walk(fn))
    return want


# --------------------------------------------------------------------------
def _block_size_var(flow, prefer="size"):
    """the `x = np.prod(<shape list>)` that is the size of the block the function cuts from its flat buffer: the name used as the
    extent of a cut (`buf[a:a+x]`, `np.split(buf, [x])`), else the reference name"""
    used = []
    for n in ast.walk(flow.fn):
        if isinstance(n, ast.Call) and src(n.func) in ("np.split", "numpy.split") and len(n.args) >= 2 and isinstance(n.args[1], ast.List) \
                and len(n.args[1].elts) == 1 and isinstance(n.args[1].elts[0], ast.Name):
            used.append(n.args[1].elts[0].id)
        if isinstance(n, ast.Subscript) and isinstance(n.slice, ast.Slice) and n.slice.upper is not None:
            up = n.slice.upper
            if isinstance(up, ast.Name):
                used.append(up.id)
            elif isinstance(up, ast.BinOp) and isinstance(up.op, ast.Add):
                used += [x.id for x in (up.left, up.right) if isinstance(x, ast.Name)]
            # `buf[k*x : (k+1)*x]`, `buf[a : a + n*x]`: a product that scales the bound of a cut is its extent as well
            if isinstance(up, ast.BinOp):
                used += [x.id for x in ast.walk(up) if isinstance(x, ast.Name) and isinstance(x.ctx, ast.Load)]
    cands = [u for u in dict.fromkeys(used) if u in flow.prods]
    # `proven`: exactly one product is used as the extent of a cut of the flat buffer; otherwise the reference name is a GUESS (a rule
    # that would report a violation from a guessed block size must say `undecided` instead)
    flow.size_var_proven = len(cands) == 1
    if len(cands) == 1:
        return cands[0]
    if prefer in flow.prods and (not cands or prefer in cands):
        return prefer
    return None


def _canon(sl, mapping=None):
    return canon_product(sl, mapping or {})


def loop_index(loop):
    """(name of the iteration counter or None, {element name: sequence expression}) of a `for` header:
    range(n) / enumerate(X) / zip(A, B) / enumerate(zip(A, B)) / X"""
    it, tg = loop.iter, loop.target
    idx, elems = None, {}

    def seqs(e, t):
        if isinstance(e, ast.Call) and src(e.func) == "zip" and isinstance(t, (ast.Tuple, ast.List)) and len(t.elts) == len(e.args):
            for x, y in zip(t.elts, e.args):
                if isinstance(x, ast.Name):
                    elems[x.id] = y
        elif isinstance(t, ast.Name):
            elems[t.id] = e
    if isinstance(it, ast.Call) and src(it.func) == "range" and isinstance(tg, ast.Name) and len(it.args) == 1:
        idx = tg.id
    elif isinstance(it, ast.Call) and src(it.func) == "enumerate" and 1 <= len(it.args) <= 2 and isinstance(tg, (ast.Tuple, ast.List)) and len(tg.elts) == 2 \
            and isinstance(tg.elts[0], ast.Name):
        start = it.args[1] if len(it.args) == 2 else next((k.value for k in it.keywords if k.arg == "start"), None)
        if start is None or (isinstance(start, ast.Constant) and start.value == 0):
            idx = tg.elts[0].id           # counts the iterations from 0
        seqs(it.args[0], tg.elts[1])
    else:
        seqs(it, tg)
    return idx, elems


def _shifted_counter(loop):
    """(name, start) of an `enumerate(..., start=c)` counter with a non-zero constant start, else None"""
    it, tg = loop.iter, loop.target
    if isinstance(it, ast.Call) and src(it.func) == "enumerate" and isinstance(tg, (ast.Tuple, ast.List)) and tg.elts and isinstance(tg.elts[0], ast.Name):
        start = it.args[1] if len(it.args) == 2 else next((k.value for k in it.keywords if k.arg == "start"), None)
        if isinstance(start, ast.Constant) and isinstance(start.value, int) and start.value != 0:
            return tg.elts[0].id, start.value
    return None


def loops_around(fn, node):
    """the loops a node is inside, innermost first"""
    out, p = [], parent(node)
    while p is not None and p is not fn:
        if isinstance(p, (ast.For, ast.While)):
            out.append(p)
        p = parent(p)
    return out


def arith(e, env):
    """sympy form of an integer expression: + - * and constants are arithmetic, every other sub-expression is an atom named by its
    source text with the single-assignment locals of `env` written out"""
    import sympy
    if isinstance(e, ast.Constant) and isinstance(e.value, int) and not isinstance(e.value, bool):
        return sympy.Integer(e.value)
    if isinstance(e, ast.BinOp) and isinstance(e.op, (ast.Add, ast.Sub, ast.Mult)):
        a, b = arith(e.left, env), arith(e.right, env)
        return sympy.expand(a + b if isinstance(e.op, ast.Add) else a - b if isinstance(e.op, ast.Sub) else a * b)
    if isinstance(e, ast.UnaryOp) and isinstance(e.op, ast.USub):
        return -arith(e.operand, env)
    if isinstance(e, ast.Name) and e.id in env:
        return arith(env[e.id], {k: v for k, v in env.items() if k != e.id})
    return sympy.Symbol(xsrc(e, env).replace(" ", ""), integer=True)


def _flat_cut(fn, e, at, root, depth=8):
    """follow a view back to the cut of the flat buffer `root` it was taken from: -> (lo, hi, cut node) with lo/hi expressions (None =
    open end), or None.  reshape / basic subscripts / np.split(x, [n])[0] / plain names (their reaching definition) are followed."""
    for _ in range(depth):
        if isinstance(e, ast.Name):
            if e.id == root:
                return None, None, e
            d = reaching_def(fn, e.id, at)
            if d is None:
                return None
            e, at = d.value, d
            continue
        if isinstance(e, ast.Call) and isinstance(e.func, ast.Attribute) and e.func.attr in ("reshape", "view", "ravel") \
                and not (isinstance(e.func.value, ast.Name) and e.func.value.id in ("np", "numpy")):
            e = e.func.value
            continue
        if isinstance(e, ast.Subscript):
            v, sl = e.value, e.slice
            if isinstance(v, ast.Name) and v.id == root and isinstance(sl, ast.Slice) and sl.step is None:
                return sl.lower, sl.upper, e
            if isinstance(v, ast.Call) and src(v.func) in ("np.split", "numpy.split") and len(v.args) == 2 and isinstance(v.args[0], ast.Name) \
                    and v.args[0].id == root and isinstance(v.args[1], ast.List) and len(v.args[1].elts) == 1 and src(sl) == "0":
                return None, v.args[1].elts[0], e
            e = v
            continue
        return None
    return None


def _size_preserving_origin(fn, e, at, depth=8):
    """the parameter an array expression was obtained from by operations that keep the number of elements (reshape, transpose,
    moveaxis, swapaxes, copies), or None"""
    for _ in range(depth):
        if isinstance(e, ast.Name):
            if e.id in {a.arg for a in fn.args.args}:
                return e.id
            d = reaching_def(fn, e.id, at)
            if d is None:
                return None
            e, at = d.value, d
            continue
        if isinstance(e, ast.Call) and isinstance(e.func, ast.Attribute):
            f = e.func
            if isinstance(f.value, ast.Name) and f.value.id in ("np", "numpy"):
                if f.attr in ("transpose", "moveaxis", "swapaxes", "reshape", "ascontiguousarray", "asarray", "array", "copy", "ravel") and e.args:
                    e = e.args[0]
                    continue
                return None
            if f.attr in ("transpose", "reshape", "swapaxes", "copy", "ravel", "flatten", "view"):
                e = f.value
                continue
        return None
    return None


def packer_addressing(chk, rel, pack, fp, envp, vp, QP):
    """G1-packer-advance: the exchange cuts the send buffer into equal chunks of the block size, chunk k going to rank k; so every
    store of the packer into the send buffer must address block k at k x (block size) - through a counter of the loop over the
    destination ranks, or through a running offset that advances by the block size on EVERY iteration"""
    import sympy
    from ..core import increment_of
    rule, what = "G1-packer-advance", "start += size"
    good = "the packer writes block k of the send buffer at k x block size (one block per destination rank, no iteration leaves the slot out)"
    root = "tobuffer"
    if root not in {a.arg for a in pack.args.args} or vp is None:
        chk.ob(rule, pack, what, None, "the packer's send buffer parameter / block size was not identified", file=rel, func=QP)
        return
    env_keep = {k: v for k, v in envp.items() if k != vp}
    size = sympy.Symbol(vp, integer=True)
    agreed = bool(chk.__dict__.get("_c01_vp_agrees"))
    sends = []
    for st in ast.walk(pack):
        if isinstance(st, ast.Assign) and len(st.targets) == 1 and isinstance(st.targets[0], ast.Subscript):
            cut = _flat_cut(pack, st.targets[0].value, st, root)
            if cut is not None:
                sends.append((st, cut))
        elif isinstance(st, ast.Expr) and isinstance(st.value, ast.Call) and src(st.value.func) in ("np.copyto", "numpy.copyto") and st.value.args:
            cut = _flat_cut(pack, st.value.args[0], st, root)
            if cut is not None:
                sends.append((st, cut))
    if not sends:
        chk.ob(rule, pack, what, None, "no store into (a view of) the send buffer was found in the packer", file=rel, func=QP)
        return
    verdicts = []          # (ok, message, node)
    for st, (lo, hi, cutnode) in sends:
        loops = loops_around(pack, st)
        if not loops:
            verdicts.append(_fast_path_send(pack, st, lo, hi, env_keep, vp, fp))
            continue
        L = loops[0]
        idx, _ = loop_index(L)
        others = [s2 for s2, _ in sends if not any(L is l2 for l2 in loops_around(pack, s2)) and not _exclusive(s2, L)]
        rank_loop_coverage(chk, rel, pack, QP, L, env_keep, "packing loop over the destination ranks", peeled=others[0] if others else None)
        if any(isinstance(x, (ast.Break, ast.Return)) for b_ in L.body for x in ast.walk(b_)):
            verdicts.append((None, "the loop over the destination ranks can be left early (break/return)", L))
            continue
        if lo is None or hi is None:
            verdicts.append((None, f"`{src(cutnode)}` has an open end: the block extent is not explicit", st))
            continue
        lo_s, hi_s = arith(lo, env_keep), arith(hi, env_keep)
        stride = sympy.expand(hi_s - lo_s)
        # (a) offset written with the iteration counter
        cnt = _shifted_counter(L)
        if idx is None and cnt is not None and sympy.Symbol(cnt[0], integer=True) in lo_s.free_symbols:
            k = sympy.Symbol(cnt[0], integer=True)
            # ASSUMPTIONS: the loop is the only writer of the send buffer (no store outside it fills slot 0) and the stride is the
            # exchanged block size (so that `slot k` is what the exchange delivers to rank k)
            if sympy.expand(lo_s - k * stride) == 0 and not others and sympy.expand(stride - size) == 0:
                verdicts.append((False, f"block k of the send buffer is written at `{src(lo)}`, but `{cnt[0]}` counts the destination ranks from "
                                 f"{cnt[1]}: the block of rank k lands in slot k+{cnt[1]}, while the exchange delivers slot k to rank k - every rank "
                                 "receives the block of its predecessor, slot 0 is never filled and the last block lies beyond the exchanged chunk", st))
            else:
                verdicts.append((None, f"offset `{src(lo)}` written with a counter that starts at {cnt[1]}", st))
            continue
        if idx is not None and sympy.Symbol(idx, integer=True) in lo_s.free_symbols:
            k = sympy.Symbol(idx, integer=True)
            if sympy.expand(lo_s - k * stride) == 0 and sympy.expand(stride - size) == 0:
                verdicts.append((True, good, st))
            elif sympy.expand(lo_s - k * stride) == 0:
                verdicts.append(_stride_verdict(stride, vp, fp, st, f"block k is written at k x `{stride}`", agreed))
            else:
                verdicts.append((None, f"offset `{src(lo)}` of the block is not (iteration counter) x (block extent `{stride}`)", st))
            continue
        # (b) running offset
        if not isinstance(lo, ast.Name):
            verdicts.append((None, f"offset `{src(lo)}` of the block in the send buffer not recognised", st))
            continue
        x = lo.id
        stores = [n for b_ in L.body for n in ast.walk(b_) if isinstance(n, (ast.Assign, ast.AugAssign)) and _stores(n, x)]
        incs = [(n, increment_of(n)) for n in stores]
        init = reaching_def(pack, x, L)
        if len(stores) != 1 or incs[0][1] is None or incs[0][1][0] != x:
            verdicts.append((None, f"the running offset `{x}` is not advanced by exactly one `{x} += <block size>` in the loop", st))
            continue
        inc_st, (_, inc) = incs[0]
        if init is None or not (isinstance(init.value, ast.Constant) and init.value.value == 0):
            verdicts.append((None, f"the running offset `{x}` does not start from the constant 0 before the loop", st))
            continue
        if not any(inc_st is b_ for b_ in L.body):
            g = parent(inc_st)
            # ASSUMPTION: the guard can differ from one destination rank to the next (it reads something the loop changes); a guard
            # that is the same for all iterations either always or never advances the offset: not this defect, undecided
            if not (isinstance(g, ast.If) and _loop_varying(L, g.test)):
                verdicts.append((None, f"`{src(inc_st)}` is executed under `{src(g.test)[:60] if isinstance(g, ast.If) else src(g)[:60]}`, which "
                                 "was not shown to vary with the destination rank", inc_st))
                continue
            verdicts.append((False, f"`{src(inc_st)}` is executed only under `{src(g.test)[:60] if isinstance(g, ast.If) else src(g)[:60]}`: on the "
                             f"iterations where it is not, the next block is written over the slot of this destination rank, but the exchange "
                             "delivers slot k of the send buffer to rank k - every later rank receives the block of another rank", inc_st))
            continue
        pos = [i for i, b_ in enumerate(L.body) if b_ is inc_st][0]
        skips = [c for b_ in L.body[:pos] for c in ast.walk(b_) if isinstance(c, ast.Continue)]
        if skips:
            c = skips[0]
            g = parent(c)
            if not (isinstance(g, ast.If) and _loop_varying(L, g.test)):
                verdicts.append((None, f"`continue` (line {c.lineno}) can leave the iteration before `{src(inc_st)}`; its condition was not shown "
                                 "to vary with the destination rank", c))
                continue
            # ASSUMPTION (checked above): the `continue` is guarded by a test that varies with the destination rank, and it precedes the one `x +=
            # size`
            verdicts.append((False, f"`continue` (line {c.lineno}, under `{src(g.test)[:50] if isinstance(g, ast.If) else '...'}`) leaves the iteration "
                             f"before `{src(inc_st)}`: the slot of that destination rank is not stepped over, every later block is packed one slot "
                             "too early, but the exchange delivers slot k of the send buffer to rank k - the ranks after it receive the block "
                             "meant for their successor and the last ones stale memory", c))
            continue
        inc_s = arith(inc, env_keep)
        if sympy.expand(inc_s - stride) != 0:
            verdicts.append(_stride_verdict(inc_s, vp, fp, inc_st, f"the offset advances by `{src(inc)}` while the block written is `{stride}` long", agreed))
            continue
        if not any(_occurs(b_, x) for b_ in L.body[:pos]):
            verdicts.append((None, f"`{src(inc_st)}` precedes the use of `{x}` in the iteration", inc_st))
            continue
        if sympy.expand(stride - size) == 0:
            verdicts.append((True, good, st))
        else:
            verdicts.append(_stride_verdict(stride, vp, fp, st, f"the blocks are `{stride}` elements apart", agreed))
    bad = [v for v in verdicts if v[0] is False]
    und = [v for v in verdicts if v[0] is None]
    if bad:
        chk.ob(rule, bad[0][2], what, False, "; ".join(dict.fromkeys(v[1] for v in bad)), file=rel, func=QP)
    elif und:
        chk.ob(rule, und[0][2], what, None, "cannot decide: " + "; ".join(dict.fromkeys(v[1] for v in und)), file=rel, func=QP)
    else:
        chk.__dict__["_c01_packer_uniform"] = True
        chk.ob(rule, verdicts[0][2], what, True, good + f" ({len(verdicts)} store(s) into the send buffer)", file=rel, func=QP)


def rank_loop_coverage(chk, rel, fn, q, loop, env, what, peeled=None):
    """G1-rank-loop-coverage: the loop of a kernel that handles one block per rank visits every rank of the communicator exactly once:
    it runs over the whole per-rank tables of a layout, or over range(<number of ranks>)"""
    import re
    rule = "G1-rank-loop-coverage"
    it = loop.iter
    good = f"the {what} visits every rank once"
    hdr = f"for {src(loop.target)} in {src(it)[:70]}"
    ok, bad = None, None
    seqs = []
    e = it
    if isinstance(e, ast.Call) and src(e.func) == "enumerate" and e.args:
        e = e.args[0]
    if isinstance(e, ast.Call) and src(e.func) == "zip":
        seqs = list(e.args)
    elif not (isinstance(e, ast.Call) and src(e.func) == "range"):
        seqs = [e]
    count = r"(?:mpi_size|nSplits|\w*comm\w*\.Get_size\(\)|self\._subcomms\[axis\[0\]\]\.Get_size\(\)|layout_(?:source|dest)\.nprocs\[axis\[0\]\]|" \
            r"len\(layout_(?:source|dest)\.mpi_(?:lengths|starts)\(axis\[0\]\)\))"
    if seqs:
        ts = [xsrc(x, env).replace(" ", "") for x in seqs]
        whole = [bool(re.fullmatch(r"layout_(source|dest)\.mpi_(lengths|starts)\(axis\[0\]\)", t)) for t in ts]
        cut = [t for t in ts if re.fullmatch(r"layout_(source|dest)\.mpi_(lengths|starts)\(axis\[0\]\)\[[^\]]*:[^\]]*\]", t)]
        if all(whole):
            ok = True
        elif cut:
            # ASSUMPTION: the header, with its locals written out, is a SLICE of the per-rank table of the process axis (texts fully expanded by xsrc;
            # any other form is undecided); a store outside the loop that may handle the missing ranks (`peeled`) withdraws the diagnosis below
            bad = (f"`{hdr}` runs over a part (`{cut[0]}`) of the per-rank table: the ranks that are cut off get no block packed / have their "
                   "received block never copied, their part of the field is stale memory")
    else:
        args = [xsrc(a, env).replace(" ", "") for a in e.args]
        if len(args) == 1 and re.fullmatch(count, args[0]):
            ok = True
        elif len(args) == 1 and re.fullmatch(count + r"-\d+", args[0]):
            # ASSUMPTION: the bound is literally (number of ranks) - d / starts at a literal >= 1, the count being one of the recognised ways of
            # writing the size of the exchanged process axis; nothing outside the loop handles the remaining ranks (`peeled`)
            bad = f"`{hdr}` stops before the last rank: the block of the last rank(s) is never handled, that part of the field keeps stale memory"
        elif len(args) == 2 and re.fullmatch(r"[1-9]\d*", args[0]) and re.fullmatch(count, args[1]):
            bad = f"`{hdr}` starts after rank 0: the block of the first rank(s) is never handled, that part of the field keeps stale memory"
    if bad and peeled is not None:
        # the ranks the loop leaves out may be handled by the statement outside it
        bad = None
    o = chk.pat(rule, loop, f"{q.split('.')[-1]}: {hdr}", ok, good, bad, file=rel, func=q)
    if not ok and not bad and peeled is not None:
        o.msg = (f"`{hdr}` does not run over all ranks, and `{src(peeled)[:60]}` writes the same array outside the loop: whether together they "
                 "cover every rank was not established")


def _exclusive(a, b):
    """are the two nodes in different arms of one `if`?"""
    def arms(n):
        out, ch, p = [], n, parent(n)
        while p is not None:
            if isinstance(p, ast.If):
                out.append((id(p), 0 if any(x is ch for x in p.body) else 1))
            ch, p = p, parent(p)
        return out
    A, B = arms(a), arms(b)
    return any(x[0] == y[0] and x[1] != y[1] for x in A for y in B)


def _loop_varying(loop, test):
    """does a test read a name the loop binds (its targets or a local stored in its body)?"""
    bound = {x.id for x in ast.walk(loop.target) if isinstance(x, ast.Name)} if isinstance(loop, ast.For) else set()
    bound |= {x.id for b_ in loop.body for x in ast.walk(b_) if isinstance(x, ast.Name) and isinstance(x.ctx, ast.Store)}
    return any(isinstance(x, ast.Name) and x.id in bound for x in ast.walk(test))


def _stride_verdict(stride, vp, fp, node, lead, agreed=True):
    """ASSUMPTION of the diagnosis: `vp` IS the size of the chunk the exchange delivers per rank - established by comparing it with the
    unpacker's chunk (G1-geometry-pack-vs-unpack held for a proven block-size variable); otherwise the other product may be the real
    block size and the rule cannot tell which of the two is wrong: undecided"""
    t = str(stride)
    if not agreed:
        return (None, f"{lead}; which of `{t}` and `{vp}` is the exchanged block size was not established", node)
    if t in fp.prods or ".size" in t or "max_block_size" in t:
        return (False, f"{lead}, not the size `{vp}` of the padded block: the blocks overlap or leave gaps in the send buffer, which the "
                "Alltoall cuts into equal chunks of the block size", node)
    return (None, f"{lead}; its relation to the block size `{vp}` was not established", node)


def _fast_path_send(pack, st, lo, hi, env_keep, vp, fp):
    """a store into the send buffer outside the loop over the destination ranks: all blocks at once.  The elements written are a
    contiguous prefix; with n blocks its length must be n x (padded block size)"""
    from ..core import guards_of
    if lo is not None and not (isinstance(lo, ast.Constant) and lo.value == 0):
        return (None, f"`{src(st)[:60]}` writes the send buffer from offset `{src(lo)}` outside the loop over the destination ranks", st)
    origin = None
    if hi is not None:
        h = hi
        if isinstance(h, ast.Name):
            d = reaching_def(pack, h.id, st)
            h = d.value if d is not None else h
        if isinstance(h, ast.Attribute) and h.attr == "size":
            origin = _size_preserving_origin(pack, h.value, st)
        elif isinstance(h, ast.Call) and src(h.func) in ("np.prod", "numpy.prod") and len(h.args) == 1 and isinstance(h.args[0], ast.Attribute) \
                and h.args[0].attr == "shape":
            origin = _size_preserving_origin(pack, h.args[0].value, st)
    if origin != "source":
        return (None, f"`{src(st)[:70]}` fills the send buffer outside the loop over the destination ranks; the spacing of the blocks it writes "
                "could not be derived", st)
    sl = fp.prods[vp][0]
    padded = [k for k in sl.over]
    gtxt = " and ".join(src(t) for t, pol, kind in guards_of(st) if kind == "if")
    mentions = [k for k in padded if any(f"max_block_shape[{k}]" in src(t).replace(" ", "") or f"mpi_lengths({k})" in src(t).replace(" ", "")
                                         for t, pol, kind in guards_of(st))]
    unguarded = [k for k in padded if k not in mentions and f".shape[{k}]" not in gtxt.replace(" ", "")]
    # ASSUMPTION of the diagnosis: the guards speak about single extents only; a test on a whole size (`source.size == n*size`,
    # np.prod(...), the block-size variable) may establish the same fact for all axes at once: undecided
    whole = any(isinstance(x, ast.Name) and x.id == vp for t, pol, kind in guards_of(st) for x in ast.walk(t)) or ".size" in gtxt or "prod(" in gtxt
    if unguarded and not whole:
        return (False, f"`{src(st)[:70]}` (taken when `{gtxt[:80]}`) writes all blocks at once as one contiguous prefix of `{src(hi)}` = "
                f"prod(layout_source.shape) elements, i.e. blocks of the LOCAL shape; the exchange and the unpacker cut the send buffer every "
                f"`{vp}` = prod({sl.base} with {', '.join('[' + k + '] = ' + v for k, v in sl.over.items())}) elements. The test does not "
                f"establish that the extent along {unguarded[0]} equals its padded length: on a rank whose block is shorter, blocks 1.. are "
                "misaligned and the destination receives elements of the wrong block", st)
    return (None, f"`{src(st)[:70]}` writes all blocks at once under `{gtxt[:80]}`: whether the block spacing equals `{vp}` there was not established", st)


def _recv_view_shape(unpack, fu):
    """the shape list the unpacker views the received data with (`<receive array>.reshape(<shape list>)`), when it does not size the
    exchanged chunk itself"""
    arrays = [a.arg for a in unpack.args.args if a.arg in ARRAY_NAMES or a.arg in ("rcvBuf", "work", "recv", "received")]
    roots = {p_: {p_} for p_ in arrays}
    for n in ast.walk(unpack):
        if isinstance(n, ast.Assign) and len(n.targets) == 1 and isinstance(n.targets[0], ast.Name):
            r = _view_roots(n.value, roots)
            if r:
                roots.setdefault(n.targets[0].id, set()).update(r)
    for n in ast.walk(unpack):
        if isinstance(n, ast.Call) and isinstance(n.func, ast.Attribute) and n.func.attr == "reshape" and len(n.args) == 1 \
                and isinstance(n.args[0], ast.Name) and n.args[0].id in fu.lists and fu.lists[n.args[0].id].kind == "shape":
            r = _view_roots(n.func.value, roots)
            if r and "data" not in r:
                return fu.lists[n.args[0].id]
    return None


def _step_exchange_extents(xsite, pack, vp):
    """exchange written in the single-step routines: both buffers of the collective are the leading (block size) x (number of ranks)
    elements, the block size being what the packer returns (its own block size) and the number of ranks the size of the communicator
    the collective runs on.  -> None when established, else what was not followed"""
    import sympy
    if not xsite:
        return "the exchange (Alltoall) was not found once in each single-step routine"
    rets = [r for r in ast.walk(pack) if isinstance(r, ast.Return) and r.value is not None]
    if not (len(rets) == 1 and isinstance(rets[0].value, ast.Name) and rets[0].value.id == vp):
        return f"the packer does not return its block size `{vp}`"
    for fn, c, kind in xsite:
        env = {k: v for k, v in inline_locals(fn).items() if k != "axis"}
        blk = [k for k, v in env.items() if isinstance(v, ast.Call) and isinstance(v.func, ast.Attribute) and v.func.attr == pack.name]
        comm = xsrc(c.func.value, env).replace(" ", "")
        if len(blk) != 1:
            return f"the block size returned by the packer is not kept in one local of {fn.name}"
        keep = {k: v for k, v in env.items() if k != blk[0]}
        want = sympy.Symbol(blk[0], integer=True) * sympy.Symbol(comm + ".Get_size()", integer=True)
        for a in c.args[:2]:
            cut = None
            for root in [x.arg for x in fn.args.args if x.arg in ARRAY_NAMES]:
                cut = cut or _flat_cut(fn, a, c, root)
            st = c
            while not isinstance(st, ast.stmt):
                st = parent(st)
            if cut is None:
                for root in [x.arg for x in fn.args.args if x.arg in ARRAY_NAMES]:
                    cut = cut or _flat_cut(fn, a, st, root)
            if cut is None or cut[1] is None or (cut[0] is not None and not (isinstance(cut[0], ast.Constant) and cut[0].value == 0)):
                return f"the extent of the buffer `{src(a)[:40]}` of the exchange in {fn.name}"
            if sympy.expand(arith(cut[1], keep) - want) != 0:
                return (f"the buffer `{src(a)[:40]}` of the exchange in {fn.name} holds `{xsrc(cut[1], keep)[:60]}` elements, expected (block size returned by the "
                        f"packer) x `{comm}.Get_size()`")
    return None


_COUNT_RE = (r"(?:mpi_size|nSplits|\w*comm\w*\.Get_size\(\)|self\._subcomms\[axis\[0\]\]\.Get_size\(\)|"
             r"layout_(?:source|dest)\.nprocs\[axis\[0\]\])")


def _unify_counts(canon):
    """(base, positions, product) with every way of writing `number of ranks of the exchanged process axis` replaced by one symbol"""
    import re
    import sympy
    base, keys, expr = canon
    n = sympy.Symbol("<ranks of the exchange>")
    sub = {a: n for a in expr.free_symbols if re.fullmatch(_COUNT_RE, a.name.replace(" ", ""))}
    return base, keys, sympy.expand(expr.subs(sub)) if sub else expr


def _count_split_vs_layout_table(mod, fn_, env_, lay_):
    """a kernel that reads none of the per-rank tables but cuts an array into one piece per rank with `np.array_split(x, <count>, axis)`:
    numpy's convention (the first n mod p pieces get the extra element: starts(k) = floor(n/p) k + min(k, n mod p)) is compared with the
    block table Layout.__init__ builds (read symbolically by C02's SplitModel).  -> diagnosis when the two are different functions, None
    when they agree or when either side was not read (RELATIONAL: a Layout that used numpy's convention would agree)"""
    import sympy as sp
    cs = [c for c in ast.walk(fn_) if isinstance(c, ast.Call) and src(c.func) in ("np.array_split", "numpy.array_split") and len(c.args) >= 2]
    if len(cs) != 1:
        return None
    c = cs[0]
    cnt = expand(c.args[1], env_)
    if isinstance(cnt, (ast.List, ast.Tuple, ast.ListComp)) or any(isinstance(x, ast.Call) and isinstance(x.func, ast.Attribute) and
                                                                    x.func.attr in ("mpi_starts", "mpi_lengths", "cumsum") for x in ast.walk(cnt)):
        return None          # split at explicit indices: not the count convention
    import re
    if not re.fullmatch(r"layout_(source|dest)\.nprocs\[axis\[0\]\]|\w*comm\w*\.Get_size\(\)|self\._subcomms\[axis\[0\]\]\.Get_size\(\)|mpi_size|nSplits",
                        src(cnt).replace(" ", "")):
        return None
    if not mod.has("Layout.__init__"):
        return None
    try:
        from .C02 import SplitModel, nf, _k, _q, _r, _p
        m = SplitModel(mod.func("Layout.__init__"))
    except Exception:
        return None
    if m.loop is None or m.table is None:
        return None
    E = nf(m.table[1].expr)
    numpy_form = _q * _k + sp.Min(_k, _r)
    try:
        if sp.simplify(E - numpy_form) == 0:
            return None
        # a witness that the two start tables are different functions: second block (k = 1), remainder 1, two processes
        d = (E - numpy_form).subs({_k: 1, _r: 1, _p: 2})
        d = sp.simplify(d)
    except Exception:
        return None
    if not (d.is_number and d != 0):
        return None
    return (f"`{src(c)[:70]}` cuts the block into one piece per rank with numpy's convention (the FIRST n mod p pieces are one element longer: "
            f"piece k starts at floor(n/p) k + min(k, n mod p)), but every Layout - and the receiving side, which places the blocks by "
            f"the per-rank tables mpi_starts/mpi_lengths - uses the table of Layout.__init__, starts(k) = {m.table[1].expr}: when the extent is not a "
            "multiple of the number of processes the piece sent to a rank is not the index range that rank owns, the field comes out shifted")


def geometry_check(chk, mod):
    import sympy
    from ..core import increment_of, same_expr
    if not isinstance(mod, ModView):
        mod = handler_view(chk, mod)
    rel = mod.rel
    QP, QU, QI = "LayoutHandler._extract_from_source", "LayoutHandler._rearrange_from_buffer", "LayoutHandler.__init__"
    pack, unpack, init = mod.func(QP), mod.func(QU), mod.func(QI)
    for q in (QP, QU, QI):
        chk.functions.add(f"{rel}:{q}")
    fp, fu, fi = ShapeFlow(pack), ShapeFlow(unpack), ShapeFlow(init)
    envp, envu = inline_locals(pack), inline_locals(unpack)
    envi = _init_env(init)      # `axis[k]` and the two layout variables keep their names: the rules speak about them
    # packer: the block size used to advance through the send buffer; unpacker: the size of the exchanged chunk
    vp, vu = _block_size_var(fp), _block_size_var(fu)
    recv_shape = _recv_view_shape(unpack, fu) if vu is None else None
    xsite = exchange_site(mod)
    if vp is None or (vu is None and recv_shape is None):
        where = QP if vp is None else QU
        chk.ob("G1-geometry-pack-vs-unpack", pack if vp is None else unpack, "size = np.prod(<shape list>)", None,
               f"the block size is no longer computed as `np.prod(<list(L.shape) with overridden entries>)` in {where.split('.')[-1]}: "
               "the shape-list comparison cannot be made", file=rel, func=where)
        P = Uu = None
    else:
        slp = written_out(fp.prods[vp][0], envp)
        slu = written_out(fu.prods[vu][0] if vu is not None else recv_shape, envu)
        P, Uu = _unify_counts(_canon(slp)), _unify_counts(_canon(slu))
        # mpi_size is the size of the communicator the exchange runs on
        mpi = envu.get("mpi_size")
        recv = [c for c in ast.walk(unpack) if isinstance(c, ast.Call) and isinstance(c.func, ast.Attribute) and c.func.attr == "Alltoall"]
        comm_of_exchange, comm_x = (src(recv[0].func.value), xsrc(recv[0].func.value, envu)) if len(recv) == 1 else (None, None)
        if not recv and xsite and all(k == "step" for _, _, k in xsite):
            # the exchange was moved into the single-step routines: the communicator as they write it (the axis triple keeps its name)
            texts = {xsrc(c.func.value, {k: v for k, v in inline_locals(f_).items() if k != "axis"}) for f_, c, _ in xsite}
            if len(texts) == 1:
                comm_of_exchange = comm_x = next(iter(texts))
        okm, badm = None, None
        who = None
        if mpi is not None and isinstance(mpi, ast.Call) and isinstance(mpi.func, ast.Attribute) and mpi.func.attr == "Get_size" and not mpi.args:
            who = xsrc(mpi.func.value, envu)
            # ASSUMPTION of the diagnosis: the two communicator expressions are written in one vocabulary (both plain names of this
            # routine, or both entries of self._subcomms), so that different texts are different communicators; a parameter on one side
            # and an attribute on the other may be the same object (bound by the caller): undecided
            import re as _re
            comparable = comm_x is not None and ((_re.fullmatch(r"\w+", who) and _re.fullmatch(r"\w+", comm_x)) or
                                                 (who.startswith("self._subcomms[") and comm_x.startswith("self._subcomms[")))
            if comm_of_exchange is not None and who == comm_x:
                okm = True
            elif comm_of_exchange is not None and comparable:
                badm = (f"mpi_size is the size of `{who}` but the exchange runs on `{comm_of_exchange}`: the number of blocks that are "
                        "received differs from the number the buffer view and the unpack loop assume")
        elif mpi is None and "mpi_size" not in {n.id for n in ast.walk(unpack) if isinstance(n, ast.Name)}:
            okm = True if comm_of_exchange is not None else None      # written out in place: covered by the product comparison
        chk.pat("G1-mpi-size-is-comm-size", unpack, "mpi_size = comm.Get_size()", okm,
                "mpi_size is the size of the communicator the exchange runs on", badm, file=rel, func=QU)
        msz = sympy.Symbol("<ranks of the exchange>")
        ok = P[0] == Uu[0] and P[1] == Uu[1] and sympy.expand(P[2] * msz - Uu[2]) == 0
        if ok and not recv:
            # the exchange sits in the callers: what they exchange must be (the packer's block) x (communicator size) as well
            why = _step_exchange_extents(xsite, pack, vp)
            if why:
                ok = None
                chk.ob("G1-geometry-pack-vs-unpack", unpack, "size = np.prod(source_shape)", None, "cannot decide: " + why, file=rel, func=QU)
        bad = None
        # ASSUMPTIONS of the diagnosis: both products are written in the vocabulary the rule reads (_known_product), the number of
        # ranks of the exchange is one symbol however it is written (mpi_size / comm.Get_size() / nprocs[axis[0]]), and each block-size
        # variable is PROVEN to be the one the routine cuts its flat buffer with (not the reference name taken as a guess)
        proven = getattr(fp, "size_var_proven", False) and (getattr(fu, "size_var_proven", False) or vu is None)
        chk.__dict__["_c01_vp_agrees"] = bool(ok) and proven
        if not ok and _known_product(slp) and _known_product(slu) and proven:
            if P[0] != Uu[0]:
                bad = f"the packer's block is built from `{P[0]}`, the exchanged chunk from `{Uu[0]}`: different local shapes"
            elif P[1] != Uu[1]:
                # ASSUMPTION (checked in the condition above): both shape lists are in the known vocabulary, both block-size variables are proven cut
                # extents, the rank count is one symbol
                bad = (f"the packer pads positions {sorted(P[1])} of the block, the unpacker positions {sorted(Uu[1])}: the chunk that is "
                       "exchanged is not (communicator size) x (packed block)")
            else:
                bad = (f"packed block extents {P[2]} x communicator size != exchanged chunk extents {Uu[2]}: sender and receiver "
                       "disagree on the size/padding of a block, elements land in the wrong block")
        if ok is not None:
            chk.pat("G1-geometry-pack-vs-unpack", unpack, "size = np.prod(source_shape)", ok,
                    "Alltoall transfer size = (packed block size) x (communicator size), same base layout and overridden axes",
                    bad, file=rel, func=QU, facts={"packer": str(P), "unpacker": str(Uu)})
    # the packer writes block k of the send buffer at k x (block size): every store into the send buffer is read
    packer_addressing(chk, rel, pack, fp, envp, vp, QP)

    # which per-rank tables the packer and the unpacker read
    def tables(fn_):
        return [n for n in ast.walk(fn_) if isinstance(n, ast.Call) and isinstance(n.func, ast.Attribute)
                and n.func.attr in ("mpi_lengths", "mpi_starts")]
    for fn_, q_, lay_, other_, rule, what, env_ in (
            (pack, QP, "layout_dest", "layout_source", "G1-packer-table",
             "packer splits the source block by the destination layout's lengths/starts along the swapped process axis", envp),
            (unpack, QU, "layout_source", "layout_dest", "G1-unpacker-table",
             "unpacker places each received block by the source layout's lengths/starts along axis[0]", envu)):
        tb = tables(fn_)
        wrong, unknown = [], []
        right_kinds = {n.func.attr for n in tb if xsrc(n.func.value, env_) == lay_ and len(n.args) == 1 and xsrc(n.args[0], env_) == "axis[0]"}
        for n in tb:
            who, arg = xsrc(n.func.value, env_), (xsrc(n.args[0], env_) if len(n.args) == 1 else None)
            if who == lay_ and arg == "axis[0]":
                continue
            # a read of another table is the defect only when it REPLACES the right one (the right table of that kind is not read at all)
            replaces = n.func.attr not in right_kinds
            if who == other_ and replaces:
                wrong.append(f"`{src(n)}` reads the table of {other_} (and {lay_}'s {n.func.attr} along axis[0] is not read at all): the blocks "
                             f"are cut by {lay_}'s partition")
            elif who == lay_ and arg in ("axis[1]", "axis[2]") and replaces:
                wrong.append(f"`{src(n)}` reads the table of layout axis {arg}: the axis that is distributed is the process axis axis[0]")
            else:
                unknown.append(src(n))
        kinds = {n.func.attr for n in tb}
        if not tb:
            w_ = _count_split_vs_layout_table(mod, fn_, env_, lay_)
            if w_:
                wrong.append(w_)
        okt = not wrong and not unknown and kinds == {"mpi_lengths", "mpi_starts"}
        chk.pat(rule, tb[0] if tb else fn_, f"mpi_lengths/mpi_starts of {lay_} along axis[0]", okt, what,
                "; ".join(wrong) or None, file=rel, func=q_)
    # received blocks sit at a uniform, padded stride in the receive buffer (as the packer laid them out), whatever their true length
    envu2 = envu
    st_b = [n for n in ast.walk(unpack) if isinstance(n, ast.Assign) and isinstance(n.targets[0], ast.Subscript) and src(n.targets[0].slice) == "0"
            and isinstance(n.targets[0].value, ast.Name) and n.targets[0].value.id in fu.lists and fu.lists[n.targets[0].value.id].kind == "slices"]
    lp_all = loops_around(unpack, st_b[0]) if len(st_b) == 1 else []
    lp_r = [l_ for l_ in lp_all if loop_index(l_)[0] is not None]
    oko, whyo = None, "offset of the received block in the buffer not recognised"
    if len(st_b) == 1 and lp_all:
        # the counter of the loop over the sending ranks (none when the loop runs over the per-rank tables themselves)
        rv = loop_index(lp_r[0])[0] if lp_r else "<rank>"
        lp_r = lp_r or lp_all
        v = st_b[0].value
        for _ in range(3):
            if isinstance(v, ast.Name):
                loc = [n for n in ast.walk(unpack) if isinstance(n, ast.Assign) and src(n.targets[0]) == v.id]
                if len(loc) == 1:
                    v = loc[0].value
                    continue
            break
        if isinstance(v, ast.Call) and src(v.func) == "slice" and len(v.args) == 2:
            a0 = v.args[0]
            for _ in range(3):
                if isinstance(a0, ast.Name):
                    loc = [n for n in ast.walk(unpack) if isinstance(n, ast.Assign) and src(n.targets[0]) == a0.id]
                    if len(loc) == 1:
                        a0 = loc[0].value
                        continue
                break
            if isinstance(a0, ast.Name):
                # an element of a sequence the loop runs over: `seq[r]`
                for l_ in lp_r:
                    seq = loop_index(l_)[1].get(a0.id)
                    if seq is not None:
                        a0 = ast.Subscript(value=expand(seq, envu2), slice=ast.Name(id=rv, ctx=ast.Load()), ctx=ast.Load())
                        ast.fix_missing_locations(a0)
                        break
            try:
                a0x = expand(a0, {k_: v_ for k_, v_ in envu2.items() if k_ != rv})
            except Exception:
                a0x = a0
            if rv != "<rank>" and (same_expr(a0, f"layout_source.max_block_shape[axis[0]] * {rv}") or
                                    same_expr(a0x, f"layout_source.max_block_shape[axis[0]] * {rv}")):
                oko, whyo = True, "block r of the receive buffer starts at r x (padded block length of the concatenated axis)"
            else:
                t0 = src(a0).replace(" ", "")
                if "mpi_starts" in t0 or (isinstance(a0, ast.Subscript) and isinstance(a0.value, ast.Name) and
                                          any("mpi_starts" in src(n.value) for n in ast.walk(unpack)
                                              if isinstance(n, ast.Assign) and src(n.targets[0]) == a0.value.id)):
                    # the reader uses the compact partition: wrong exactly when the writer spaces the blocks by the padded size
                    # ASSUMPTIONS of the diagnosis: (1) the offset IS the r-th entry of the source layout's starts table along axis[0]
                    # (nothing added to it); (2) the packer was shown to space the blocks uniformly by the padded block size
                    # (G1-packer-advance holds), the block being padded along axis[0]; (3) the exchange is the Alltoall of this routine
                    import re as _re
                    exact = bool(_re.fullmatch(r"layout_source\.mpi_starts\(axis\[0\]\)\[(\w+|<rank>)\]", src(a0x).replace(" ", "")))
                    padded_writer = bool(chk.__dict__.get("_c01_packer_uniform")) and bool(recv) and P is not None and "axis[0]" in P[1]
                    if padded_writer and exact:
                        oko = False
                        whyo = (f"block r is read from the receive buffer at `{src(a0)}`, the start of the block in the UNPADDED partition, but the "
                                f"packer spaces the blocks by the padded size `{vp}` (G1-packer-advance) and Alltoall delivers equal chunks: when "
                                "the extent is not a multiple of the number of processes the blocks are read from the wrong offsets and the "
                                "field is corrupted")
                    else:
                        whyo = (f"block r is read at `{src(a0)}` (the compact partition); whether the packer lays the blocks out that way was "
                                "not established")
    chk.ob("G1-unpacker-offset", st_b[0] if st_b else unpack, "bufRanges[0] = slice(r*max_block, r*max_block + length_r)", oko, whyo, file=rel,
           func=QU)
    # the unpack loop visits every sending rank
    dstores = [n for n in ast.walk(unpack) if isinstance(n, ast.Assign) and isinstance(n.targets[0], ast.Subscript) and loops_around(unpack, n)
               and _flat_cut(unpack, n.targets[0].value, n, "data") is not None]
    if dstores:
        L_ = loops_around(unpack, dstores[0])[0]
        outside = [n for n in ast.walk(unpack) if isinstance(n, ast.Assign) and isinstance(n.targets[0], ast.Subscript)
                   and not any(L_ is l2 for l2 in loops_around(unpack, n)) and not _exclusive(n, L_)
                   and _flat_cut(unpack, n.targets[0].value, n, "data") is not None]
        rank_loop_coverage(chk, rel, unpack, QU, L_, envu, "unpacking loop over the sending ranks", peeled=outside[0] if outside else None)
    else:
        chk.ob("G1-rank-loop-coverage", unpack, "unpacking loop over the sending ranks", None,
               "no store into the destination inside a loop over the ranks was found in the unpacker", file=rel, func=QU)
    # (a packer block that was read through a GUESSED block-size variable is not a reference to compare the buffer size with)
    _bufsize_rules(chk, rel, init, fi, envi, P if getattr(fp, "size_var_proven", False) else None)
    return fp, fu


def bufsize_rules(chk, mod):
    """the buffer-size rules of LayoutHandler.__init__ on their own (G1-geometry-bufsize, G1-bufsize-max, G1-bufsize-init)"""
    if not isinstance(mod, ModView):
        mod = handler_view(chk, mod)
    pack, init = mod.func("LayoutHandler._extract_from_source"), mod.func("LayoutHandler.__init__")
    fp, fi = ShapeFlow(pack), ShapeFlow(init)
    vp = _block_size_var(fp)
    P = _canon(written_out(fp.prods[vp][0], inline_locals(pack))) if vp is not None and getattr(fp, "size_var_proven", False) else None
    envi = _init_env(init)
    _bufsize_rules(chk, mod.rel, init, fi, envi, P)


def _pair_roles(init):
    """{variable: role} of the two layouts of a connected pair in the routine that sizes the exchange block: the arguments of the
    `_get_swap_axes(a, b)` call that yields the axis triple are (source, destination).  None when no such call is found (which of
    the two layouts plays which role is then not known: the callers treat the block as not read)"""
    for c in ast.walk(init):
        if isinstance(c, ast.Call) and isinstance(c.func, ast.Attribute) and c.func.attr == "_get_swap_axes":
            a = c.args[0] if c.args else next((k.value for k in c.keywords if k.arg == "layout_source"), None)
            b = c.args[1] if len(c.args) > 1 else next((k.value for k in c.keywords if k.arg == "layout_dest"), None)
            if isinstance(a, ast.Name) and isinstance(b, ast.Name) and a.id != b.id:
                return {a.id: "layout_source", b.id: "layout_dest"}
            return None
    return None


def _init_env(init):
    keep = {"axis"} | set(_pair_roles(init) or ("l1", "l2"))
    return {k: v for k, v in inline_locals(init).items() if k not in keep}


def _size_collection(init, F, e, meths, in_iter=False, depth=6):
    """the numbers a collection expression holds, each with the routine it is computed in: [(F, value expression, node, inside an
    iteration over the pairs?)]; None when some part of the collection is not one of the forms read here (list/tuple displays,
    `+` of collections, comprehensions, list()/tuple()/chain() of collections, a local bound once to such a collection, a call of a
    nested generator function (its `yield`s), and - as an element - a call of a method of the same class (its `return`s))"""
    if depth <= 0:
        return None
    if isinstance(e, (ast.List, ast.Tuple, ast.Set)):
        out = []
        for x in e.elts:
            if isinstance(x, ast.Starred):
                sub = _size_collection(init, F, x.value, meths, in_iter, depth - 1)
            else:
                sub = _size_element(init, F, x, meths, in_iter, depth - 1)
            if sub is None:
                return None
            out += sub
        return out
    if isinstance(e, ast.BinOp) and isinstance(e.op, ast.Add):
        a, b = _size_collection(init, F, e.left, meths, in_iter, depth - 1), _size_collection(init, F, e.right, meths, in_iter, depth - 1)
        return None if a is None or b is None else a + b
    if isinstance(e, (ast.ListComp, ast.GeneratorExp, ast.SetComp)):
        return _size_element(init, F, e.elt, meths, True, depth - 1)
    if isinstance(e, ast.Call) and src(e.func) in ("list", "tuple", "set", "sorted", "iter") and len(e.args) == 1 and not e.keywords:
        return _size_collection(init, F, e.args[0], meths, in_iter, depth - 1)
    if isinstance(e, ast.Call) and src(e.func) in ("chain", "itertools.chain") and not e.keywords:
        out = []
        for x in e.args:
            sub = _size_collection(init, F, x, meths, in_iter, depth - 1)
            if sub is None:
                return None
            out += sub
        return out
    if isinstance(e, ast.Call) and isinstance(e.func, ast.Name) and not e.args and not e.keywords:
        # a nested generator function of the routine: what it yields
        gs = [g for g in ast.walk(F) if isinstance(g, ast.FunctionDef) and g is not F and g.name == e.func.id]
        if len(gs) == 1 and not gs[0].args.args:
            g = gs[0]
            ys = [y for y in ast.walk(g) if isinstance(y, (ast.Yield, ast.YieldFrom))]
            if not ys or any(isinstance(y, ast.YieldFrom) or y.value is None for y in ys) or any(isinstance(r, ast.Return) and r.value is not None for r in ast.walk(g)):
                return None
            out = []
            for y in ys:
                looped = bool([l_ for l_ in loops_around(g, y)])
                out.append((g, y.value, y, looped))
            return out
        return None
    if isinstance(e, ast.Name):
        ds = [n for n in ast.walk(F) if isinstance(n, (ast.Assign, ast.AugAssign, ast.For, ast.comprehension, ast.AnnAssign))
              and any(isinstance(x, ast.Name) and x.id == e.id and isinstance(x.ctx, ast.Store)
                      for t in ([n.target] if not isinstance(n, ast.Assign) else n.targets) for x in ast.walk(t))]
        grows = [c for c in ast.walk(F) if isinstance(c, ast.Call) and isinstance(c.func, ast.Attribute) and src(c.func.value) == e.id]
        if len(ds) == 1 and isinstance(ds[0], ast.Assign) and len(ds[0].targets) == 1 and isinstance(ds[0].targets[0], ast.Name) and not grows:
            return _size_collection(init, F, ds[0].value, meths, in_iter or bool(loops_around(F, ds[0])), depth - 1)
        return None
    return None


def _size_element(init, F, e, meths, in_iter, depth):
    """one element of such a collection: the expression itself, or - for a call of a method of the same class - what that method returns"""
    if isinstance(e, ast.Call):
        g = _own_class_call(e, CLS, meths)
        if g is not None and g not in ("_get_swap_axes", "compatible"):
            h = meths[g]
            rets = [r for r in ast.walk(h) if isinstance(r, ast.Return)]
            if not rets or any(r.value is None for r in rets) or any(isinstance(y, (ast.Yield, ast.YieldFrom)) for y in ast.walk(h)):
                return None
            return [(h, r.value, r, True if in_iter else bool(loops_around(h, r))) for r in rets]
    return [(F, e, e, in_iter)]


def _local_block_factor(e):
    """`L.size` / `L.max_block_size` / np.prod(L.shape) / np.prod(L.max_block_shape) of something reached by names, attributes and
    subscripts only (no call in between)"""
    if isinstance(e, ast.Call) and src(e.func) in ("np.prod", "numpy.prod", "int") and len(e.args) == 1 and not e.keywords:
        a = e.args[0]
        if src(e.func) == "int":
            return _local_block_factor(a)
        return isinstance(a, ast.Attribute) and a.attr in ("shape", "max_block_shape") and \
            all(isinstance(x, (ast.Name, ast.Attribute, ast.Subscript, ast.Constant, ast.Load)) for x in ast.walk(a.value))
    return isinstance(e, ast.Attribute) and e.attr in ("size", "max_block_size") and \
        all(isinstance(x, (ast.Name, ast.Attribute, ast.Subscript, ast.Constant, ast.Load)) for x in ast.walk(e.value))


def _bufsize_rules(chk, rel, init, fi, envi, P):
    """LayoutHandler.__init__: the advertised size covers (padded block) x (communicator size) of every connected pair"""
    import sympy
    from ..core import same_expr, guards_of
    QI = "LayoutHandler.__init__"
    stores = [n for n in ast.walk(init) if isinstance(n, ast.Assign) and any(src(t) == "self._buffer_size" for t in n.targets)]

    def in_loop(n):
        p = parent(n)
        while p is not None and p is not init:
            if isinstance(p, (ast.For, ast.While)):
                return True
            p = parent(p)
        return False
    first = [n for n in stores if not in_loop(n)]
    sinks = [n for n in stores if in_loop(n)]
    # ---- the candidate value of each sink and whether the update is monotone
    cands = []
    for s_ in sinks:
        v, mono = s_.value, None
        if isinstance(v, ast.Call) and src(v.func) in ("max", "np.maximum", "numpy.maximum") and len(v.args) == 2 and not v.keywords:
            a, b = v.args
            if src(a) == "self._buffer_size":
                v, mono = b, True
            elif src(b) == "self._buffer_size":
                v, mono = a, True
        elif isinstance(v, ast.Call) and src(v.func) in ("min", "np.minimum"):
            mono = False
        else:
            for test, pol, kind in guards_of(s_):
                if kind == "if" and isinstance(test, ast.Compare) and len(test.ops) == 1:
                    l_, r_, op = src(test.left), src(test.comparators[0]), test.ops[0]
                    grows = (l_ == src(v) and r_ == "self._buffer_size" and isinstance(op, (ast.Gt, ast.GtE))) or \
                            (r_ == src(v) and l_ == "self._buffer_size" and isinstance(op, (ast.Lt, ast.LtE)))
                    shrinks = (l_ == src(v) and r_ == "self._buffer_size" and isinstance(op, (ast.Lt, ast.LtE))) or \
                              (r_ == src(v) and l_ == "self._buffer_size" and isinstance(op, (ast.Gt, ast.GtE)))
                    if "self._buffer_size" in (l_, r_):
                        # ASSUMPTION: the guard compares exactly the stored value with self._buffer_size (texts equal); any other guard leaves `mono`
                        # undecided
                        mono = True if (grows and pol) or (shrinks and not pol) else False if (shrinks and pol) or (grows and not pol) else None
                        break
            else:
                if not any("self._buffer_size" in src(t) for t, _, _ in guards_of(s_)) and "self._buffer_size" not in src(v):
                    # plain overwrite: the last pair wins.  ASSUMPTION: the stored value is this pair's own size, not a running maximum
                    # kept in a local (`best = max(best, x)` / `if x > best: best = x`): such a local makes the store monotone
                    acc = False
                    for nm in {x.id for x in ast.walk(v) if isinstance(x, ast.Name)}:
                        for d in _defs(init, nm):
                            if any(isinstance(x, ast.Name) and x.id == nm for x in ast.walk(d.value)) or \
                                    any(any(isinstance(x, ast.Name) and x.id == nm for x in ast.walk(t)) for t, _, _ in guards_of(d)):
                                acc = True
                    mono = None if acc else False
        cands.append((s_, v, mono, init))
    # ---- the same maximum written as a collection: candidates gathered in a local list, `max(list)` stored after the loop
    first_vals = [(n, n.value) for n in first]
    meths = {}
    cdef = parent(init)
    if isinstance(cdef, ast.ClassDef):
        meths = {m.name: m for m in cdef.body if isinstance(m, ast.FunctionDef)}
    for n in list(first):
        v = n.value
        if isinstance(v, ast.Call) and src(v.func) in ("max", "min", "np.max", "np.min", "np.amax", "np.amin", "numpy.max", "numpy.min") \
                and len(v.args) == 1 and isinstance(v.args[0], ast.Name) and not v.keywords:
            lst = v.args[0].id
            grows = "max" in src(v.func)
            d = [x for x in ast.walk(init) if isinstance(x, ast.Assign) and len(x.targets) == 1 and src(x.targets[0]) == lst]
            if len(d) != 1 or not isinstance(d[0].value, ast.List) or in_loop(d[0]):
                continue
            adds = []
            for x in ast.walk(init):
                if isinstance(x, ast.Call) and isinstance(x.func, ast.Attribute) and src(x.func.value) == lst:
                    if x.func.attr == "append" and len(x.args) == 1:
                        adds.append((x, x.args[0]))
                    elif x.func.attr == "extend" and len(x.args) == 1 and isinstance(x.args[0], (ast.List, ast.Tuple)):
                        adds += [(x, y) for y in x.args[0].elts]
                    else:
                        adds.append((x, None))
                elif isinstance(x, ast.AugAssign) and src(x.target) == lst:
                    if isinstance(x.op, ast.Add) and isinstance(x.value, (ast.List, ast.Tuple)):
                        adds += [(x, y) for y in x.value.elts]
                    else:
                        adds.append((x, None))
            if any(y is None for _, y in adds):
                continue
            first_vals = [(fn_, fv_) for fn_, fv_ in first_vals if fn_ is not n] + [(d[0], y) for y in d[0].value.elts] + \
                [(x, y) for x, y in adds if not in_loop(x)]
            for x, y in adds:
                if in_loop(x):
                    cands.append((x, y, True if grows else False, init))
    # ---- ... or as one expression: `max(<collection>)` over a display / concatenation / comprehension / generator, whose elements may
    # be computed by a helper method or a nested generator of the class (read where they are computed)
    for n in list(first):
        v = n.value
        if not any(fn_ is n for fn_, _ in first_vals):
            continue
        if isinstance(v, ast.Call) and src(v.func) in ("max", "min", "np.max", "np.min", "np.amax", "np.amin", "numpy.max", "numpy.min") \
                and len(v.args) >= 1 and all(k.arg == "default" for k in v.keywords):
            grows = "max" in src(v.func)
            if len(v.args) == 1:
                items = _size_collection(init, init, v.args[0], meths)
            else:
                items = []
                for a in v.args:
                    sub = _size_element(init, init, a, meths, False, 5)
                    items = None if items is None or sub is None else items + sub
            if items is None or not any(looped for _, _, _, looped in items):
                continue
            first_vals = [(fn_, fv_) for fn_, fv_ in first_vals if fn_ is not n] + [(nd, y) for F_, y, nd, looped in items if not looped and any(F_ is x for x in ast.walk(init))]
            for F_, y, nd, looped in items:
                if looped:
                    cands.append((nd if isinstance(nd, ast.stmt) else enclosing_stmt_of(nd) or n, y, True if grows else False, F_))
    sinks = [c[0] for c in cands]
    if not sinks:
        texts = " ".join(xsrc(n.value, envi) for n in stores)
        bad_ = None
        # ASSUMPTION of the diagnosis `the size no longer depends on the exchange blocks`: the stored expression, with the locals written
        # out, is CLOSED - it calls nothing whose body was not read (a method of the class, a nested function, a callable parameter) and
        # reads no local that could not be written out; otherwise the blocks may be computed there: undecided
        closed = bool(stores)
        for n in stores:
            vx = expand(n.value, envi)
            for x in ast.walk(vx):
                if isinstance(x, ast.Call) and src(x.func) not in ("max", "min", "np.prod", "numpy.prod", "int", "len", "np.max", "np.amax", "sum",
                                                                 "np.maximum", "list", "tuple"):
                    closed = False
                if isinstance(x, ast.Name) and x.id not in ("np", "numpy", "self", "max", "min", "int", "len", "sum", "list", "tuple") \
                        and x.id not in {a.arg for a in init.args.args}:
                    closed = False
                if isinstance(x, (ast.ListComp, ast.GeneratorExp, ast.SetComp, ast.Lambda, ast.Starred)):
                    closed = False
        if closed and "Get_size" not in texts and "max_block_shape" not in texts and "nprocs" not in texts:
            bad_ = (f"the advertised buffer size is `{src(stores[-1].value)[:80]}`: it no longer depends on the exchange blocks. One Alltoall "
                    "step needs (padded source block x padded destination block x communicator size) elements, which exceeds the "
                    "largest local block whenever an extent is not a multiple of the number of processes: arrays of exactly "
                    "bufferSize elements are then too small for the transposes")
        chk.pat("G1-geometry-bufsize", stores[-1] if stores else init, "buffsize = np.prod(blockshape) * comm size, per connected pair", False,
                "", bad_, file=rel, func=QI)
        return
    # ---- every value the candidate can take: block product x communicator size
    full, bad, unknown, local = 0, [], [], []
    facts = {}
    ctx = {}
    init0, fi0, envi0 = init, fi, envi
    for s_, v, mono, F_ in cands:
        # the routine the candidate is computed in (the constructor itself, a helper method, a nested generator): its own shape lists,
        # locals and pair roles
        if id(F_) not in ctx:
            ctx[id(F_)] = (fi0, envi0) if F_ is init0 else (ShapeFlow(F_), _init_env(F_))
        init = F_
        fi, envi = ctx[id(F_)]
        roles = _pair_roles(F_) or (_pair_roles(init0) if any(F_ is x for x in ast.walk(init0)) else None)
        for factors, guards in alternatives(init, v):
            block, comm, rest = None, None, []
            for f in factors:
                fx = expand(f, {k: w for k, w in envi.items() if k not in fi.lists and k not in fi.prods})
                if isinstance(f, ast.Name) and f.id in fi.prods:
                    block = fi.prods[f.id][0]
                elif isinstance(fx, ast.Call) and src(fx.func) in ("np.prod", "numpy.prod", "prod") and len(fx.args) == 1 \
                        and isinstance(fx.args[0], ast.Name) and fx.args[0].id in fi.lists:
                    block = fi.lists[fx.args[0].id]
                elif isinstance(fx, ast.Call) and isinstance(fx.func, ast.Attribute) and fx.func.attr == "Get_size" and not fx.args:
                    comm = src(fx.func.value)
                elif isinstance(fx, ast.Constant) and fx.value == 1:
                    pass
                else:
                    rest.append(src(f))
            if block is None and comm is None and rest and all(_local_block_factor(expand(f, envi)) for f in factors):
                # the size of a LOCAL block of one layout (`L.size`, `L.max_block_size`): read, and not an exchange block
                local.append(" * ".join(src(f) for f in factors))
                continue
            if block is None or rest:
                unknown.append(" * ".join(src(f) for f in factors))
                continue
            sl = written_out(block, envi)
            if roles is None:
                unknown.append("which of the two layouts of the pair is the source (no `_get_swap_axes(a, b)` call in the routine that sizes the block)")
                continue
            I = canon_product(sl, roles)
            facts["init"] = str(I)
            if P is None:
                unknown.append("packer block not extracted")
                continue
            same = I[0] == P[0] and I[1] == P[1] and sympy.expand(I[2] - P[2]) == 0
            padded = bool(I[1])
            if comm is not None:
                if comm.replace(" ", "") != "self._subcomms[axis[0]]":
                    if comm.replace(" ", "") in ("self._subcomms[axis[1]]", "self._subcomms[axis[2]]"):
                        # ASSUMPTION: `axis[k]` is in the producer's canonical numbering (handler_view renumbers the consumers, the constructor
                        # included)
                        bad.append(f"the block count is the size of `{comm}`: the exchange runs on the communicator of the swapped "
                                   "process axis, self._subcomms[axis[0]]")
                    else:
                        unknown.append(comm)
                    continue
                if same:
                    full += 1
                elif _known_product(sl, roles):
                    # ASSUMPTIONS (checked): the pair roles come from the `_get_swap_axes(a, b)` call of the sizing routine, the block is in the known
                    # vocabulary, the packer's block was read through a PROVEN block-size variable (else P is None: undecided)
                    bad.append(f"buffer-size block {I} differs from the packer's block {P}: the send buffer the packer fills is larger "
                               "than the advertised size on some rank (and ranks disagree on bufferSize)")
                else:
                    unknown.append(str(I))
            else:
                # without a communicator factor: the arm for `no distributed axis is swapped` (unpadded local block) or a missing factor
                if padded and not same and _known_product(sl, roles):
                    bad.append(f"buffer-size block {I} differs from the packer's block {P}")
    init, fi, envi = init0, fi0, envi0
    okb = full >= 1 and not bad and not unknown
    diag = None
    if bad:
        diag = "; ".join(dict.fromkeys(bad))
    elif not unknown and full == 0 and local and len(local) == sum(1 for c in cands for _ in alternatives(c[3], c[1])):
        # ASSUMPTION: every candidate was read, and each is the size of a local block
        diag = (f"the advertised buffer size is the largest of `{local[0][:60]}`: it no longer depends on the exchange blocks. One Alltoall "
                "step needs (padded source block x padded destination block x communicator size) elements, which exceeds the "
                "largest local block whenever an extent is not a multiple of the number of processes: arrays of exactly "
                "bufferSize elements are then too small for the transposes")
    elif not unknown and full == 0:
        # ASSUMPTION: every candidate was read (none unknown) and none carries the communicator factor
        diag = ("no connected pair's block is multiplied by the size of the communicator of the swapped axis: one Alltoall step holds a "
                "padded block for every rank of that communicator, so the advertised size is too small by that factor")
    chk.pat("G1-geometry-bufsize", sinks[0], src(sinks[0])[:100], okb,
            "advertised buffer size = packed block x size of the communicator of the swapped axis", diag, file=rel, func=QI,
            facts=dict(facts, packer=str(P)))
    # ---- monotone maximum over the pairs
    monos = [c[2] for c in cands]
    okm = all(m is True for m in monos)
    badm = None
    if any(m is False for m in monos):
        s_ = [c[0] for c in cands if c[2] is False][0]
        # ASSUMPTION (checked where `mono` is computed): the update is min(), a guard that keeps the smaller value, or an unguarded overwrite by a
        # value that is not a running maximum kept in a local
        badm = (f"`{src(s_)[:70]}` does not keep the larger of the old and the new value: the advertised size is that of the last (or the "
                "smallest) connected pair, too small for the transposes of the others")
    chk.pat("G1-bufsize-max", sinks[0], "self._buffer_size = max(...)", okm, "buffer size is the maximum over all compatible pairs", badm,
            file=rel, func=QI)
    # ---- initial value: a local block (covers the single-layout case)
    ok0, bad0 = None, None
    if first_vals:
        fv0 = first_vals[0][1]
        t0 = xsrc(fv0, envi)
        if ".size" in t0 or "max_block_size" in t0:
            ok0 = True
        elif isinstance(fv0, ast.Constant) and not local:
            # ASSUMPTION: no candidate supplies a layout's own block size later (a loop over the layouts raising the size to `l.size`)
            bad0 = (f"the advertised size starts from the constant {fv0.value!r}: a handler with a single layout (no connected pair) "
                    "advertises a size that does not cover its own block" +
                    (", and size 0 marks a plot-only rank whose transposes do nothing" if fv0.value == 0 else ""))
    chk.pat("G1-bufsize-init", first_vals[0][0] if first_vals else init, "self._buffer_size initial value", ok0,
            "initialised from a layout's block size (covers the single-layout case)", bad0, file=rel, func=QI, nontrivial=False)


def enclosing_stmt_of(node):
    while node is not None and not isinstance(node, ast.stmt):
        node = parent(node)
    return node


def comm_axis_check(chk, mod):
    """G2: pack, exchange and unpack of one step use the same axis object and the communicator of the swapped axis"""
    rel = mod.rel
    dpk, dup = mod.func("LayoutHandler._extract_from_source"), mod.func("LayoutHandler._rearrange_from_buffer")
    AX = "self._get_swap_axes(layout_source, layout_dest)"
    for q in ("LayoutHandler._transpose", "LayoutHandler._transpose_source_intact"):
        if not mod.has(q):
            chk.ob("G2-comm-axis-agreement", mod.cls(CLS), f"pack/unpack in {q.split('.')[-1]}", None,
                   f"{q} does not exist any more: the single-step routines were restructured", file=rel, func=q)
            continue
        fn = mod.func(q)
        chk.functions.add(f"{rel}:{q}")
        env = inline_locals(fn)
        pks = [c for c in ast.walk(fn) if isinstance(c, ast.Call) and isinstance(c.func, ast.Attribute) and c.func.attr == "_extract_from_source"]
        ups = [c for c in ast.walk(fn) if isinstance(c, ast.Call) and isinstance(c.func, ast.Attribute) and c.func.attr == "_rearrange_from_buffer"]
        what = f"pack/unpack in {q.split('.')[-1]}"
        if len(pks) != 1 or len(ups) != 1:
            chk.ob("G2-comm-axis-agreement", fn, what, None,
                   f"{q} does not call the packer and the unpacker exactly once each any more ({len(pks)}/{len(ups)} calls): the agreement "
                   "of their arguments cannot be compared here", file=rel, func=q)
            continue
        pa, ua = call_args(pks[0], dpk), call_args(ups[0], dup)
        need = ("layout_source", "layout_dest", "axis")
        if pa is None or ua is None or any(k not in pa or k not in ua for k in need) or "tobuffer" not in pa or "data" not in ua:
            chk.ob("G2-comm-axis-agreement", fn, what, None, "arguments of the pack/unpack calls could not be matched with the parameters",
                   file=rel, func=q)
            continue
        axp, axu = xsrc(pa["axis"], env), xsrc(ua["axis"], env)
        cenv = {k: v for k, v in env.items() if k != "axis"}
        # the communicator: what the packer / the unpacker are given, and what a collective written in this routine itself runs on
        xs = [c for c in ast.walk(fn) if isinstance(c, ast.Call) and isinstance(c.func, ast.Attribute) and c.func.attr in ("Alltoall", "Alltoallv", "alltoall")]
        comms = []
        if pa.get("comm") is not None:
            comms.append(("the packer is given the communicator", xsrc(pa["comm"], cenv)))
        if ua.get("comm") is not None:
            comms.append(("the exchange/unpack", xsrc(ua["comm"], cenv)))
        for c_ in xs:
            comms.append(("the exchange in this routine runs on", xsrc(c_.func.value, cenv)))
        cp_ = comms[0][1] if comms else None
        cu_ = next((t for _, t in comms if t != cp_), cp_)
        lenv = {k: v for k, v in env.items() if k not in ("layout_source", "layout_dest")}
        lay_p = (xsrc(pa["layout_source"], lenv), xsrc(pa["layout_dest"], lenv))
        lay_u = (xsrc(ua["layout_source"], lenv), xsrc(ua["layout_dest"], lenv))
        bad, und = [], []
        # ASSUMPTION of the three diagnoses below: the expressions compared are written in one vocabulary, so that different texts are
        # different values - two `self._get_swap_axes(a, b)` calls with the routine's layout parameters as arguments, the layout
        # parameters themselves; anything else (a parameter handed in by the caller, a table look-up) is not compared: undecided
        gsa = r"self\._get_swap_axes\((layout_source|layout_dest),(layout_source|layout_dest)\)"
        import re
        if axp != axu:
            if re.fullmatch(gsa, axp.replace(" ", "")) and re.fullmatch(gsa, axu.replace(" ", "")):
                bad.append(f"the packer gets the axis triple `{axp}`, the unpacker `{axu}`")
            else:
                und.append(f"axis triples `{axp}` / `{axu}`")
        if lay_p != lay_u:
            if set(lay_p) | set(lay_u) <= {"layout_source", "layout_dest"}:
                bad.append(f"the packer is told the layouts {lay_p}, the unpacker {lay_u}")
            else:
                und.append(f"layouts {lay_p} / {lay_u}")
        elif lay_p == ("layout_dest", "layout_source"):
            # ASSUMPTION: the callee's parameters carry their roles in their names (layout_source / layout_dest, normalised by the engine's
            # reference-name pass); both calls were matched parameter by parameter (call_args)
            bad.append("source and destination layout are passed in exchanged order")
        elif lay_p != ("layout_source", "layout_dest"):
            und.append(f"layouts {lay_p}")
        if axp == axu:
            a0 = ast.parse(axp, mode="eval").body
            if axp.replace(" ", "") == AX.replace(" ", ""):
                pass
            elif axp.replace(" ", "") == "self._get_swap_axes(layout_dest,layout_source)":
                # ASSUMPTION: packer and unpacker read axis[1] as a source position and axis[2] as a destination position (their own rules
                # G3-axis-index-space decide that); the call text is exactly _get_swap_axes(layout_dest, layout_source)
                bad.append("the axis triple is computed for the opposite direction (destination, source): axis[1] and axis[2] exchange roles")
            elif isinstance(a0, ast.Subscript) and isinstance(a0.value, ast.Attribute) and isinstance(a0.value.value, ast.Name) \
                    and a0.value.value.id == "self":
                r = _axis_table(chk, mod, a0)
                if r is True:
                    pass
                elif r:
                    bad.append(r)
                else:
                    und.append(f"axis triple read from `{src(a0.value)}`, whose construction was not recognised")
            else:
                und.append(f"axis triple `{axp}`")
        import re
        if cp_ is None or (ua.get("comm") is None and not xs):
            und.append("the communicator of the exchange (neither passed to the unpacker nor used by a collective in this routine)")
        elif cp_ != cu_:
            a_, b_ = comms[0], next(x for x in comms if x[1] != cp_)
            if all(t.replace(" ", "").startswith("self._subcomms[") for _, t in (a_, b_)):
                bad.append(f"{a_[0]} `{a_[1]}`, {b_[0]} `{b_[1]}`")
            else:
                und.append(f"communicators `{a_[1]}` / `{b_[1]}` (not both entries of self._subcomms: not compared)")
        else:
            m = re.fullmatch(r"self\._subcomms\[axis\[(\d)\]\]", cp_.replace(" ", ""))
            if m and m.group(1) != "0":
                # ASSUMPTION: canonical numbering of the axis triple; the communicator table self._subcomms is indexed by process axis
                bad.append(f"the exchange runs on `{cp_}`: axis[{m.group(1)}] is a layout position, the communicator of the swapped "
                           "process axis is self._subcomms[axis[0]]")
            elif not m:
                und.append(f"communicator `{cp_}`")
        ok = not bad and not und
        chk.pat("G2-comm-axis-agreement", fn, what, ok,
                "pack and unpack get the same axis triple, the same (source,dest) layouts, and the communicator of the swapped process axis",
                "; ".join(bad) or None, file=rel, func=q)
        # the unpack reads what the pack wrote: the buffer the packer fills is the send buffer of the exchange
        b1, b2 = xsrc(pa["tobuffer"], env), xsrc(ua["data"], env)
        params = {a.arg for a in fn.args.args}
        if xs and ua.get("comm") is None:
            # the collective is written here: its send buffer is a cut of one of this routine's arrays
            sent = [r_ for r_ in params if r_ in ARRAY_NAMES and _flat_cut(fn, xs[0].args[0], enclosing_stmt_of(xs[0]), r_) is not None] if xs[0].args else []
            b2 = sent[0] if len(sent) == 1 else "<send buffer of the exchange not followed>"
        okb = b1 == b2
        badb = None
        # ASSUMPTION: the unpacker's exchange really SENDS its `data` parameter (read from its own collective: the send buffer is a view
        # of `data`), or the collective is written in this routine
        sends_data = bool(xs and ua.get("comm") is None)
        for c_ in ast.walk(dup):
            if isinstance(c_, ast.Call) and isinstance(c_.func, ast.Attribute) and c_.func.attr in ("Alltoall", "Alltoallv") and c_.args:
                a0_ = c_.args[0].elts[0] if isinstance(c_.args[0], (ast.Tuple, ast.List)) and c_.args[0].elts else c_.args[0]
                if _flat_cut(dup, a0_, enclosing_stmt_of(c_), "data") is not None:
                    sends_data = True
        if not okb and b1 in params and b2 in params and sends_data:
            badb = (f"the packer fills `{b1}` but the exchange sends `{b2}`: the blocks that are exchanged are not the ones that were packed")
        chk.pat("G2-pack-buffer-is-send-buffer", fn, f"{b1} / {b2}", okb, "the buffer filled by the packer is the send buffer of the exchange",
                badb, file=rel, func=q)


def _axis_table(chk, mod, sub):
    """the axis triple is read from a table `self.T[(source name, dest name)]` filled by the constructor: every entry must hold the
    triple computed for ITS direction.  -> True / diagnosis string / None (not recognised)"""
    attr = src(sub.value)
    key = sub.slice
    if not (isinstance(key, ast.Tuple) and [src(e) for e in key.elts] == ["layout_source.name", "layout_dest.name"]):
        return None
    init = mod.func("LayoutHandler.__init__")
    env = inline_locals(init)
    # (name variable, layout variable) pairs of the constructor's loops
    lay_of = {}
    for n in ast.walk(init):
        if isinstance(n, ast.For):
            for t in ast.walk(n.target):
                if isinstance(t, ast.Tuple) and len(t.elts) == 2 and all(isinstance(e, ast.Name) for e in t.elts):
                    lay_of[t.elts[0].id] = t.elts[1].id
    stores = [n for n in ast.walk(init) if isinstance(n, ast.Assign) and isinstance(n.targets[0], ast.Subscript)
              and src(n.targets[0].value) == attr]
    if not stores:
        return None
    seen = 0
    for s_ in stores:
        k = s_.targets[0].slice
        v = expand(s_.value, env)
        if not (isinstance(k, ast.Tuple) and len(k.elts) == 2 and all(isinstance(e, ast.Name) and e.id in lay_of for e in k.elts)):
            return None
        if not (isinstance(v, ast.Call) and src(v.func) == "self._get_swap_axes" and len(v.args) == 2 and all(isinstance(a, ast.Name) for a in v.args)):
            return None
        want = [lay_of[e.id] for e in k.elts]
        got = [a.id for a in v.args]
        if got == want[::-1] and got != want:
            return (f"`{src(s_)}` stores under the direction ({src(k.elts[0])} -> {src(k.elts[1])}) the axis triple computed for the opposite "
                    f"direction ({got[0]} -> {got[1]}): axis[1] is a position in the source ordering and axis[2] one in the destination "
                    "ordering, so they exchange roles when the direction is reversed - the packer splits and the unpacker places along the wrong axes")
        if got != want:
            return None
        seen += 1
    return True if seen >= 2 else None


def record_fields(tree, name):
    """field names, in order, of a small record type defined at module level: `X = namedtuple('X', [...])` / `namedtuple('X', 'a b c')`,
    a NamedTuple / dataclass-style class with annotated fields, or a class whose __init__ stores its parameters; None when not found"""
    for st in getattr(tree, "body", []):
        if isinstance(st, ast.Assign) and len(st.targets) == 1 and isinstance(st.targets[0], ast.Name) and st.targets[0].id == name \
                and isinstance(st.value, ast.Call) and src(st.value.func).split(".")[-1] in ("namedtuple", "NamedTuple") and len(st.value.args) >= 2:
            f = st.value.args[1]
            if isinstance(f, (ast.List, ast.Tuple)):
                out = []
                for x in f.elts:
                    if isinstance(x, ast.Constant) and isinstance(x.value, str):
                        out.append(x.value)
                    elif isinstance(x, ast.Tuple) and x.elts and isinstance(x.elts[0], ast.Constant):
                        out.append(x.elts[0].value)
                    else:
                        return None
                return out
            if isinstance(f, ast.Constant) and isinstance(f.value, str):
                return f.value.replace(",", " ").split()
        if isinstance(st, ast.ClassDef) and st.name == name:
            ann = [b.target.id for b in st.body if isinstance(b, ast.AnnAssign) and isinstance(b.target, ast.Name)]
            if ann:
                return ann
            for b in st.body:
                if isinstance(b, ast.FunctionDef) and b.name == "__init__":
                    return [a.arg for a in b.args.args[1:]]
    return None


def swap_axes_producer(fn):
    """how _get_swap_axes hands out (process axis, position in the source, position in the destination), whatever container it uses:
    -> dict(loop, iv, nv, items=[expressions in the order they are stored], keys=[the key of each item: its position in a list/tuple,
    its field name in a record, its key in a dict], adds=[nodes that store them], other=[statements that change the container in a way
    that is not read], form='list'|'record'); None when the loop over the process-grid directions is not recognised"""
    loops = [n for n in ast.walk(fn) if isinstance(n, ast.For)]
    if not (len(loops) == 1 and isinstance(loops[0].iter, ast.Call) and src(loops[0].iter.func) == "enumerate" and len(loops[0].iter.args) == 1
            and isinstance(loops[0].target, ast.Tuple) and len(loops[0].target.elts) == 2 and all(isinstance(e, ast.Name) for e in loops[0].target.elts)):
        return None
    L = loops[0]
    iv, nv = (e.id for e in L.target.elts)
    rets = [n for n in ast.walk(fn) if isinstance(n, ast.Return) and n.value is not None]
    out = dict(loop=L, iv=iv, nv=nv, items=[], keys=[], adds=[], other=[], form=None, lst=None, empty=None)
    in_loop = [r for r in rets if any(x is r for x in ast.walk(L))]
    if len(rets) == 1 and isinstance(rets[0].value, ast.Name) and not in_loop:
        lst = rets[0].value.id
        out["form"], out["lst"] = "list", lst
        entries = []
        for n in ast.walk(L):
            if isinstance(n, ast.Call) and isinstance(n.func, ast.Attribute) and src(n.func.value) == lst:
                if n.func.attr == "append" and len(n.args) == 1:
                    entries.append((n.lineno, n.col_offset, [n.args[0]], n))
                elif n.func.attr == "extend" and len(n.args) == 1 and isinstance(n.args[0], (ast.List, ast.Tuple)):
                    entries.append((n.lineno, n.col_offset, list(n.args[0].elts), n))
                elif n.func.attr in ("extend", "insert", "pop", "remove", "clear", "__iadd__"):
                    out["other"].append(n)
            elif isinstance(n, ast.AugAssign) and src(n.target) == lst:
                if isinstance(n.op, ast.Add) and isinstance(n.value, (ast.List, ast.Tuple)):
                    entries.append((n.lineno, n.col_offset, list(n.value.elts), n))
                else:
                    out["other"].append(n)
        out["other"] += [n for n in ast.walk(fn) if isinstance(n, ast.Assign) and any(src(t) == lst for t in n.targets) and
                         not (isinstance(n.value, ast.List) and not n.value.elts)]
        entries.sort(key=lambda x: (x[0], x[1]))
        out["items"] = [e for _, _, es, _ in entries for e in es]
        out["keys"] = list(range(len(out["items"])))
        out["adds"] = [n for _, _, _, n in entries]
        out["empty"] = "list"
        return out
    # the triple is returned from inside the loop, for the first direction that qualifies; after the loop: the `nothing changes` value
    if len(in_loop) == 1 and len(rets) <= 2:
        r = in_loop[0]
        v = r.value
        last = [x for x in rets if x is not r]
        if last:
            lv = last[0].value
            if isinstance(lv, ast.Constant) and lv.value is None:
                out["empty"] = "none"
            elif isinstance(lv, (ast.List, ast.Tuple)) and not lv.elts:
                out["empty"] = "list"
            else:
                out["other"].append(last[0])
        else:
            out["empty"] = "none"          # falling off the end returns None
        items, keys = None, None
        if isinstance(v, (ast.List, ast.Tuple)):
            items, keys = list(v.elts), list(range(len(v.elts)))
        elif isinstance(v, ast.Dict) and all(isinstance(k, ast.Constant) for k in v.keys):
            items, keys = list(v.values), [k.value for k in v.keys]
        elif isinstance(v, ast.Call) and isinstance(v.func, ast.Name) and not any(isinstance(a, ast.Starred) for a in v.args):
            top = fn
            while getattr(top, "_parent", None) is not None:
                top = top._parent
            fields = record_fields(top, v.func.id) if isinstance(top, ast.Module) else None
            if v.func.id in ("list", "tuple") and len(v.args) == 1 and isinstance(v.args[0], (ast.List, ast.Tuple)):
                items, keys = list(v.args[0].elts), list(range(len(v.args[0].elts)))
            elif fields is not None and len(v.args) <= len(fields) and all(k.arg in fields for k in v.keywords):
                items = list(v.args) + [k.value for k in v.keywords]
                keys = fields[:len(v.args)] + [k.arg for k in v.keywords]
                out["record_type"] = v.func.id
            elif not v.args and v.keywords and all(k.arg for k in v.keywords):
                items, keys = [k.value for k in v.keywords], [k.arg for k in v.keywords]
                out["record_type"] = v.func.id
        if items is None:
            return None
        out["form"] = "record"
        out["items"], out["keys"], out["adds"] = items, keys, [r]
        return out
    return None


def swap_axes_def_check(chk, mod):
    """axis triple of _get_swap_axes matches its documented roles (positions in source/dest orderings)"""
    import re
    rel = mod.rel
    Q = "LayoutHandler._get_swap_axes"
    fn = mod.func(Q)
    chk.functions.add(f"{rel}:{Q}")
    env = inline_locals(fn)
    what = "axis = [i, src.index(dest_dim), dst.index(source_dim)]"
    good = ("axis[0] = swapped process axis, axis[1] = position in the source of the dimension distributed in the "
            "destination, axis[2] = position in the destination of the dimension distributed in the source")
    prod = swap_axes_producer(fn)
    if prod is None:
        chk.ob("G2-swap-axes-roles", fn, what, None, "the loop over the process-grid directions / the returned list was not recognised",
               file=rel, func=Q)
        return
    loops, iv, nv, lst = [prod["loop"]], prod["iv"], prod["nv"], prod["lst"]
    items, apps, other = prod["items"], prod["adds"], prod["other"]
    xenv = {k: v for k, v in env.items() if k not in (iv, nv, lst)}
    got = [xsrc(e, xenv).replace(" ", "") for e in items]
    want = [iv, f"layout_source.dims_order.index(layout_dest.dims_order[{iv}])", f"layout_dest.dims_order.index(layout_source.dims_order[{iv}])"]
    vocab = re.compile(rf"{iv}|layout_(source|dest)\.dims_order\.index\(layout_(source|dest)\.dims_order\[{iv}\]\)|layout_(source|dest)\.dims_order\[{iv}\]")
    bad, und = [], []
    if other or src(loops[0].iter.args[0]) not in ("self._nprocsList", "self._nprocs"):
        und.append("list construction / loop range")
    conv_note = ""
    if got != want and sorted(got) == sorted(want) and len(got) == 3:
        # the same three entries in another order: a convention; the consumers are read with the positions renumbered accordingly
        # (handler_view), so their rules decide whether they follow it
        conv_note = " (stored in the order " + ", ".join(f"axis[{got.index(w)}]" for w in want) + ")"
        got = want
    if got != want:
        if all(vocab.fullmatch(g) for g in got) and not other:
            uses_third = any(mod.has(q_) and "axis[2]" in src(mod.func(q_)).replace(" ", "")
                             for q_ in (f"{CLS}._extract_from_source", f"{CLS}._rearrange_from_buffer", f"{CLS}._transpose", f"{CLS}._transpose_source_intact"))
            if len(got) == 2 and got == want[:2] and not uses_third:
                # the consumers do not read a third entry: they may compute the destination position themselves (a convention between
                # producer and consumers, decided by the consumers' own rules): not a defect of the producer
                und.append("the producer hands out two entries and no consumer reads axis[2]: how the destination position is obtained was not followed")
            elif len(got) == 2 and got == want[:2]:
                bad.append("the triple lacks axis[2], the position IN THE DESTINATION ordering of the dimension that is distributed in the source: "
                           "a consumer that addresses the destination view can then only use axis[1], a position in the SOURCE ordering, which is "
                           "the same number only when the two layouts differ by a plain exchange of two axes")
            else:
                # ASSUMPTION: every entry is written in the producer's vocabulary (the loop counter, dims_order.index(...) of the two layouts) and
                # they are not a permutation of the three roles (a permutation is a convention: handled above); the consumers still read three entries
                bad.append(f"the entries appended are {[xsrc(e, xenv) for e in items]}, expected "
                           f"[{iv}, layout_source.dims_order.index(dest_dim), layout_dest.dims_order.index(source_dim)]: the packer/unpacker "
                           "read them with these roles")
        else:
            und.append(f"appended entries {got}")
    # the guard: a direction counts when it is distributed (n > 1) and carries different dimensions in the two layouts
    gs = [g for c in apps for g in [guards_if(c, loops[0])]]
    okg = None
    for g in gs[:1]:
        conj = sorted(xsrc(x, xenv).replace(" ", "").replace("(", "").replace(")", "") for x in g)
        w1 = f"layout_source.dims_order[{iv}]!=layout_dest.dims_order[{iv}]"
        w1b = f"layout_dest.dims_order[{iv}]!=layout_source.dims_order[{iv}]"
        rest = [c for c in conj if c not in (w1, w1b)]
        if len(conj) == 2 and len(rest) == 1 and rest[0] in (f"{nv}>1", f"1<{nv}", f"{nv}>=2", f"{nv}!=1"):
            okg = True
        elif any(c in (w1.replace("!=", "=="), w1b.replace("!=", "==")) for c in conj):
            okg = False
            # ASSUMPTION: the guard, with locals written out, literally tests dims_order[i] == dims_order[i] of the two layouts
            bad.append("the guard selects the directions whose dimension is the SAME in both layouts")
    if len({tuple(sorted(src(x) for x in g)) for g in gs}) > 1:
        okg = None
        und.append("the entries are added under different guards")
    if okg is None:
        und.append("guard of the appends")
    ok = not bad and not und
    chk.pat("G2-swap-axes-roles", fn, what, ok, good + conv_note, "; ".join(bad) or None, file=rel, func=Q)


def axis_convention(fn):
    """the positions at which _get_swap_axes stores (process axis, position in the source, position in the destination), when it stores
    exactly these three in some order: [p0, p1, p2] (reference: [0, 1, 2]); None when the producer is not read"""
    env = inline_locals(fn)
    prod = swap_axes_producer(fn)
    if prod is None or prod["other"]:
        return None
    iv, nv, lst = prod["iv"], prod["nv"], prod["lst"]
    xenv = {k: v for k, v in env.items() if k not in (iv, nv, lst)}
    got = [xsrc(e, xenv).replace(" ", "") for e in prod["items"]]
    want = [iv, f"layout_source.dims_order.index(layout_dest.dims_order[{iv}])", f"layout_dest.dims_order.index(layout_source.dims_order[{iv}])"]
    if len(got) == 3 and sorted(got) == sorted(want):
        return [prod["keys"][got.index(w)] for w in want]
    return None


class _AxisRenumber(ast.NodeTransformer):
    """axis[j] -> axis[canonical position of the role stored at j]"""

    def __init__(self, to_canon):
        self.m = to_canon

    def visit_Subscript(self, node):
        self.generic_visit(node)
        if isinstance(node.value, ast.Name) and node.value.id == "axis" and isinstance(node.slice, ast.Constant) \
                and isinstance(node.slice.value, int) and node.slice.value in self.m:
            new = ast.copy_location(ast.Constant(value=self.m[node.slice.value]), node.slice)
            new._axis_orig = node.slice.value
            node.slice = new
        return node


class _RecordToAxis(ast.NodeTransformer):
    """the variables that hold the result of _get_swap_axes are written `axis`, their items `axis[k]` with k the canonical position of
    the role (k-th of: process axis, position in the source, position in the destination) whatever container the producer uses
    (record field `X.f`, dict key `X['f']`, another position `X[j]`); `X is None` (a producer that returns None when no distributed
    direction changes) is `len(axis) == 0`"""

    def __init__(self, names, to_canon, none_is_empty):
        self.names, self.m, self.none = set(names), dict(to_canon), none_is_empty

    def _axis(self, node, k, orig=None):
        new = ast.Subscript(value=ast.Name(id="axis", ctx=ast.Load()), slice=ast.Constant(value=k), ctx=getattr(node, "ctx", ast.Load()))
        if isinstance(orig, int):
            new.slice._axis_orig = orig
        return ast.copy_location(new, node)

    def visit_Attribute(self, node):
        if isinstance(node.value, ast.Name) and node.value.id in self.names and node.attr in self.m:
            return self._axis(node, self.m[node.attr])
        self.generic_visit(node)
        return node

    def visit_Subscript(self, node):
        if isinstance(node.value, ast.Name) and node.value.id in self.names and isinstance(node.slice, ast.Constant) and node.slice.value in self.m:
            return self._axis(node, self.m[node.slice.value], node.slice.value)
        self.generic_visit(node)
        return node

    def visit_Compare(self, node):
        if self.none and len(node.ops) == 1 and isinstance(node.left, ast.Name) and node.left.id in self.names \
                and isinstance(node.comparators[0], ast.Constant) and node.comparators[0].value is None \
                and isinstance(node.ops[0], (ast.Is, ast.IsNot, ast.Eq, ast.NotEq)):
            op = ast.Eq() if isinstance(node.ops[0], (ast.Is, ast.Eq)) else ast.NotEq()
            new = ast.Compare(left=ast.Call(func=ast.Name(id="len", ctx=ast.Load()), args=[ast.Name(id="axis", ctx=ast.Load())], keywords=[]),
                              ops=[op], comparators=[ast.Constant(value=0)])
            return ast.copy_location(new, node)
        self.generic_visit(node)
        return node

    def visit_Name(self, node):
        if node.id in self.names:
            return ast.copy_location(ast.Name(id="axis", ctx=node.ctx), node)
        return node

    def visit_arg(self, node):
        if node.arg in self.names:
            node.arg = "axis"
        return node


def swap_axes_variables(mod, cls_name):
    """{method name: the local names / parameters that hold a result of _get_swap_axes} - by def-use: the targets of
    `x = self._get_swap_axes(...)` and the parameters such a variable is passed for in calls of methods of the same class"""
    meths = class_methods(mod, cls_name)
    out = {m: set() for m in meths}
    for m, fn in meths.items():
        for n in ast.walk(fn):
            if isinstance(n, ast.Assign) and len(n.targets) == 1 and isinstance(n.targets[0], ast.Name) and isinstance(n.value, ast.Call) \
                    and _own_class_call(n.value, cls_name, meths) == "_get_swap_axes":
                out[m].add(n.targets[0].id)
    for _ in range(4):
        changed = False
        for m, fn in meths.items():
            if not out[m]:
                continue
            for c in ast.walk(fn):
                if isinstance(c, ast.Call):
                    g = _own_class_call(c, cls_name, meths)
                    if g is None:
                        continue
                    am = call_args(c, meths[g]) or {}
                    for p_, v in am.items():
                        if isinstance(v, ast.Name) and v.id in out[m] and p_ not in out[g]:
                            out[g].add(p_)
                            changed = True
        if not changed:
            break
    return out


def orig_src(node):
    """source of a node of a renumbered view as it is written in the file (axis[j] with the file's own j)"""
    swapped = []
    for x in ast.walk(node):
        if hasattr(x, "_axis_orig"):
            swapped.append((x, x.value))
            x.value = x._axis_orig
    try:
        return ast.unparse(node)
    finally:
        for x, v in swapped:
            x.value = v


_NEG_OP = {ast.Lt: ast.GtE, ast.GtE: ast.Lt, ast.Gt: ast.LtE, ast.LtE: ast.Gt, ast.Eq: ast.NotEq, ast.NotEq: ast.Eq,
           ast.Is: ast.IsNot, ast.IsNot: ast.Is, ast.In: ast.NotIn, ast.NotIn: ast.In}


def negate(test):
    """the negation of a test as a list of conjuncts, or None (`not (a and b)` is not a conjunction)"""
    if isinstance(test, ast.UnaryOp) and isinstance(test.op, ast.Not):
        t = test.operand
        return list(t.values) if isinstance(t, ast.BoolOp) and isinstance(t.op, ast.And) else [t]
    if isinstance(test, ast.Compare) and len(test.ops) == 1 and type(test.ops[0]) in _NEG_OP:
        return [ast.copy_location(ast.Compare(left=test.left, ops=[_NEG_OP[type(test.ops[0])]()], comparators=test.comparators), test)]
    if isinstance(test, ast.BoolOp) and isinstance(test.op, ast.Or):
        out = []
        for v in test.values:
            n = negate(v)
            if n is None:
                return None
            out += n
        return out
    return None


def guards_if(node, stop):
    """conjuncts of the conditions under which a node inside the loop `stop` is reached: the `if` tests it is control dependent on
    (negated for an `else` arm) and the negations of the tests of earlier `if c: continue` statements of the loop body"""
    from ..core import guards_of
    out = []
    for test, pol, kind in guards_of(node, stop=stop):
        if kind != "if":
            return [ast.Constant(value="<unrecognised guard>")]
        if pol:
            out += list(test.values) if isinstance(test, ast.BoolOp) and isinstance(test.op, ast.And) else [test]
        else:
            n = negate(test)
            if n is None:
                return [ast.Constant(value="<unrecognised guard>")]
            out += n
    # early exits of the iteration before the statement
    if isinstance(stop, (ast.For, ast.While)):
        top = node
        while parent(top) is not None and parent(top) is not stop:
            top = parent(top)
        for prev in stop.body:
            if prev is top:
                break
            if isinstance(prev, ast.If) and not prev.orelse and len(prev.body) == 1 and isinstance(prev.body[0], ast.Continue):
                n = negate(prev.test)
                if n is None:
                    return [ast.Constant(value="<unrecognised guard>")]
                out += n
            elif any(isinstance(x, (ast.Continue, ast.Break)) for x in ast.walk(prev)):
                return [ast.Constant(value="<unrecognised guard>")]
    return out


def _ignores_extent_one(comp):
    """does LayoutHandler.compatible skip the process-grid directions of extent 1 when it counts the directions whose dimension
    changes?  True / False (every direction counts) / None (not recognised)"""
    loops = [n for n in ast.walk(comp) if isinstance(n, ast.For) and isinstance(n.iter, ast.Call) and src(n.iter.func) == "enumerate"
             and isinstance(n.target, ast.Tuple) and len(n.target.elts) == 2 and isinstance(n.target.elts[1], ast.Name)]
    if len(loops) != 1:
        return None
    nv = loops[0].target.elts[1].id
    conj = []
    for n in ast.walk(loops[0]):
        if isinstance(n, ast.If):
            conj += list(n.test.values) if isinstance(n.test, ast.BoolOp) and isinstance(n.test.op, ast.And) else [n.test]
    about_n = [c for c in conj if any(isinstance(x, ast.Name) and x.id == nv for x in ast.walk(c))]
    if not about_n:
        return False
    if all(src(c).replace(" ", "").replace("(", "").replace(")", "") in (f"{nv}>1", f"1<{nv}", f"{nv}!=1", f"{nv}>=2", f"2<={nv}") for c in about_n):
        return True
    return None


def swap_index_check(chk, mod, fp, fu):
    """G3: after positions 0 and axis[0] of a list were exchanged, a subscript by the
    pre-swap position axis[1] is only valid when axis[1] is neither 0 nor axis[0]."""
    rel = mod.rel
    ignores_extent1 = _ignores_extent_one(mod.func("LayoutHandler.compatible"))
    count = 0
    for q, flow in (("LayoutHandler._extract_from_source", fp), ("LayoutHandler._rearrange_from_buffer", fu)):
        fnode = mod.func(q)
        env = inline_locals(fnode)
        pflow = permcheck.PermFlow(permcheck._Null(), rel, q, fnode, {})
        for lname, k, line, node, swaps in flow.subscripts:
            if not swaps:
                continue
            count += 1
            swapped_pos = set()
            for i, j, _ in swaps:
                swapped_pos |= {i, j}
            literal = k in swapped_pos
            # remap through a list that received the same exchange: P.index(x)
            kexp = expand(node.targets[0].slice, env, depth=1)
            remapped = False
            if isinstance(kexp, ast.Call) and isinstance(kexp.func, ast.Attribute) and kexp.func.attr == "index" \
                    and isinstance(kexp.func.value, ast.Name) and len(kexp.args) == 1:
                pw = pflow.perm.get(kexp.func.value.id)
                arg = src(kexp.args[0])
                t = permcheck.w_sym("t")
                if pw == t and arg == "axis[1]":
                    remapped = True            # position list: looks up a source position
                if pw == permcheck.w_mul(permcheck.w_sym("layout_source"), t) and arg == "layout_source.dims_order[axis[1]]":
                    remapped = True            # dimension list: looks up the dimension at that source position
            if literal or remapped:
                chk.ob("G3-axis-role-after-swap", node, src(node)[:100], True,
                       "subscript uses a post-swap position" if literal else
                       "pre-swap position is mapped through the exchanged ordering before it subscripts the exchanged list",
                       file=rel, func=q, nontrivial=remapped)
                continue
            kx = xsrc(node.targets[0].slice, env).replace(" ", "")
            if kx not in ("axis[1]", "axis[2]"):
                chk.ob("G3-axis-role-after-swap", node, src(node)[:100], None,
                       f"`{lname}` had positions {sorted(swapped_pos)} exchanged and is then subscripted by `{src(node.targets[0].slice)}`: "
                       "whether this is a pre-swap or a post-swap position was not recognised", file=rel, func=q)
                continue
            # k is a pre-swap (source-axis) position
            if ignores_extent1 is None:
                chk.ob("G3-axis-role-after-swap", node, src(node)[:100], None,
                       f"`{lname}` had positions {sorted(swapped_pos)} exchanged, then is subscripted by the pre-swap position `{k}`: whether "
                       "compatible() lets this position coincide with an exchanged one (process-grid directions of extent 1) was not recognised",
                       file=rel, func=q)
                continue
            guarded = not ignores_extent1
            chk.ob("G3-axis-role-after-swap", node, src(node)[:100], guarded,
                   f"`{lname}` had positions {sorted(swapped_pos)} exchanged, then is subscripted by the pre-swap "
                   f"position `{k}`; " + ("compatible() counts every process-grid direction, so `" + k +
                                          "` can coincide with neither exchanged position" if guarded else
                                          "compatible()/_get_swap_axes ignore process-grid directions of extent 1, so `" + k +
                                          "` == 0 != axis[0] is reachable (grid (1,n), e.g. poloidal->flux_surface): "
                                          "the wrong axis of the block is restricted"), file=rel, func=q)
    if count < 2:
        chk.ob("G3-axis-role-after-swap", mod.func("LayoutHandler._extract_from_source"), "subscripts of the exchanged lists", None,
               f"only {count} subscript(s) of a list whose positions 0 and axis[0] were exchanged found in the packer/unpacker "
               "(2 expected): the reordering idiom changed, the rule cannot decide", file=rel, func="LayoutHandler._extract_from_source")
    axis_index_space(chk, mod, fp, fu)


def axis_index_space(chk, mod, fp, fu):
    """G3-axis-index-space: axis[0] is a process axis (the same position in both layouts), axis[1] is a position in the SOURCE
    ordering, axis[2] a position in the DESTINATION ordering: each may only subscript a table of a layout it is a position of"""
    import re
    rel = mod.rel
    allowed = {"0": {"layout_source", "layout_dest"}, "1": {"layout_source"}, "2": {"layout_dest"}}
    n_sites = 0
    for q, flow in (("LayoutHandler._extract_from_source", fp), ("LayoutHandler._rearrange_from_buffer", fu)):
        fn = mod.func(q)
        # lists derived from a layout's shape (flow-insensitive: a name is only counted when all its definitions agree)
        owner = {}
        for n in ast.walk(fn):
            if isinstance(n, ast.Assign) and len(n.targets) == 1 and isinstance(n.targets[0], ast.Name):
                m = re.search(r"\b(layout_source|layout_dest)\.(?:shape|dims_order)\b", src(n.value))
                via = [x.id for x in ast.walk(n.value) if isinstance(x, ast.Name) and x.id in owner]
                o = m.group(1) if m else (owner[via[0]] if len(via) == 1 and isinstance(n.value, (ast.ListComp, ast.Call)) else None)
                nm = n.targets[0].id
                if isinstance(n.value, (ast.ListComp, ast.Call)) and (isinstance(n.value, ast.ListComp) or src(n.value.func) in ("list", "tuple")):
                    owner[nm] = o if nm not in owner or owner[nm] == o else None
        for n in ast.walk(fn):
            k = cont = None
            if isinstance(n, ast.Subscript) and re.fullmatch(r"axis\[[012]\]", src(n.slice).replace(" ", "")):
                k = src(n.slice).replace(" ", "")[5]
                c = n.value
                if isinstance(c, ast.Attribute) and isinstance(c.value, ast.Name) and c.value.id in ("layout_source", "layout_dest") \
                        and c.attr in ("shape", "max_block_shape", "dims_order", "starts", "ends", "nprocs", "fullShape"):
                    cont = c.value.id
                elif isinstance(c, ast.Name) and owner.get(c.id):
                    cont = owner[c.id]
            elif isinstance(n, ast.Call) and isinstance(n.func, ast.Attribute) and n.func.attr in ("mpi_starts", "mpi_lengths") \
                    and len(n.args) == 1 and re.fullmatch(r"axis\[[012]\]", src(n.args[0]).replace(" ", "")) \
                    and isinstance(n.func.value, ast.Name) and n.func.value.id in ("layout_source", "layout_dest"):
                k = src(n.args[0]).replace(" ", "")[5]
                cont = n.func.value.id
            if k is None or cont is None:
                continue
            n_sites += 1
            ok = cont in allowed[k]
            st = n
            while not isinstance(st, ast.stmt):
                st = parent(st)
            role = {"1": "a position in the SOURCE ordering (where the dimension that becomes distributed sits)",
                    "2": "a position in the DESTINATION ordering (where the dimension that was distributed sits)"}.get(k, "")
            sl_ = n.slice if isinstance(n, ast.Subscript) else n.args[0]
            ko = str(getattr(sl_.slice if isinstance(sl_, ast.Subscript) else sl_, "_axis_orig", k))
            chk.ob("G3-axis-index-space", n, orig_src(n)[:80], ok,
                   f"axis[{ko}] subscripts a table of {cont}" if ok else
                   f"`{orig_src(n)[:60]}` (in `{orig_src(st)[:70]}`) subscripts a table of {cont} by axis[{ko}], which _get_swap_axes fills with "
                   f"{role}: the two coincide only when "
                   "the layouts differ by a plain exchange of two axes, otherwise another axis of the block is cut / tested",
                   file=rel, func=q, nontrivial=(k != "0"))
    if n_sites < 6:
        chk.ob("G3-axis-index-space", mod.func("LayoutHandler._extract_from_source"), "tables subscripted by axis[k]", None,
               f"only {n_sites} table subscripts by axis[k] found in the packer/unpacker: the idiom changed", file=rel,
               func="LayoutHandler._extract_from_source")


def run(chk):
    chk.explanation = (
        "Field-location flow over LayoutHandler.transpose and everything it calls (abstract interpretation over "
        "buffer names: which root buffer each view aliases, which buffer holds the field, which layout the data is "
        "in), for buf in {None, given} x route lengths 1..7 (abstract result shown 2-periodic in the length) x all "
        "unresolved branch outcomes; plus symbolic shape-list agreement between buffer sizing, packer and "
        "unpacker, communicator/axis agreement, axis-role discipline after the 0<->axis[0] swap, and "
        "permutation-word typing of every np.transpose. Decides the structural necessary conditions of C01, not "
        "element-level index arithmetic beyond the permutation typing.")
    chk.assumptions += [
        "source, dest, buf are distinct non-overlapping arrays of at least bufferSize elements",
        "numpy view/copy contracts of DESIGN.md section 3 (np.split/basic slicing/reshape/transpose are views)",
        "Alltoall(s, r) reads s and writes r",
        "the route map lists the intermediate layouts ending with the destination (route construction is C06-B4's subject)",
        "not the plot-only rank (self._buffer_size != 0)",
    ]
    mod = chk.mod(U.LAYOUT)
    chk.in_file(U.LAYOUT)
    prog = Program(chk.repo, [U.LAYOUT])
    safe_flow_check(chk, prog, U.LAYOUT, CLS)
    handler_contract(chk, mod)
    chk.floor("D2-result-in-dest", 14)
    chk.floor("D1-source-intact", 7)


def engine(chk, rule, node, what, fn_, *a, file=None, func=None, **k):
    """run an engine-backed rule; when the engine cannot EXTRACT what it needs (AnalysisError, or a construct it does not expect)
    the rule is undecided and the remaining rules still run (so that a violation found elsewhere is still reported)"""
    try:
        return fn_(*a, **k)
    except AnalysisError as e:
        chk.ob(rule, node, what, None, f"cannot decide: {e}", file=file, func=func)
        return None
    except (IndexError, KeyError, AttributeError, TypeError, ValueError) as e:
        chk.ob(rule, node, what, None, f"cannot decide: the engine met a construct it does not read ({type(e).__name__}: {e})", file=file, func=func)
        return None


class ThreeValued:
    """the obligations of the listed idiom rules of an engine arrive two-valued (recognised / not recognised): `not recognised` is
    undecided here, not a violation (the decisive rules of the engine pass through unchanged)"""

    def __init__(self, chk, rules):
        self._chk, self._rules = chk, set(rules)

    def ob(self, rule, node, construct, ok, msg="", **kw):
        if rule in self._rules and ok is False:
            ok, msg = None, "idiom not recognised: " + msg
        return self._chk.ob(rule, node, construct, ok, msg, **kw)

    def __getattr__(self, name):
        return getattr(self._chk, name)


def _own_calls(fn, callee_name):
    return [c for c in ast.walk(fn) if isinstance(c, ast.Call) and isinstance(c.func, ast.Attribute) and c.func.attr == callee_name
            and isinstance(c.func.value, ast.Name) and c.func.value.id in ("self", "cls", CLS)]


def _set_arg(call, fndef, param, new):
    """replace the argument bound to `param` in a call of fndef"""
    params = [a.arg for a in fndef.args.args]
    static = any(isinstance(d, ast.Name) and d.id == "staticmethod" for d in fndef.decorator_list)
    if params and params[0] in ("self", "cls") and not static:
        params = params[1:]
    for k in call.keywords:
        if k.arg == param:
            k.value = new
            return True
    if param in params and params.index(param) < len(call.args):
        call.args[params.index(param)] = new
        return True
    return False


def hoist_view_prologue(views, callee_q, caller_qs):
    """responsibility moved from the callers into the callee: `v = <view of the array parameter p, built from parameters only>` as a
    prologue statement of the callee, p used nowhere else.  Equivalent: every caller passes that view and the callee's parameter is the
    view.  The views are rewritten that way (the rules speak about what the callee is handed)."""
    callee = views.get(callee_q)
    if callee is None:
        return 0
    params = [a.arg for a in callee.args.args]
    n_done = 0
    for st in list(callee.body):
        if isinstance(st, ast.Expr) and isinstance(st.value, ast.Constant):
            continue
        if not (isinstance(st, ast.Assign) and len(st.targets) == 1 and isinstance(st.targets[0], ast.Name)):
            break
        v = st.targets[0].id
        names = {x.id for x in ast.walk(st.value) if isinstance(x, ast.Name)}
        arrs = [x for x in names if x in ARRAY_NAMES and x in params]
        if len(arrs) != 1 or not names <= set(params) | {"np", "numpy"} or v in params:
            break
        p_ = arrs[0]
        if not any(isinstance(c, ast.Call) and isinstance(c.func, ast.Attribute) and c.func.attr == "reshape" for c in ast.walk(st.value)):
            break
        uses_p = sum(1 for x in ast.walk(callee) if isinstance(x, ast.Name) and x.id == p_)
        stores_v = sum(1 for x in ast.walk(callee) if isinstance(x, ast.Name) and x.id == v and isinstance(x.ctx, ast.Store))
        if uses_p != 1 or stores_v != 1:
            break
        sites = [(views[q], c) for q in caller_qs if q in views for c in _own_calls(views[q], callee.name)]
        if not sites:
            break
        plans = []
        for fn, c in sites:
            am = call_args(c, callee)
            if am is None or any(x not in am for x in names if x in params):
                plans = None
                break
            plans.append((c, _Subst({x: am[x] for x in names if x in params}).visit(clone(st.value))))
        if plans is None:
            break
        for c, new in plans:
            _set_arg(c, callee, p_, new)
        callee.body.remove(st)
        _RenameAll(v, p_).visit(callee)
        n_done += 1
        break
    if n_done:
        for q in [callee_q] + list(caller_qs):
            if q in views:
                ast.fix_missing_locations(views[q])
                link(views[q])
    return n_done


def bind_invariant_params(views, callee_q, caller_qs):
    """a value the callee used to compute itself is now computed by the callers and passed in (e.g. the size of the communicator):
    when every call site passes the same expression, written with `self` and with names the callee receives under the same name, the
    parameter is that expression - the callee's view gets it as a local definition, so caller and callee are read as one unit"""
    callee = views.get(callee_q)
    if callee is None:
        return 0
    sites = [(views[q], c) for q in caller_qs if q in views for c in _own_calls(views[q], callee.name)]
    if not sites:
        return 0
    n_done = 0
    for a in list(callee.args.args):
        p_ = a.arg
        if p_ in ("self", "cls") or p_ in ARRAY_NAMES or p_ in STEP_PARAMS or p_ in ("axis", "comm"):
            continue          # the arrays, the two layouts, the axis triple and the communicator are what the rules speak about
        texts, expr = set(), None
        for fn, c in sites:
            am = call_args(c, callee)
            if am is None or am.get(p_) is None:
                texts = None
                break
            same_named = {q_ for q_, v_ in am.items() if isinstance(v_, ast.Name) and v_.id == q_}
            ex = expand(am[p_], {k: v for k, v in inline_locals(fn).items() if k not in same_named})
            if isinstance(ex, (ast.Name, ast.Constant)):
                texts = None
                break
            arrays = {x.arg: {x.arg} for x in fn.args.args if x.arg in ARRAY_NAMES or x.arg in ("work", "rcvBuf", "sendBuf")}
            if _read_roots(ex, arrays):
                texts = None
                break
            free = {x.id for x in ast.walk(ex) if isinstance(x, ast.Name)} - {"self", "np", "numpy", "len", "int"}
            if not free <= same_named:
                texts = None
                break
            texts.add(src(ex))
            expr = ex
        if not texts or len(texts) != 1:
            continue
        # the definition replaces the parameter
        pos = [x.arg for x in callee.args.args].index(p_)
        first_def = len(callee.args.args) - len(callee.args.defaults)
        if pos >= first_def:
            del callee.args.defaults[pos - first_def]
        del callee.args.args[pos]
        k = 1 if callee.body and isinstance(callee.body[0], ast.Expr) and isinstance(callee.body[0].value, ast.Constant) else 0
        new = ast.Assign(targets=[ast.Name(id=p_, ctx=ast.Store())], value=expr)
        ast.copy_location(new, callee.body[k] if k < len(callee.body) else callee)
        callee.body.insert(k, new)
        callee._bound_params = getattr(callee, "_bound_params", []) + [p_]
        for fn, c in sites:
            # the call sites no longer pass it
            c.keywords = [kw for kw in c.keywords if kw.arg != p_]
            if pos - (0 if any(isinstance(d, ast.Name) and d.id == "staticmethod" for d in callee.decorator_list) else 1) < len(c.args) and \
                    not any(kw.arg == p_ for kw in c.keywords):
                idx = pos - (0 if any(isinstance(d, ast.Name) and d.id == "staticmethod" for d in callee.decorator_list) else 1)
                if 0 <= idx < len(c.args):
                    del c.args[idx]
        n_done += 1
    if n_done:
        for q in [callee_q] + list(caller_qs):
            if q in views:
                ast.fix_missing_locations(views[q])
                link(views[q])
    return n_done


def exchange_site(mod):
    """where the blocks are exchanged: (function, Alltoall call, 'unpacker' | 'step'); the collective may sit in the unpacker or,
    when the phases are separated, in the single-step routines (read with their helpers written in place).  None when there is not
    exactly one such call per routine"""
    QU = f"{CLS}._rearrange_from_buffer"
    if mod.has(QU):
        fn = mod.func(QU)
        cs = [c for c in ast.walk(fn) if isinstance(c, ast.Call) and isinstance(c.func, ast.Attribute) and c.func.attr in ("Alltoall", "Alltoallv", "alltoall")]
        if len(cs) == 1:
            return [(fn, cs[0], "unpacker")]
        if cs:
            return None
    out = []
    for nm in ("_transpose", "_transpose_source_intact"):
        q = f"{CLS}.{nm}"
        if not mod.has(q):
            return None
        fn = mod.func(q)
        cs = [c for c in ast.walk(fn) if isinstance(c, ast.Call) and isinstance(c.func, ast.Attribute) and c.func.attr in ("Alltoall", "Alltoallv", "alltoall")]
        if len(cs) != 1:
            return None
        out.append((fn, cs[0], "step"))
    return out


def handler_view(chk, mod):
    """the LayoutHandler routines as the shape-reading rules see them (unit_view of each, one per run)"""
    cache = chk.__dict__.setdefault("_c01_hviews", {})
    if mod.rel not in cache:
        mod = canonical_steps(mod, CLS)
        views = {}
        want = has_call("_extract_from_source")
        for nm in ("_transpose", "_transpose_source_intact"):
            q = f"{CLS}.{nm}"
            if mod.has(q):
                views[q] = unit_view(mod, CLS, q, want=want)
        for nm in ("_extract_from_source", "_rearrange_from_buffer", "__init__", "_get_swap_axes"):
            q = f"{CLS}.{nm}"
            if mod.has(q):
                views[q] = unit_view(mod, CLS, q)
        # a consistent renumbering of the axis triple is a convention: the consumers are read in the reference numbering
        conv = axis_convention(mod.func(f"{CLS}._get_swap_axes")) if mod.has(f"{CLS}._get_swap_axes") else None
        prod = swap_axes_producer(mod.func(f"{CLS}._get_swap_axes")) if conv is not None else None
        if conv is not None and (conv != [0, 1, 2] or prod["empty"] == "none"):
            to_canon = {p_: k for k, p_ in enumerate(conv)}
            if all(isinstance(p_, int) for p_ in conv) and prod["empty"] != "none":
                for q, v in views.items():
                    if not q.endswith("._get_swap_axes"):
                        _AxisRenumber(to_canon).visit(v)
                        ast.fix_missing_locations(v)
            else:
                # another container (record fields, dict keys) and/or None for `no distributed direction changes`: the consumers are
                # read with the variables that hold the triple written `axis` and its items `axis[k]`
                holders = swap_axes_variables(mod, CLS)
                for q, v in views.items():
                    nm = q.split(".")[-1]
                    if nm == "_get_swap_axes":
                        continue
                    orig = getattr(v, "_merged_from", q).split(".")[-1]
                    names = holders.get(nm) or holders.get(orig) or set()
                    if not names:
                        continue
                    bound = {x.id for x in ast.walk(v) if isinstance(x, ast.Name)} | {a.arg for a in v.args.args}
                    if "axis" in bound and "axis" not in names:
                        continue          # `axis` already means something else here: left as it is (the rules will not decide)
                    _RecordToAxis(names, to_canon, prod["empty"] == "none").visit(v)
                    ast.fix_missing_locations(v)
                    link(v)
        # work moved between the single-step routines and the kernels they call: read caller and callee as one unit
        steps = [f"{CLS}._transpose", f"{CLS}._transpose_source_intact"]
        hoist_view_prologue(views, f"{CLS}._extract_from_source", steps)
        for q in (f"{CLS}._extract_from_source", f"{CLS}._rearrange_from_buffer"):
            bind_invariant_params(views, q, steps)
        cache[mod.rel] = ModView(mod, views)
    return cache[mod.rel]


ARRAYS = ARRAY_NAMES


def distinct_buffers(chk, mod, cls=CLS):
    """D1-distinct-buffers: which array parameters of each routine must not overlap is derived from what the routine does with
    them (Effects): a pair must differ when one is filled piece by piece from the other, when they are the send and receive buffer
    of one collective, or when one is written before the other is read.  Passing one array for two parameters is a violation only
    for such a pair (`buf=source` is the documented data flow of the transpose without a spare buffer: the source is dead once it
    has been packed).  The call sites are checked here when the same parameter is passed twice; bindings that arise along a path
    (a parameter rebound to another one, buffers exchanged in a loop) are checked by the field-location flow with the same pairs."""
    rel = mod.rel
    effs = class_effects(mod, cls)
    n = 0
    for name, e in effs.items():
        if len(e.params) < 2:
            continue
        n += 1
        bad = e.static_alias
        pairs = ", ".join("{" + ", ".join(sorted(p_)) + "}" for p_ in sorted(e.pairs, key=lambda x: sorted(x)) if e.hard.get(p_, True)) or "none"
        chk.ob("D1-distinct-buffers", bad[0][0] if bad else e.fn, f"{cls}.{name}: arrays that must not overlap are distinct at every call", not bad,
               f"parameters that must not overlap: {pairs}; no call passes one array for both members of such a pair" if not bad else
               "; ".join(dict.fromkeys(b for _, b in bad)), file=rel, func=f"{cls}.{name}")
    if n < 3:
        chk.ob("D1-distinct-buffers", mod.cls(cls), f"routines of {cls} with several array parameters", None,
               f"only {n} routines with two or more of the array parameters {ARRAYS} found", file=rel, func=cls)


_ALLOC = {"empty", "zeros", "ones", "full", "ndarray"}
_ALLOC_LIKE = {"empty_like", "zeros_like", "ones_like", "full_like"}


def payload_dtype(chk, mod, cls=CLS):
    """D6-payload-dtype: the transposes move fields of any element type (float, complex, int).  A temporary array that carries
    field data between two of the caller's arrays must have the type of the data: `np.empty(shape)` is float64 whatever the field
    is, so a complex field loses its imaginary part on the way (numpy only warns)."""
    rel = mod.rel
    rule = "D6-payload-dtype"
    n_meth = 0
    for name, fn in class_methods(mod, cls).items():
        params = [a.arg for a in fn.args.args if a.arg in ARRAY_NAMES]
        if not params:
            continue
        n_meth += 1
        # which parameters each local is a view of / was filled from (flow-insensitive, to a fixed point)
        roots = {p_: {p_} for p_ in params}
        temps = {}        # local name -> (allocation call, verdict, text)
        for n in ast.walk(fn):
            if isinstance(n, ast.Assign) and len(n.targets) == 1 and isinstance(n.targets[0], ast.Name) and isinstance(n.value, ast.Call) \
                    and isinstance(n.value.func, ast.Attribute) and isinstance(n.value.func.value, ast.Name) and n.value.func.value.id in ("np", "numpy") \
                    and n.value.func.attr in _ALLOC | _ALLOC_LIKE:
                temps[n.targets[0].id] = n.value
        for _ in range(5):
            changed = False
            for n in ast.walk(fn):
                if isinstance(n, ast.Assign):
                    for t in n.targets:
                        if isinstance(t, ast.Name) and t.id not in temps:
                            r = _view_roots(n.value, roots)
                            if r - roots.get(t.id, set()):
                                roots.setdefault(t.id, set()).update(r)
                                changed = True
                elif isinstance(n, (ast.For, ast.comprehension)):
                    r = _view_roots(n.iter, roots)
                    for x in ast.walk(n.target):
                        if isinstance(x, ast.Name) and r - roots.get(x.id, set()):
                            roots.setdefault(x.id, set()).update(r)
                            changed = True
            if not changed:
                break
        filled, drained = {}, {}
        for n in ast.walk(fn):
            if isinstance(n, (ast.Assign, ast.AugAssign)):
                tg = n.targets if isinstance(n, ast.Assign) else [n.target]
                for t in tg:
                    if not isinstance(t, ast.Subscript):
                        continue
                    b = t.value
                    while isinstance(b, (ast.Subscript, ast.Attribute)):
                        b = b.value
                    if isinstance(b, ast.Name) and b.id in temps and _read_roots(n.value, roots):
                        filled.setdefault(b.id, n)
                    if _view_roots(t.value, roots):
                        for x in ast.walk(n.value):
                            if isinstance(x, ast.Name) and x.id in temps:
                                drained.setdefault(x.id, n)
            elif isinstance(n, ast.Call) and isinstance(n.func, ast.Attribute) and n.func.attr in _COLLECTIVES:
                for a in n.args[:2]:
                    for x in ast.walk(a):
                        if isinstance(x, ast.Name) and x.id in temps:
                            drained.setdefault(x.id, n)
                            filled.setdefault(x.id, n)
        for t, call in temps.items():
            if t not in filled or t not in drained:
                continue
            # ASSUMPTION: the name denotes this one allocation wherever it is filled and drained (it is bound exactly once)
            n_bind = sum(1 for x in ast.walk(fn) if isinstance(x, ast.Name) and x.id == t and isinstance(x.ctx, (ast.Store, ast.Del)))
            if n_bind != 1:
                chk.ob(rule, call, f"{cls}.{name}: {t} = {src(call)[:60]}", None,
                       f"`{t}` is bound {n_bind} times in {cls}.{name}: which array carries the field data was not followed", file=rel, func=f"{cls}.{name}")
                continue
            like = call.func.attr in _ALLOC_LIKE
            dt = [k.value for k in call.keywords if k.arg == "dtype"]
            if not dt and not like and len(call.args) >= 2 and call.func.attr != "full":
                dt = [call.args[1]]
            if not dt and call.func.attr == "full" and len(call.args) >= 3:
                dt = [call.args[2]]
            ok, why = None, ""
            if not dt and like and call.args and _view_roots(call.args[0], roots):
                ok, why = True, f"`{src(call)[:60]}` takes the type of the data it is modelled on"
            elif dt and isinstance(dt[0], ast.Attribute) and dt[0].attr == "dtype" and _view_roots(dt[0].value, roots):
                ok, why = True, f"`{src(call)[:60]}` is allocated with the type of the caller's array"
            elif not dt and not like:
                ok = False
                why = (f"`{t} = {src(call)[:50]}` is a float64 array whatever the type of the field; it is filled from the caller's data "
                       f"(`{src(filled[t])[:60]}`) and copied on (`{src(drained[t])[:60]}`): a complex field loses its imaginary part on the way "
                       "(numpy only issues a ComplexWarning), float/int fields are unaffected")
            elif dt and src(dt[0]) in ("float", "np.float64", "np.double", "'d'", "'float64'", "np.float32", "'f'", "int", "np.int64"):
                ok = False
                why = (f"`{t} = {src(call)[:60]}` has the fixed type `{src(dt[0])}`; it carries the caller's data "
                       f"(`{src(filled[t])[:50]}` ... `{src(drained[t])[:50]}`): fields of another element type (complex) are truncated")
            else:
                why = f"the element type of the temporary `{t} = {src(call)[:60]}`, which carries field data, was not recognised"
            chk.ob(rule, call, f"{cls}.{name}: {t} = {src(call)[:60]}", ok, why, file=rel, func=f"{cls}.{name}")
    # a workspace KEPT by the object between calls: allocated once (under `if self.X is None`) with the element type of the array of
    # that first call.  The handler serves fields of different element types (real distribution function, complex potential): a later
    # call with another type exchanges its data through an array of the first type.
    # ASSUMPTIONS: the allocation takes its dtype from an array parameter of the routine (`p.dtype` / `*_like(p)`), it is executed only
    # while the attribute is None (lazy initialisation), and nothing in the class compares the kept array's dtype with the caller's
    from ..core import guards_of
    for name, fn in class_methods(mod, cls).items():
        params = {a.arg for a in fn.args.args} - {"self", "cls"}
        for n in ast.walk(fn):
            if not (isinstance(n, ast.Assign) and len(n.targets) == 1 and isinstance(n.targets[0], ast.Attribute) and isinstance(n.targets[0].value, ast.Name)
                    and n.targets[0].value.id == "self" and isinstance(n.value, ast.Call) and isinstance(n.value.func, ast.Attribute)
                    and isinstance(n.value.func.value, ast.Name) and n.value.func.value.id in ("np", "numpy") and n.value.func.attr in _ALLOC | _ALLOC_LIKE):
                continue
            call, attr = n.value, n.targets[0].attr
            dts = [k.value for k in call.keywords if k.arg == "dtype"] or ([call.args[0]] if call.func.attr in _ALLOC_LIKE and call.args else [])
            from_param = [d for d in dts if any(isinstance(x, ast.Name) and x.id in params for x in ast.walk(d))]
            if not from_param:
                continue
            lazy = any(kind == "if" and pol and f"self.{attr}" in src(t) and ("is None" in src(t) or "hasattr" in src(t)) for t, pol, kind in guards_of(n)) or \
                any(kind == "if" and not pol and f"self.{attr}" in src(t) and "is not None" in src(t) for t, pol, kind in guards_of(n))
            compares = any(isinstance(x, ast.Compare) and f"self.{attr}.dtype" in src(x).replace(" ", "") for x in ast.walk(mod.cls(cls)))
            if lazy and not compares:
                chk.ob(rule, n, f"{cls}.{name}: {src(n)[:70]}", False,
                       f"`{src(n)[:80]}` is executed once (while `self.{attr}` is None) and the array is kept for the lifetime of the {cls}: it has the "
                       f"element type of the array of THAT call (`{src(from_param[0])}`). A later call with a field of another element type (a complex "
                       "field after a real one) moves its data through the kept array: the imaginary part is dropped (numpy only warns) or the "
                       "exchange is done with mismatched types", file=rel, func=f"{cls}.{name}")
            elif lazy:
                chk.ob(rule, n, f"{cls}.{name}: {src(n)[:70]}", None,
                       f"`self.{attr}` is a kept workspace typed by the first caller; the class compares its dtype somewhere: whether every use is covered was not followed",
                       file=rel, func=f"{cls}.{name}")
    chk.ob(rule, mod.cls(cls), f"temporaries of {cls} that carry field data", True if n_meth else None,
           f"{n_meth} routines with array parameters read: every temporary array that carries field data is listed above (none: the data "
           "only moves between the caller's arrays, whose type is the caller's)" if n_meth else "no routine with array parameters found",
           file=rel, func=cls, nontrivial=False)


def workspace_sizes(chk, mod, cls=CLS):
    """G1-workspace-size: every array that takes part in an exchange holds at least bufferSize elements (the size __init__ computes from
    the padded blocks and transpose() asserts for the caller's arrays).  An array the class allocates ITSELF and hands to one of its
    routines as an array argument (or to a collective) must be allocated with that size: the allocation is followed through locals,
    `return` and the call sites of the allocating helper."""
    import re
    rel = mod.rel
    rule = "G1-workspace-size"
    meths = class_methods(mod, cls)

    def allocs(fn):
        out = {}
        for n in ast.walk(fn):
            if isinstance(n, ast.Assign) and len(n.targets) == 1 and isinstance(n.targets[0], ast.Name) and isinstance(n.value, ast.Call) \
                    and isinstance(n.value.func, ast.Attribute) and isinstance(n.value.func.value, ast.Name) and n.value.func.value.id in ("np", "numpy") \
                    and n.value.func.attr in _ALLOC and n.value.args:
                out[n.targets[0].id] = (n.value, fn)
        return out
    returns = {}          # method name -> (allocation call, allocating method)
    for nm, fn in meths.items():
        al = allocs(fn)
        for r in ast.walk(fn):
            if isinstance(r, ast.Return) and isinstance(r.value, ast.Name) and r.value.id in al:
                returns[nm] = al[r.value.id]
            elif isinstance(r, ast.Return) and isinstance(r.value, ast.Call) and isinstance(r.value.func, ast.Attribute) \
                    and src(r.value.func.value) in ("np", "numpy") and r.value.func.attr in _ALLOC and r.value.args:
                returns[nm] = (r.value, fn)
    for nm, fn in meths.items():
        tainted = dict(allocs(fn))
        for n in ast.walk(fn):
            if isinstance(n, ast.Assign) and len(n.targets) == 1 and isinstance(n.targets[0], ast.Name) and isinstance(n.value, ast.Call):
                g = _own_class_call(n.value, cls, meths)
                if g in returns:
                    tainted[n.targets[0].id] = returns[g]
        for _ in range(4):
            for n in ast.walk(fn):
                if isinstance(n, ast.Assign) and len(n.targets) == 1 and isinstance(n.targets[0], ast.Name) and isinstance(n.value, ast.Name) \
                        and n.value.id in tainted and n.targets[0].id not in tainted:
                    tainted[n.targets[0].id] = tainted[n.value.id]
        if not tainted:
            continue
        for c in ast.walk(fn):
            if not isinstance(c, ast.Call):
                continue
            used = []
            g = _own_class_call(c, cls, meths)
            if g is not None:
                am = call_args(c, meths[g]) or {}
                used = [(p_, v) for p_, v in am.items() if p_ in ARRAY_NAMES and isinstance(v, ast.Name) and v.id in tainted]
                # ASSUMPTION of the size requirement: the callee takes part in an exchange (it reaches a collective, directly or through
                # the routines it calls, or it is the public transpose); a helper that only copies has no such requirement
                if used and not _reaches_collective(mod, cls, g):
                    used = []
            elif isinstance(c.func, ast.Attribute) and c.func.attr in _COLLECTIVES:
                used = [("buffer of " + c.func.attr, a) for a in c.args[:2] for x in ast.walk(a) if isinstance(x, ast.Name) and x.id in tainted
                        for a in [x]]
            for p_, v in used:
                call, afn = tainted[v.id]
                env = inline_locals(afn)
                size = xsrc(call.args[0], env)
                t = size.replace(" ", "")
                ok, bad = None, None
                layout_size = re.search(r"\b(layout_source|layout_dest|l1|l2)\.(size|shape)\b|self\._layouts\[[^\]]+\]\.(size|shape)\b|"
                                        r"(\w+)\.(size|shape)for\4inself\._layouts\.values\(\)|getLayout\([^)]*\)\.(size|shape)\b", t)
                if re.fullmatch(r"self\._buffer_size|self\.bufferSize", t) or re.fullmatch(r"max\(.*self\.(_buffer_size|bufferSize).*\)", t) \
                        or re.fullmatch(r"(source|dest|buf)\.size|len\((source|dest|buf)\)", t):
                    ok = True          # the advertised size, or the size of one of the caller's arrays (asserted to be at least that)
                elif "_buffer_size" not in t and "bufferSize" not in t and "Get_size" not in t and "max_block" not in t and layout_size:
                    # ASSUMPTIONS (checked): the allocation size, with the locals of the allocating routine written out, names a local layout size and
                    # neither bufferSize nor a communicator size nor max_block*; the array is handed to a routine that reaches a collective
                    bad = (f"`{v.id}` is allocated in {cls}.{afn.name} with `{size[:90]}` elements - the size of a LOCAL block - and passed as `{p_}` "
                           f"in `{src(c)[:70]}`: one exchange step moves (padded source block x padded destination block) x communicator size "
                           "elements, which is what bufferSize is computed from and what transpose() asserts for the caller's arrays; as soon as "
                           "an extent is not a multiple of the number of processes this exceeds every local layout size, the receive view is "
                           "shorter than the send view and the Alltoall / the reshape of the received data fails")
                o = chk.pat(rule, c, f"{cls}.{nm}: {v.id} = {src(call)[:50]} used as `{p_}`", ok,
                            "the array the handler allocates for the exchange has the advertised buffer size", bad, file=rel, func=f"{cls}.{nm}")
                if not ok and not bad:
                    o.msg = f"the size `{size[:80]}` of the array allocated for the exchange could not be compared with bufferSize"


def _reaches_collective(mod, cls, name, _seen=None):
    effs = class_effects(mod, cls)
    meths = class_methods(mod, cls)
    _seen = _seen if _seen is not None else set()
    if name in _seen or name not in effs:
        return name == "transpose"
    _seen.add(name)
    if name == "transpose":
        return True
    for r_, w_, l_, node, kind, arms in effs[name].events:
        if kind == "collective":
            return True
    for c in ast.walk(meths[name]):
        if isinstance(c, ast.Call):
            if isinstance(c.func, ast.Attribute) and c.func.attr in _COLLECTIVES:
                return True
            g = _own_class_call(c, cls, meths)
            if g is not None and _reaches_collective(mod, cls, g, _seen):
                return True
    return False


def route_readers(mod, cls):
    """the routines that walk the cached route map, found by ROLE: the public transpose of the class plus every method of the class or
    of its base classes in this module that reads `self._route_map` without being one of its builders (a builder binds the attribute
    itself or is the connection-map construction); the reference names are listed even when they carry no such read"""
    out, seen = [], set()
    todo = [cls]
    while todo:
        c = todo.pop(0)
        if c in seen or not mod.has(c):
            continue
        seen.add(c)
        cdef = mod.cls(c)
        todo += [src(b).split(".")[-1] for b in cdef.bases]
        for m in cdef.body:
            if not isinstance(m, ast.FunctionDef):
                continue
            q = f"{c}.{m.name}"
            reads = any(isinstance(x, ast.Attribute) and src(x) == "self._route_map" and isinstance(x.ctx, ast.Load) for x in ast.walk(m))
            builds = any(isinstance(x, ast.Attribute) and src(x) == "self._route_map" and isinstance(x.ctx, ast.Store) for x in ast.walk(m)) \
                or m.name in ("__init__", "_makeConnectionMap")
            named = c == cls and m.name in ("transpose", "_transposeRedirect", "_transposeRedirect_source_intact")
            if (reads and not builds) or named:
                if q not in out:
                    out.append(q)
    return out


# ------------------------------------------------------------------ memoised results: the key covers what the result is computed from
def _access_footprint(nodes, params, aliases=None, skip=()):
    """how the expressions/statements `nodes` read the parameters `params`: {(param, attr): {("whole", text) | ("part", slice text)}}
    plus `loose`: parameters used as whole objects (handed on, compared, ...) whose reads are not followed.  A local bound once to
    `p.attr` stands for it."""
    par = {}
    for top in nodes:
        for n in ast.walk(top):
            for ch in ast.iter_child_nodes(n):
                par[id(ch)] = n
    aliases = dict(aliases or {})
    foot, loose = {}, {}
    for top in nodes:
        for n in ast.walk(top):
            if not (isinstance(n, ast.Name) and isinstance(n.ctx, ast.Load)) or id(n) in skip:
                continue
            if n.id in params:
                up = par.get(id(n))
                if not (isinstance(up, ast.Attribute) and up.value is n):
                    loose.setdefault(n.id, n)
                    continue
                key, node = (n.id, up.attr), up
            elif n.id in aliases:
                key, node = aliases[n.id], n
            else:
                continue
            up = par.get(id(node))
            if isinstance(up, ast.Subscript) and up.value is node:
                foot.setdefault(key, set()).add(("part", src(up.slice)))
            elif isinstance(up, ast.Attribute) and up.value is node:
                up2 = par.get(id(up))
                how = f".{up.attr}()" if isinstance(up2, ast.Call) and up2.func is up else f".{up.attr}"
                foot.setdefault(key, set()).add(("whole", how))
            else:
                foot.setdefault(key, set()).add(("whole", "as a whole"))
    return foot, loose


def _param_aliases(fn, params):
    """locals of fn bound exactly once, to `p.attr` of a parameter p"""
    stores = {}
    for n in ast.walk(fn):
        if isinstance(n, ast.Name) and isinstance(n.ctx, ast.Store):
            stores[n.id] = stores.get(n.id, 0) + 1
    out = {}
    for n in ast.walk(fn):
        if isinstance(n, ast.Assign) and len(n.targets) == 1 and isinstance(n.targets[0], ast.Name) and stores.get(n.targets[0].id) == 1 \
                and isinstance(n.value, ast.Attribute) and isinstance(n.value.value, ast.Name) and n.value.value.id in params:
            out[n.targets[0].id] = (n.value.value.id, n.value.attr)
    return out


_MUTABLE_CTORS = ("dict", "list", "set", "defaultdict", "OrderedDict", "collections.defaultdict", "collections.OrderedDict")


def _mutable_literal(e):
    """a freshly built mutable container: {} / [] / set() / dict() / a comprehension"""
    return isinstance(e, (ast.Dict, ast.List, ast.Set, ast.DictComp, ast.ListComp, ast.SetComp)) or \
        (isinstance(e, ast.Call) and src(e.func) in _MUTABLE_CTORS)


def _class_chain(mod, cls_name):
    """the class and its base classes defined in this module, nearest first"""
    out, todo = [], [cls_name]
    while todo:
        c = todo.pop(0)
        if c in [x.name for x in out] or not mod.has(c):
            continue
        try:
            cdef = mod.cls(c)
        except Exception:
            continue
        out.append(cdef)
        todo += [src(b).split(".")[-1] for b in cdef.bases]
    return out


def shared_table_scope(mod, cls_name, m, tab):
    """is the table expression `tab` (the subscripted object of a store in method m) ONE object for every instance of the class?
    -> a description of why it is shared, or None.  Shared: a parameter whose default is a mutable container (the default is evaluated
    once, at the def), a module-level name bound to a mutable container, an attribute reached through the class (`cls.X`, `C.X`,
    `type(self).X`, `self.__class__.X`), and `self.X` when X is a class-body container that no method rebinds on the instance."""
    chain = _class_chain(mod, cls_name)
    if isinstance(tab, ast.Name):
        pos = m.args.posonlyargs + m.args.args
        defaults = dict(zip([a.arg for a in pos][len(pos) - len(m.args.defaults):], m.args.defaults))
        defaults.update({a.arg: d for a, d in zip(m.args.kwonlyargs, m.args.kw_defaults) if d is not None})
        if tab.id in defaults:
            if _mutable_literal(defaults[tab.id]):
                return f"`{tab.id}` is the default value `{src(defaults[tab.id])}` of a parameter: it is built once, when the def is executed, " \
                       "and is the same object in every call on every instance"
            return None
        if any(isinstance(n, ast.Name) and n.id == tab.id and isinstance(n.ctx, ast.Store) for n in ast.walk(m)):
            return None
        tree = getattr(mod, "tree", None)
        for st_ in getattr(tree, "body", ()):
            tg = st_.targets if isinstance(st_, ast.Assign) else [st_.target] if isinstance(st_, ast.AnnAssign) and st_.value is not None else []
            if any(isinstance(t, ast.Name) and t.id == tab.id for t in tg) and _mutable_literal(st_.value):
                return f"`{tab.id}` is a module-level container: one object for the whole process"
        return None
    if isinstance(tab, ast.Attribute):
        recv = src(tab.value)
        body_def = any(isinstance(st_, (ast.Assign, ast.AnnAssign)) and getattr(st_, "value", None) is not None and _mutable_literal(st_.value)
                       and any(isinstance(t, ast.Name) and t.id == tab.attr
                               for t in (st_.targets if isinstance(st_, ast.Assign) else [st_.target]))
                       for c in chain for st_ in c.body)
        if recv in ("cls", "type(self)", "self.__class__") or recv in [c.name for c in chain]:
            return f"`{src(tab)}` is an attribute of the class: one object for every instance"
        if recv == "self" and body_def:
            rebound = any(isinstance(n, ast.Attribute) and isinstance(n.ctx, ast.Store) and src(n) == src(tab)
                          for c in chain for n in ast.walk(c))
            if not rebound:
                return f"`{src(tab)}` is a container built in the class body and never rebound on the instance: one object for every instance"
    return None


def instance_dependent_attrs(mod, cls_name):
    """attributes `self.X` whose value is derived from the arguments of a method of the class (the constructor's in particular): they
    differ from one instance to the next.  A may-analysis by propagation over the assignments of each method: a local is derived from an
    argument when its right-hand side (or the iterable of an enclosing loop) mentions an argument or a derived local / attribute."""
    chain = _class_chain(mod, cls_name)
    fns = [f for c in chain for f in c.body if isinstance(f, ast.FunctionDef)]
    attrs = set()
    for _ in range(6):
        before = len(attrs)
        for f in fns:
            names = {a.arg for a in f.args.posonlyargs + f.args.args + f.args.kwonlyargs if a.arg not in ("self", "cls")}
            if f.args.vararg:
                names.add(f.args.vararg.arg)
            if f.args.kwarg:
                names.add(f.args.kwarg.arg)

            def dep(e):
                for n in ast.walk(e):
                    if isinstance(n, ast.Name) and n.id in names:
                        return True
                    if isinstance(n, ast.Attribute) and isinstance(n.value, ast.Name) and n.value.id == "self" and n.attr in attrs:
                        return True
                return False

            def mark(t):
                for n in ast.walk(t):
                    if isinstance(n, ast.Name) and isinstance(n.ctx, ast.Store):
                        names.add(n.id)
                base = t
                while isinstance(base, (ast.Subscript, ast.Starred)):
                    base = base.value
                if isinstance(base, ast.Attribute) and isinstance(base.value, ast.Name) and base.value.id == "self":
                    attrs.add(base.attr)
                if isinstance(t, (ast.Tuple, ast.List)):
                    for e in t.elts:
                        mark(e)

            for _i in range(4):
                n0, a0 = len(names), len(attrs)
                for n in ast.walk(f):
                    if isinstance(n, ast.Assign) and dep(n.value):
                        for t in n.targets:
                            mark(t)
                    elif isinstance(n, (ast.AnnAssign, ast.AugAssign)) and n.value is not None and dep(n.value):
                        mark(n.target)
                    elif isinstance(n, ast.NamedExpr) and dep(n.value):
                        mark(n.target)
                    elif isinstance(n, (ast.For, ast.comprehension)) and dep(n.iter):
                        mark(n.target)
                    elif isinstance(n, ast.Call) and isinstance(n.func, ast.Attribute) and n.func.attr in ("append", "extend", "insert", "update",
                                                                                                          "add", "setdefault") \
                            and any(dep(a) for a in list(n.args) + [k.value for k in n.keywords]):
                        mark(n.func.value)
                if (len(names), len(attrs)) == (n0, a0):
                    break
        if len(attrs) == before:
            break
    return attrs


_MUTATORS = ("update", "pop", "popitem", "clear", "setdefault", "append", "extend", "insert", "remove", "sort", "reverse", "add", "discard",
             "__setitem__", "__delitem__")


def shared_container_aliasing(chk, mod, cls_name, rule, file, consequence=""):
    """state of ONE instance kept in an object that every instance shares: `self.X = T` where T is a module-level container, a
    class-body container or a mutable default argument, bound WITHOUT a copy, and a method of the class changes `self.X` in place
    (item store / delete, augmented item assignment, a mutating method - directly or through a local bound once to `self.X`).
    ASSUMPTIONS (all checked): the right-hand side is the plain name T (no dict(T) / T.copy() / {**T} / list(T) / slicing); T is bound
    to a freshly built mutable container at module level, in the class body, or as a default of that method; the attribute is bound by
    no other statement of the class to something else (else: undecided); the in-place change is made on the object the attribute
    holds.  Holds when such an attribute is only read; nothing is recorded when no attribute aliases a shared container."""
    chain = _class_chain(mod, cls_name)
    if not chain:
        return
    cdef = chain[0]
    tree = getattr(mod, "tree", None)
    modlevel = {}
    for st_ in getattr(tree, "body", ()):
        tg = st_.targets if isinstance(st_, ast.Assign) else [st_.target] if isinstance(st_, ast.AnnAssign) and st_.value is not None else []
        for t in tg:
            if isinstance(t, ast.Name):
                modlevel[t.id] = st_.value if _mutable_literal(st_.value) else None
    classlevel = {}
    for c in chain:
        for st_ in c.body:
            if isinstance(st_, ast.Assign) and _mutable_literal(st_.value):
                for t in st_.targets:
                    if isinstance(t, ast.Name):
                        classlevel.setdefault(t.id, st_.value)
    fns = [f for c in chain for f in c.body if isinstance(f, ast.FunctionDef)]
    binds = {}          # attr -> [(fn, stmt, why shared | None)]
    for f in fns:
        pos = f.args.posonlyargs + f.args.args
        defaults = dict(zip([a.arg for a in pos][len(pos) - len(f.args.defaults):], f.args.defaults))
        defaults.update({a.arg: d for a, d in zip(f.args.kwonlyargs, f.args.kw_defaults) if d is not None})
        local_stores = {n.id for n in ast.walk(f) if isinstance(n, ast.Name) and isinstance(n.ctx, ast.Store)}
        for n in ast.walk(f):
            if not (isinstance(n, ast.Assign) or (isinstance(n, ast.AnnAssign) and n.value is not None)):
                continue
            for t in (n.targets if isinstance(n, ast.Assign) else [n.target]):
                if not (isinstance(t, ast.Attribute) and isinstance(t.value, ast.Name) and t.value.id == "self"):
                    continue
                v, why = n.value, None
                if isinstance(v, ast.Name) and v.id not in local_stores:
                    if v.id in defaults:
                        if _mutable_literal(defaults[v.id]):
                            why = f"`{v.id}`, whose default `{src(defaults[v.id])}` is built once when the def is executed (callers that omit " \
                                  "the argument all get that one object)"
                    elif v.id in {a.arg for a in pos + f.args.kwonlyargs}:
                        why = None
                    elif modlevel.get(v.id) is not None:
                        why = f"the module-level container `{v.id} = {src(modlevel[v.id])[:50]}`"
                elif isinstance(v, ast.Attribute) and v.attr in classlevel and \
                        src(v.value) in ("cls", "type(self)", "self.__class__", "self") + tuple(c.name for c in chain):
                    rebound = any(isinstance(x, ast.Attribute) and isinstance(x.ctx, ast.Store) and x.attr == v.attr
                                  and isinstance(x.value, ast.Name) and x.value.id == "self" for c in chain for x in ast.walk(c))
                    if not (src(v.value) == "self" and rebound):
                        why = f"the class-body container `{v.attr} = {src(classlevel[v.attr])[:50]}`"
                binds.setdefault(t.attr, []).append((f, n, why))
    for attr, bs in sorted(binds.items()):
        shared_b = [b for b in bs if b[2]]
        if not shared_b:
            continue
        target = f"self.{attr}"
        muts = []
        for f in fns:
            stores = {}
            for n in ast.walk(f):
                if isinstance(n, ast.Name) and isinstance(n.ctx, ast.Store):
                    stores[n.id] = stores.get(n.id, 0) + 1
            al = {target}
            for n in ast.walk(f):
                if isinstance(n, ast.Assign) and len(n.targets) == 1 and isinstance(n.targets[0], ast.Name) and stores.get(n.targets[0].id) == 1 \
                        and src(n.value) == target:
                    al.add(n.targets[0].id)
            for n in ast.walk(f):
                if isinstance(n, ast.Subscript) and isinstance(n.ctx, (ast.Store, ast.Del)) and src(n.value) in al:
                    muts.append((f, n, f"`{src(n)}` is stored/deleted in {f.name}"))
                elif isinstance(n, ast.Call) and isinstance(n.func, ast.Attribute) and n.func.attr in _MUTATORS and src(n.func.value) in al:
                    muts.append((f, n, f"`{src(n)[:60]}` in {f.name}"))
        f0, n0, why0 = shared_b[0]
        what = f"{cls_name}.{f0.name}: `{src(n0)[:70]}`"
        q = f"{cls_name}.{f0.name}"
        if not muts:
            chk.ob(rule, n0, what, True, f"`{target}` is {why0}, shared by every {cls_name}; no method changes it in place", file=file, func=q)
        elif len(shared_b) != len(bs):
            chk.ob(rule, n0, what, None, f"cannot decide: `{target}` is bound to {why0} here and to something else at line "
                   f"{[b[1].lineno for b in bs if not b[2]][0]}; which object {muts[0][2]} changes is not established", file=file, func=q)
        else:
            chk.ob(rule, muts[0][1], what, False,
                   f"`{target}` is {why0} itself, not a copy: every {cls_name} of the process holds the same object, and "
                   f"{'; '.join(sorted({m_[2] for m_ in muts})[:3])} changes it in place - a change made for one instance is seen by all the others"
                   + (f" - {consequence}" if consequence else ""), file=file, func=f"{cls_name}.{muts[0][0].name}")


def memo_key_coverage(chk, mod, cls_name):
    """G5-memo-key: a method that keeps its result in a table of the object (`v = self.T.get(key)` / `key in self.T` / `self.T[key]`,
    filled with `self.T[key] = <result>`) must build the key from everything of its arguments that the result is computed from.
    Decided by comparing two read footprints at the granularity parameter.attribute (whole / a subscripted part): that of the key
    expression and that of the computation of the stored value (the statements of the method outside the key, or the method of the
    class it calls with the parameters)."""
    rule = "G5-memo-key"
    cls = mod.cls(cls_name)
    meths = {}
    for st_ in cls.body:
        if isinstance(st_, ast.FunctionDef):
            meths.setdefault(st_.name, []).append(st_)
    found = 0
    for m in [f for fs in meths.values() for f in fs]:
        q = f"{cls_name}.{m.name}"
        params = [a.arg for a in m.args.args if a.arg not in ("self", "cls")]
        if not params:
            continue
        # tables of self that are both looked up and filled under one key expression in this method
        # (... or of a container shared by every instance: a mutable default argument, a class attribute, a module-level table)
        fills = [n for n in ast.walk(m) if isinstance(n, ast.Assign) and len(n.targets) == 1 and isinstance(n.targets[0], ast.Subscript)
                 and ((isinstance(n.targets[0].value, ast.Attribute) and isinstance(n.targets[0].value.value, ast.Name)
                       and n.targets[0].value.value.id == "self")
                      or shared_table_scope(mod, cls_name, m, n.targets[0].value) is not None)]
        all_params = params
        for fill in fills:
            tab = src(fill.targets[0].value)
            shared = shared_table_scope(mod, cls_name, m, fill.targets[0].value)
            params = [p_ for p_ in all_params if p_ != tab]
            kx = fill.targets[0].slice
            ktxt = src(kx)
            looked = any((isinstance(x, ast.Call) and isinstance(x.func, ast.Attribute) and x.func.attr == "get" and src(x.func.value) == tab
                          and x.args and src(x.args[0]) == ktxt) or
                         (isinstance(x, ast.Compare) and len(x.ops) == 1 and isinstance(x.ops[0], (ast.In, ast.NotIn)) and src(x.left) == ktxt
                          and src(x.comparators[0]) == tab) or
                         (isinstance(x, ast.Subscript) and isinstance(x.ctx, ast.Load) and src(x.value) == tab and src(x.slice) == ktxt)
                         for x in ast.walk(m))
            if not looked:
                continue
            # the key expression (a local bound once is expanded one level)
            key_nodes = [kx]
            if isinstance(kx, ast.Name):
                defs = [n for n in ast.walk(m) if isinstance(n, ast.Assign) and any(isinstance(t, ast.Name) and t.id == kx.id for t in n.targets)]
                others = [n for n in ast.walk(m) if isinstance(n, ast.Name) and n.id == kx.id and isinstance(n.ctx, ast.Store)]
                if len(defs) != 1 or len(others) != 1:
                    continue
                key_nodes = [defs[0].value]
                key_stmt = defs[0]
            else:
                key_stmt = None
            aliases = _param_aliases(m, params)
            kfoot, kloose = _access_footprint(key_nodes, params, aliases)
            if not kfoot and not kloose:
                continue          # the key is not built from the arguments: not a memo of a function of the arguments
            found += 1
            what = f"{q}: `{tab}[{ktxt}]` keeps the result; key `{src(key_nodes[0])[:80]}`"
            # the computation of the stored value
            val = fill.value
            if isinstance(val, ast.Name):
                vdefs = [n for n in ast.walk(m) if isinstance(n, ast.Assign) and any(isinstance(t, ast.Name) and t.id == val.id for t in n.targets)
                         and not (isinstance(n.value, ast.Call) and isinstance(n.value.func, ast.Attribute) and n.value.func.attr == "get"
                                  and src(n.value.func.value) == tab) and not (isinstance(n.value, ast.Subscript) and src(n.value.value) == tab)]
            else:
                vdefs = []
            comp = None          # (function whose body computes the value, its parameters named as this method's)
            why_u = None
            call = vdefs[0].value if len(vdefs) == 1 and isinstance(vdefs[0].value, ast.Call) else val if isinstance(val, ast.Call) else None
            is_self_call = call is not None and isinstance(call.func, ast.Attribute) and isinstance(call.func.value, ast.Name) \
                and call.func.value.id == "self" and call.func.attr in meths
            if is_self_call and not (len(meths[call.func.attr]) == 1 and not call.keywords
                                     and all(isinstance(a, ast.Name) and a.id in params for a in call.args)):
                why_u = f"`{src(call)[:60]}` computes the stored value; its arguments are not plain parameters of this method (or the method is " \
                        "defined more than once)"
            elif is_self_call:
                h = meths[call.func.attr][0]
                hp = [a.arg for a in h.args.args if a.arg not in ("self", "cls")]
                if len(hp) == len(call.args) and not h.args.vararg and not h.args.kwarg and [a.id for a in call.args] == hp:
                    comp = (h, hp)
                else:
                    why_u = f"the arguments of `{src(call)[:60]}` are not the parameters of {call.func.attr} under the same names"
            elif vdefs or not isinstance(val, ast.Name):
                # computed in place: every statement of the method except the key's own definition
                comp = (m, params)
            else:
                why_u = f"the computation of the stored value `{src(val)[:50]}` could not be found (one method of the class called with the parameters, " \
                        "or statements of this method)"
            if comp is None:
                chk.ob(rule, fill, what, None, f"cannot decide: {why_u}", file=U.LAYOUT, func=q)
                continue
            h, hp = comp
            body = [st_ for st_ in h.body if st_ is not key_stmt]
            # (the key expression written out where the table is subscripted / searched is no read of the computation)
            skip = set()
            if h is m:
                for x in ast.walk(m):
                    ks = [x.slice] if isinstance(x, ast.Subscript) and src(x.value) == tab else \
                        [x.args[0]] if isinstance(x, ast.Call) and isinstance(x.func, ast.Attribute) and x.func.attr == "get" and x.args \
                        and src(x.func.value) == tab else \
                        [x.left] if isinstance(x, ast.Compare) and len(x.comparators) == 1 and src(x.comparators[0]) == tab else []
                    for k_ in ks:
                        if src(k_) == ktxt:
                            skip |= {id(y) for y in ast.walk(k_)}
            vfoot, vloose = _access_footprint(body, hp, _param_aliases(h, hp) if h is not m else aliases, skip)
            bad, und = [], []
            if shared:
                # the table outlives / is common to the instances: the result must not depend on the state of the instance either.
                # ASSUMPTIONS (checked): the table is one object for every instance (shared_table_scope: default argument / class
                # attribute / module-level container); the computation of the stored value reads `self.X`; X is not a component of the
                # key; X is derived from the arguments of a method of the class (instance_dependent_attrs), so that two instances can
                # hold different values.  Anything else read from self (a method call, an attribute whose origin is not seen) is
                # undecided.
                inst = instance_dependent_attrs(mod, cls_name)
                ktext = " ".join(src(k_) for k_ in key_nodes)
                meth_names = {f.name for c in _class_chain(mod, cls_name) for f in c.body if isinstance(f, ast.FunctionDef)}
                seen_attr = set()
                for top in body:
                    for x in ast.walk(top):
                        if not (isinstance(x, ast.Attribute) and isinstance(x.value, ast.Name) and x.value.id == "self"
                                and isinstance(x.ctx, ast.Load)) or src(x) == tab or x.attr in seen_attr:
                            continue
                        seen_attr.add(x.attr)
                        if f"self.{x.attr}" in ktext:
                            continue
                        if x.attr in meth_names:
                            und.append(f"the computation calls/reads `self.{x.attr}` (line {x.lineno}) of the instance while the table is shared "
                                       "by all instances; what it reads of the instance is not followed")
                        elif x.attr in inst:
                            bad.append(f"{shared}; the result is computed from `self.{x.attr}` (line {x.lineno}), which is set from the "
                                       f"arguments of the instance's constructor/methods and is not part of the key: a second {cls_name} whose "
                                       f"`{x.attr}` differs is handed the result computed for the first one")
                        else:
                            und.append(f"the computation reads `self.{x.attr}` (line {x.lineno}) while the table is shared by all instances; "
                                       "whether it differs between instances is not established")
            for p_ in vloose:
                if p_ not in kloose:
                    und.append(f"the computation uses the argument `{p_}` as a whole (line {getattr(vloose[p_], "lineno", "?")}): what it reads of it "
                               "is not followed")
            for (p_, a_), uses in sorted(vfoot.items()):
                if p_ in kloose:
                    continue
                kuses = kfoot.get((p_, a_), set())
                if any(k == "whole" for k, _ in kuses):
                    continue
                whole = sorted(t for k, t in uses if k == "whole")
                parts = sorted(t for k, t in uses if k == "part")
                kparts = sorted(t for k, t in kuses if k == "part")
                if whole and kparts:
                    # ASSUMPTIONS (checked): the key holds only subscripted parts of p.attr (no whole occurrence, the parameter itself is not
                    # in the key); each part is a proper part (a slice with a bound, or an index); the computation reads p.attr through an
                    # operation on the whole sequence (method call / iteration / handed on), whose result can depend on the items the key
                    # leaves out (`.index` answers a position in the WHOLE sequence)
                    if all(t.strip() not in (":", "::") for t in kparts):
                        bad.append(f"the result is computed from all of `{p_}.{a_}` (`{p_}.{a_}{whole[0] if whole[0].startswith('.') else ''}` "
                                   f"{'' if whole[0].startswith('.') else whole[0]}) but the key holds only `{p_}.{a_}[{kparts[0]}]`")
                    continue
                if whole or parts:
                    if not kuses:
                        und.append(f"the computation reads `{p_}.{a_}`, which the key does not contain; whether the key's components determine it "
                                   "is not established")
                    elif parts and not set(parts) <= set(kparts):
                        und.append(f"the computation reads `{p_}.{a_}[{parts[0]}]`, the key holds `{p_}.{a_}[{kparts[0]}]`: whether the part read lies "
                                   "inside the part in the key is not established")
            if bad:
                chk.ob(rule, fill, what, False,
                       "; ".join(bad) + f": two calls whose arguments agree on the key but differ elsewhere in what the result is computed from "
                       f"get the result of the first one (computed in {cls_name}.{h.name}) - for the swap axes of a transpose: the pack/unpack "
                       "kernels split and concatenate along the axes of another pair of layouts", file=U.LAYOUT, func=q)
            elif und:
                chk.ob(rule, fill, what, None, "cannot decide: " + "; ".join(und), file=U.LAYOUT, func=q)
            else:
                chk.ob(rule, fill, what, True, f"every attribute of the arguments that {cls_name}.{h.name} reads is in the key", file=U.LAYOUT, func=q)
    chk.ob(rule, cls, f"{cls_name}: results kept in a table under a key built from the arguments", True,
           f"{found} memoised result(s) examined", file=U.LAYOUT, func=cls_name, nontrivial=False)


def handler_contract(chk, mod):
    """the element-placement part of the handler's contract: geometry, axis roles, permutations, read-only route map"""
    distinct_buffers(chk, mod)
    payload_dtype(chk, mod)
    workspace_sizes(chk, mod)
    raw = mod
    mod = handler_view(chk, raw)
    fp, fu = geometry_check(chk, mod)
    comm_axis_check(chk, mod)
    swap_axes_def_check(chk, mod)
    swap_index_check(chk, mod, fp, fu)
    engine(chk, "P1-transpose-permutation", mod.func(f"{CLS}._transpose"), "permutation typing of the handler's array stores",
           permcheck.check_layout_handler, ThreeValued(chk, ("P1-packer-input-view", "P1-consistent-swaps")), mod, file=U.LAYOUT,
           func=f"{CLS}._transpose")
    mod = canonical_steps(raw, CLS)
    # the cached route map is only read by the transposes
    from .. import lints
    for q in route_readers(mod, CLS):
        f_ = mod.func(q)
        muts = lints.shared_state_mutations(f_, lambda s_: s_.startswith("self._route_map") or s_.startswith("self._layouts") or s_.startswith("self._handlers"))
        chk.ob("G2-no-shared-mutation", f_, f"{q} vs the cached route map", not muts,
               "the route map and layout tables are only read" if not muts else "; ".join(d for _, d in muts) +
               " - the stored route is shortened/changed by a transpose: the next transpose between the same layouts takes a wrong route",
               file=U.LAYOUT, func=q)
        for n_, d_, why_ in getattr(muts, "undecided", ()):
            chk.ob("G2-no-shared-mutation", n_, f"{q} vs the cached route map: {d_}", None,
                   f"a possible change of the stored route that could not be established: {why_}", file=U.LAYOUT, func=q)
    # the Layout objects are shared by every transpose: the packer/unpacker never write through something a Layout hands out
    for q in (f"{CLS}._extract_from_source", f"{CLS}._rearrange_from_buffer", f"{CLS}._transpose", f"{CLS}._transpose_source_intact",
              f"{CLS}._get_swap_axes"):
        if not mod.has(q):
            chk.ob("G2-no-shared-mutation", mod.cls(CLS), f"{q} vs the Layout objects", None, f"{q} does not exist any more", file=U.LAYOUT, func=q)
            continue
        f_ = mod.func(q)
        muts = lints.shared_state_mutations(f_, lambda s_: s_.startswith(("layout_source.", "layout_dest.", "self._layouts", "self._route_map")))
        chk.ob("G2-no-shared-mutation", muts[0][0] if muts else f_, f"{q} vs the Layout objects", not muts,
               "nothing obtained from a Layout (shape, tables, cached slices) is modified" if not muts else "; ".join(d for _, d in muts) +
               " - the Layout object is shared: the next transpose from this layout starts from the modified value",
               file=U.LAYOUT, func=q)
        for n_, d_, why_ in getattr(muts, "undecided", ()):
            chk.ob("G2-no-shared-mutation", n_, f"{q} vs the Layout objects: {d_}", None,
                   f"a possible change of an object handed out by a Layout that could not be established: {why_}", file=U.LAYOUT, func=q)
    engine(chk, "G5-memo-key", raw.cls(CLS), "results kept in a table under a key built from the arguments", memo_key_coverage, chk, raw, CLS,
           file=U.LAYOUT, func=CLS)
    engine(chk, "G5-instance-owned-state", raw.cls(CLS), "state of one handler kept in a container shared by all handlers",
           shared_container_aliasing, chk, raw, CLS, "G5-instance-owned-state", U.LAYOUT, file=U.LAYOUT, func=CLS)
    chk.floor("G1-", 6)
    chk.floor("G3-", 2)
    chk.floor("P1-", 4)
