import sys, os; sys.path.insert(0, os.getcwd())
# demo for b1 (breaking): Grid.getMin/getMax with several fixed axes.
# Exits 1 when a reported min/max differs from the global field's.
# Property C17: diagnostics / global reductions equal serial quadrature of the
# global field.  Ranks of a cartesian process grid are simulated one after the
# other inside this process with a small fake mpi4py.
import types
import hashlib
import itertools
import numpy as np


# --------------------------------------------------------------------------
# fake mpi4py
# --------------------------------------------------------------------------
class _Op:
    def __init__(self, name, fn):
        self.name, self.fn = name, fn


class _World:
    """ shared state of the simulated ranks: contributions per collective """

    def __init__(self, size):
        self.size = size
        self.calls = {}


class _Comm:
    def __init__(self, world=None, rank=0):
        self.world = world if world is not None else _World(1)
        self.rank = rank
        self.seq = 0

    def Get_rank(self):
        return self.rank

    def Get_size(self):
        return self.world.size

    def _contribute(self, value, root):
        slot = self.world.calls.setdefault(self.seq, {})
        self.seq += 1
        assert self.rank not in slot
        slot[self.rank] = value
        if self.rank == root:
            # the root is always driven last by the demo
            assert len(slot) == self.world.size, "root must be called last"
            return [slot[k] for k in sorted(slot)]
        return None

    def reduce(self, value, op=None, root=0):
        vals = self._contribute(value, root)
        if vals is None:
            return None
        res = vals[0]
        for v in vals[1:]:
            res = op.fn(res, v)
        return res

    def Reduce(self, sendbuf, recvbuf, op=None, root=0):
        vals = self._contribute(np.array(sendbuf, copy=True), root)
        if vals is None:
            return
        res = vals[0]
        for v in vals[1:]:
            res = op.fn(res, v)
        recvbuf[...] = res


def _install_fake_mpi():
    mpi4py = types.ModuleType('mpi4py')
    MPI = types.ModuleType('mpi4py.MPI')
    MPI.Comm = _Comm
    MPI.SUM = _Op('SUM', lambda a, b: a + b)
    MPI.MIN = _Op('MIN', np.minimum)
    MPI.MAX = _Op('MAX', np.maximum)
    MPI.DOUBLE = 'd'
    MPI.COMM_WORLD = _Comm()
    mpi4py.MPI = MPI
    sys.modules['mpi4py'] = mpi4py
    sys.modules['mpi4py.MPI'] = MPI
    return MPI


MPI = _install_fake_mpi()

import pygyro                                                    # noqa: E402
assert os.path.realpath(pygyro.__file__).startswith(
    os.path.realpath(os.getcwd()) + os.sep), pygyro.__file__
from pygyro.model.layout import Layout                            # noqa: E402
from pygyro.model.grid import Grid                                # noqa: E402
from pygyro.diagnostics.norms import l2, l1, nParticles           # noqa: E402
from pygyro.diagnostics.energy import KineticEnergy               # noqa: E402
from pygyro.diagnostics.diagnostic_collector import DiagnosticCollector  # noqa: E402


class Manager:
    """ minimal LayoutManager: a table of Layout objects for one rank """

    def __init__(self, layouts, eta_grid, coords):
        # layouts: name -> (dims_order, nprocs (list), indices of the process
        #                   directions used)
        self._coords = list(coords)
        self._layouts = {}
        for name, (order, nprocs, dirs) in layouts.items():
            self._layouts[name] = Layout(name, list(nprocs), list(order), eta_grid,
                                         [coords[d] for d in dirs])
        self.bufferSize = max(int(l.max_block_size)
                              for l in self._layouts.values())

    def getLayout(self, name):
        return self._layouts[name]

    @property
    def mpiCoords(self):
        return self._coords[:]


def local_block(glob, layout):
    loc = np.transpose(glob, layout.dims_order)
    sl = tuple(slice(s, e) for s, e in zip(layout.starts, layout.ends))
    return loc[sl]


def trapz_weights(x):
    d = np.diff(x)
    w = np.zeros_like(x)
    w[:-1] += 0.5 * d
    w[1:] += 0.5 * d
    return w


class Checker:
    def __init__(self):
        self.failures = []
        self.record = []

    def close(self, what, got, ref, rtol=1e-11):
        self.record.append(np.asarray(got, dtype=float).tobytes())
        ok = got is not None and np.all(np.isfinite(got)) and \
            np.all(np.abs(np.asarray(got) - ref) <=
                   rtol * max(1.0, np.max(np.abs(ref))))
        if not ok:
            self.failures.append("%s: got %r expected %r" % (what, got, ref))

    def equal(self, what, got, ref):
        self.record.append(np.asarray(got, dtype=float).tobytes())
        if got is None or not np.array_equal(np.asarray(got), np.asarray(ref)):
            self.failures.append("%s: got %r expected %r" % (what, got, ref))

    def guarded(self, what, fn):
        try:
            fn()
        except Exception as e:      # an exception is a violation as well
            self.failures.append("%s: raised %s: %s" %
                                 (what, type(e).__name__, e))

    def digest(self):
        h = hashlib.sha256()
        for b in self.record:
            h.update(b)
        return h.hexdigest()


def make_eta_grid(rng, npts, Lz=7.3):
    nr, nq, nz, nv = npts
    r = np.sort(rng.uniform(0.2, 3.0, nr))
    r += 0.05 * np.arange(nr)
    q = np.linspace(0, 2 * np.pi, nq, endpoint=False)
    z = np.linspace(0, Lz, nz, endpoint=False)
    v = np.sort(rng.uniform(-4.0, 4.0, nv))
    v += 0.03 * np.arange(nv)
    return [r, q, z, v]


LAYOUTS_4D = {'flux_surface': [0, 3, 1, 2],
              'v_parallel': [0, 2, 1, 3],
              'poloidal': [3, 2, 1, 0]}
LAYOUTS_3D = {'v_parallel_2d': [0, 2, 1],
              'mode_solve': [1, 2, 0]}
# layouts of phi that only use one of the two process directions: the data is
# replicated along the other one
LAYOUTS_3D_REPL = {'v_parallel_1d': ([0, 2, 1], 0),
                   'poloidal': ([2, 1, 0], 1)}


def ranks_root_last(nprocs):
    coords = list(itertools.product(*[range(n) for n in nprocs]))
    # rank 0 (= coords (0,0)) is the root of every reduction: drive it last
    return coords[1:] + coords[:1]


def rank_of(coords, nprocs):
    return coords[0] * nprocs[1] + coords[1]


# --------------------------------------------------------------------------
# part 1 : sums of the local diagnostics in every layout
# --------------------------------------------------------------------------
def check_sums(chk, rng, npts, nprocs, Lz=7.3):
    eta = make_eta_grid(rng, npts, Lz)
    r, q, z, v = eta
    wr, wv = trapz_weights(r) * r, trapz_weights(v)
    dq, dz = q[1] - q[0], z[1] - z[0]
    tag = "npts=%s nprocs=%s" % (npts, nprocs)

    f_real = rng.standard_normal(npts) + 0.3
    f_cplx = rng.standard_normal(npts) + 1j * rng.standard_normal(npts)
    f_one = np.ones(npts)
    phi_c = rng.standard_normal(npts[:3]) + 1j * rng.standard_normal(npts[:3])
    phi_one = np.ones(npts[:3], dtype=complex)

    W4 = wr[:, None, None, None] * wv[None, None, None, :] * dq * dz
    W3 = wr[:, None, None] * np.ones((1, npts[1], npts[2])) * dq * dz
    vol4 = 0.5 * (r[-1]**2 - r[0]**2) * 2 * np.pi * Lz * (v[-1] - v[0])
    vol3 = 0.5 * (r[-1]**2 - r[0]**2) * 2 * np.pi * Lz
    ke_one = 0.5 * np.sum(W4 * (v**2)[None, None, None, :]) * npts[1] * npts[2]

    world_ranks = ranks_root_last(nprocs)

    # ---- 4D layouts
    for name, order in LAYOUTS_4D.items():
        def run4(name=name, order=order):
            tot = {}
            for coords in world_ranks:
                man = Manager({name: (order, nprocs, (0, 1))}, eta[:], coords)
                lay = man.getLayout(name)
                comm = _Comm(_World(nprocs[0] * nprocs[1]),
                             rank_of(coords, nprocs))
                n2, n1, nP, kE = l2(eta, lay), l1(eta, lay), nParticles(
                    eta, lay), KineticEnergy(eta, lay)
                for key, glob, dtype in (('real', f_real, float),
                                         ('cplx', f_cplx, complex),
                                         ('one', f_one, float)):
                    g = Grid(eta, [None] * 4, man, name, comm, dtype=dtype)
                    g._f[:] = local_block(glob, lay)
                    before = g._f.copy()
                    vals = (n2.l2NormSquared(g), n1.l1Norm(g),
                            nP.getN(g), kE.getKE(g))
                    assert np.array_equal(before, g._f), \
                        "diagnostic modified the field"
                    for k, val in zip(('l2', 'l1', 'n', 'ke'), vals):
                        tot[key, k] = tot.get((key, k), 0.0) + val
            for key, glob in (('real', f_real), ('cplx', f_cplx), ('one', f_one)):
                t = "%s 4D %s %s " % (tag, name, key)
                chk.close(t + "l2", tot[key, 'l2'], np.sum(np.abs(glob)**2 * W4))
                chk.close(t + "l1", tot[key, 'l1'],
                          np.sum(np.abs(glob.real) * W4))
                chk.close(t + "nPart", tot[key, 'n'], np.sum(glob.real * W4))
                chk.close(t + "KE", tot[key, 'ke'], 0.5 * np.sum(
                    glob.real * W4 * (v**2)[None, None, None, :]))
            t = "%s 4D %s volume " % (tag, name)
            chk.close(t + "l2", tot['one', 'l2'], vol4, 1e-10)
            chk.close(t + "l1", tot['one', 'l1'], vol4, 1e-10)
            chk.close(t + "nPart", tot['one', 'n'], vol4, 1e-10)
            chk.close(t + "KE", tot['one', 'ke'], ke_one, 1e-10)
        chk.guarded("%s 4D %s" % (tag, name), run4)

    # ---- 3D layouts (phi), fully distributed and replicated
    cases3 = [(n, o, list(nprocs), (0, 1), None)
              for n, o in LAYOUTS_3D.items()]
    cases3 += [(n, o, [nprocs[d]], (d,), d)
               for n, (o, d) in LAYOUTS_3D_REPL.items()]
    eta3 = eta[:3]
    for name, order, np_l, dirs, repl in cases3:
        def run3(name=name, order=order, np_l=np_l, dirs=dirs, repl=repl):
            tot = {}
            for coords in world_ranks:
                if repl is not None and coords[1 - repl] != 0:
                    # sum along the sub-communicator of the distributed direction
                    continue
                man = Manager({name: (order, np_l, dirs)}, eta3[:], coords)
                lay = man.getLayout(name)
                comm = _Comm(_World(nprocs[0] * nprocs[1]),
                             rank_of(coords, nprocs))
                n2 = l2(eta3, lay)
                for key, glob in (('cplx', phi_c), ('one', phi_one)):
                    g = Grid(eta3, [None] * 3, man, name, comm, dtype=complex)
                    g._f[:] = local_block(glob, lay)
                    tot[key] = tot.get(key, 0.0) + n2.l2NormSquared(g)
            t = "%s 3D %s " % (tag, name)
            chk.close(t + "l2 cplx", tot['cplx'], np.sum(np.abs(phi_c)**2 * W3))
            chk.close(t + "l2 volume", tot['one'], vol3, 1e-10)
        chk.guarded("%s 3D %s" % (tag, name), run3)


# --------------------------------------------------------------------------
# part 2 : minima / maxima, whole grid and fixed-index slices
# --------------------------------------------------------------------------
def check_minmax(chk, rng, npts, nprocs):
    eta = make_eta_grid(rng, npts)
    tag = "npts=%s nprocs=%s" % (npts, nprocs)
    world_ranks = ranks_root_last(nprocs)
    size = nprocs[0] * nprocs[1]
    glob_r = rng.standard_normal(npts)
    glob_c = rng.standard_normal(npts) + 1j * rng.standard_normal(npts)

    requests = [(None, None)]
    for ax in range(4):
        for fix in sorted({0, npts[ax] // 2, npts[ax] - 1}):
            requests.append((ax, fix))
    for axs in [(0, 3), (3, 0), (0, 2), (2, 0), (1, 3), (3, 1), (1, 2), (0, 1, 3)]:
        for _ in range(3):
            requests.append((list(axs), [int(rng.integers(npts[a]))
                                        for a in axs]))

    for name, order in LAYOUTS_4D.items():
        for key, glob, dtype in (('real', glob_r, float), ('cplx', glob_c, complex)):
            def run(name=name, order=order, glob=glob, dtype=dtype, key=key):
                world = _World(size)
                grids = []
                for coords in world_ranks:
                    man = Manager({name: (order, nprocs, (0, 1))},
                                  eta[:], coords)
                    comm = _Comm(world, rank_of(coords, nprocs))
                    g = Grid(eta, [None] * 4, man, name, comm, dtype=dtype)
                    g._f[:] = local_block(glob, man.getLayout(name))
                    grids.append(g)
                # local (non collective) form
                lo = min(g.getMin() for g in grids if g._f.size) if dtype is float else None
                hi = max(g.getMax() for g in grids if g._f.size) if dtype is float else None
                if dtype is float:
                    chk.equal("%s %s local min" % (tag, name), lo, glob.min())
                    chk.equal("%s %s local max" % (tag, name), hi, glob.max())
                for axis, fix in requests:
                    sl = [slice(None)] * 4
                    if axis is not None:
                        for a, i in zip(np.atleast_1d(axis), np.atleast_1d(fix)):
                            sl[a] = i
                    ref = glob.real[tuple(sl)]
                    res_min = [g.getMin(0, axis, fix) for g in grids][-1]
                    res_max = [g.getMax(0, axis, fix) for g in grids][-1]
                    t = "%s %s %s axis=%s fix=%s " % (tag, name, key, axis, fix)
                    chk.equal(t + "min", res_min, ref.min())
                    chk.equal(t + "max", res_max, ref.max())
            chk.guarded("%s minmax %s %s" % (tag, name, key), run)


# --------------------------------------------------------------------------
# part 3 : DiagnosticCollector: reduction on rank 0 and the time slots
# --------------------------------------------------------------------------
def check_collector(chk, rng, npts, nprocs, saveStep, dt, first_step, nsteps):
    eta = make_eta_grid(rng, npts)
    r, q, z, v = eta
    wr, wv = trapz_weights(r) * r, trapz_weights(v)
    dq, dz = q[1] - q[0], z[1] - z[0]
    W4 = wr[:, None, None, None] * wv[None, None, None, :] * dq * dz
    W3 = wr[:, None, None] * np.ones((1, npts[1], npts[2])) * dq * dz
    tag = "collector npts=%s nprocs=%s saveStep=%d dt=%g start=%d" % (
        npts, nprocs, saveStep, dt, first_step)
    size = nprocs[0] * nprocs[1]
    world_ranks = ranks_root_last(nprocs)

    def run():
        world = _World(size)
        ranks = []
        for coords in world_ranks:
            comm = _Comm(world, rank_of(coords, nprocs))
            manf = Manager({n: (o, nprocs, (0, 1)) for n, o in LAYOUTS_4D.items()},
                           eta[:], coords)
            manp = Manager({n: (o, nprocs, (0, 1)) for n, o in LAYOUTS_3D.items()},
                           eta[:3], coords)
            f = Grid(eta, [None] * 4, manf, 'v_parallel', comm)
            phi = Grid(eta[:3], [None] * 3, manp, 'v_parallel_2d', comm,
                       dtype=complex)
            ranks.append((DiagnosticCollector(comm, saveStep, dt, f, phi), f, phi))
        root = ranks[-1][0]
        assert root.rank == 0

        # the time is accumulated exactly as the simulation does
        t = 0.0
        for _ in range(first_step):
            t += dt
        expected = {}
        for step in range(first_step, first_step + nsteps):
            fg = rng.standard_normal(npts) + 0.1 * step
            pg = rng.standard_normal(npts[:3]) + 1j * \
                rng.standard_normal(npts[:3])
            for coll, f, phi in ranks:
                f._f[:] = local_block(fg, f._layout)
                phi._f[:] = local_block(pg, phi._layout)
                coll.collect(f, phi, t)
            expected[step % saveStep] = (
                t, np.sqrt(np.sum(np.abs(pg)**2 * W3)), np.sqrt(np.sum(fg**2 * W4)),
                np.sum(np.abs(fg) * W4), np.sum(fg * W4), fg.min(), fg.max(),
                0.5 * np.sum(fg * W4 * (v**2)[None, None, None, :]))
            if step % saveStep == saveStep - 1 or step == first_step + nsteps - 1:
                for coll, _, _ in ranks:
                    coll.reduce()
                for slot, ref in expected.items():
                    got = (root.diagnostics[0, slot], root.l2PhiResult[slot],
                           root.l2GridResult[slot], root.l1Result[slot],
                           root.nPartResult[slot], root.min_val[slot],
                           root.max_val[slot], root.KE_val[slot])
                    for nm, g_, r_ in zip(('t', 'l2phi', 'l2f', 'l1', 'nPart',
                                           'min', 'max', 'KE'), got, ref):
                        chk.close("%s step=%d slot=%d %s" % (tag, step, slot, nm),
                                  g_, r_)
                    line = root.getLine(slot)
                    assert len(line.split()) == 8
                    chk.record.append(line.encode())
                expected = {}
            t += dt
    chk.guarded(tag, run)


def run_all(seed=1234):
    chk = Checker()
    rng = np.random.default_rng(seed)
    for npts, nprocs in (((7, 8, 6, 9), (1, 1)),
                         ((7, 8, 6, 9), (2, 3)),
                         ((9, 6, 10, 6), (3, 2)),
                         ((6, 5, 7, 8), (4, 1)),
                         ((8, 9, 5, 7), (1, 4)),
                         ((3, 6, 5, 4), (4, 1)),
                         ((5, 6, 6, 6), (2, 2))):
        check_sums(chk, rng, npts, nprocs)
        check_minmax(chk, rng, npts, nprocs)
    check_collector(chk, rng, (7, 8, 6, 9), (2, 3), 5, 0.1, 0, 12)
    check_collector(chk, rng, (6, 5, 7, 8), (2, 2), 4, 2.0, 6, 9)
    check_collector(chk, rng, (5, 6, 6, 6), (1, 1), 3, 0.7, 0, 7)
    return chk


def main(expected_digest=None):
    chk = run_all()
    print("checks recorded: %d, failures: %d" %
          (len(chk.record), len(chk.failures)))
    for msg in chk.failures[:15]:
        print("VIOLATION:", msg)
    print("digest of all outputs:", chk.digest())
    if chk.failures:
        print("C17 VIOLATED")
        return 1
    if expected_digest is not None and chk.digest() != expected_digest:
        print("outputs differ bitwise from the recorded clean-tree outputs")
        return 1
    print("C17 holds")
    return 0


if __name__ == '__main__':
    sys.exit(main())
