import sys, os; sys.path.insert(0, os.getcwd())
import types, json, subprocess

# ---- minimal fake mpi4py (no MPI library in the sandbox) -------------------
_m = types.ModuleType('mpi4py'); _M = types.ModuleType('mpi4py.MPI')
class _Comm: pass
_M.Comm = _Comm; _M.COMM_WORLD = None
for _n in ('SUM', 'MIN', 'MAX', 'DOUBLE'):
    setattr(_M, _n, _n)
_m.MPI = _M
sys.modules['mpi4py'] = _m; sys.modules['mpi4py.MPI'] = _M

import pygyro
assert os.path.abspath(pygyro.__file__).startswith(os.path.abspath(os.getcwd()) + os.sep), pygyro.__file__
import numpy as np
from pygyro.diagnostics.diagnostic_collector import DiagnosticCollector

SAVESTEP = 4
NRANKS = 3
OUT = ['l2PhiResult', 'l2GridResult', 'l1Result', 'nPartResult', 'min_val', 'max_val', 'KE_val']


def local_rows(rank):
    """ the local diagnostics of one rank: row q of rank r holds 100*q + 10*r + step """
    d = np.zeros([8, SAVESTEP])
    for q in range(8):
        d[q, :] = 100*q + 10*rank + np.arange(SAVESTEP)
    return d


class RecComm(_Comm):
    """ records what this rank contributes at every position of its collective sequence """
    def __init__(self, rank): self.r = rank; self.trace = []
    def Get_rank(self): return self.r
    def Get_size(self): return NRANKS
    def Reduce(self, sendbuf, recvbuf, op=None, root=0):
        sendbuf = np.asarray(sendbuf)
        self.trace.append({'op': str(op), 'root': root, 'count': int(sendbuf.size),
                           'dtype': str(sendbuf.dtype), 'send': sendbuf.tolist()})
        self.recv = getattr(self, 'recv', []) + [recvbuf]


def one_rank(rank):
    """ run DiagnosticCollector.reduce for one rank (one interpreter == one rank) """
    dc = DiagnosticCollector.__new__(DiagnosticCollector)
    dc.saveStep = SAVESTEP; dc.dt = 1.0
    dc.comm = RecComm(rank); dc.rank = rank
    dc.diagnostics = local_rows(rank)
    for n in OUT:
        setattr(dc, n, np.zeros(SAVESTEP))
    dc.reduce()
    outs = [next((n for n in OUT if getattr(dc, n) is rb), '?') for rb in dc.comm.recv] if rank != 0 else None
    return dc.comm.trace


if len(sys.argv) > 2 and sys.argv[1] == '--rank':
    print(json.dumps(one_rank(int(sys.argv[2]))))
    sys.exit(0)

bad = []
ops = {'SUM': lambda a: np.sum(a, axis=0), 'MIN': lambda a: np.min(a, axis=0), 'MAX': lambda a: np.max(a, axis=0)}
# independent reference: the i-th result is the reduction over ranks of row i+1
ref_ops = ['SUM', 'SUM', 'SUM', 'SUM', 'MIN', 'MAX', 'SUM']
all_rows = np.array([local_rows(r) for r in range(NRANKS)])
reference = sorted(ops[o](all_rows[:, q+1, :]).tolist() for q, o in enumerate(ref_ops))

# every real rank is a separate interpreter with its own string-hash seed
for seeds in ([0, 0, 0], [1, 2, 3], [4, 5, 6], [7, 11, 13], [21, 34, 55], ['random']*3):
    traces = []
    for rank, seed in enumerate(seeds):
        env = dict(os.environ, PYTHONHASHSEED=str(seed))
        out = subprocess.run([sys.executable, os.path.abspath(__file__), '--rank', str(rank)],
                             env=env, cwd=os.getcwd(), capture_output=True, text=True)
        if out.returncode != 0:
            bad.append("rank %d failed: %s" % (rank, out.stderr[-300:])); break
        traces.append(json.loads(out.stdout))
    else:
        if len({len(t) for t in traces}) != 1:
            bad.append("seeds %r: ranks issue different numbers of collectives" % (seeds,)); continue
        results = []
        for pos in range(len(traces[0])):
            calls = [t[pos] for t in traces]
            sig = {(c['op'], c['root'], c['count'], c['dtype']) for c in calls}
            if len(sig) != 1:
                bad.append("seeds %r: collective #%d mismatched signatures %r" % (seeds, pos, sorted(sig)))
                continue
            # what the MPI library would deliver at the root: the reduction of
            # whatever each rank contributed at this position
            results.append(ops[calls[0]['op']](np.array([c['send'] for c in calls])).tolist())
            # all ranks must contribute the same diagnostic at the same position
            quantities = {int(c['send'][0]) // 100 for c in calls}
            if len(quantities) != 1:
                bad.append("seeds %r: collective #%d combines different diagnostics (rows %r) of different ranks"
                           % (seeds, pos, sorted(quantities)))
        if sorted(results) != reference and not any(b.startswith("seeds %r" % (seeds,)) for b in bad):
            bad.append("seeds %r: reduced values differ from the reference" % (seeds,))

for b in bad[:8]:
    print("VIOLATION:", b)
print("%d problems" % len(bad))
sys.exit(1 if bad else 0)
