#!/bin/bash
# caught_by.sh <patch.diff>: apply to a scratch copy of /repo, run all 20 checks, print "<patch> : C01 C04 C07(err) ..."
patch=$(readlink -f "$1")
d=$(mktemp -d /tmp/pgv_cb.XXXXXX)
rsync -a --exclude .git --exclude '*.egg-info' /repo/ $d/repo/
( cd $d/repo && git init -q . >/dev/null 2>&1; git apply --whitespace=nowarn "$patch" ) || { echo "$patch : PATCH-DOES-NOT-APPLY"; rm -rf $d; exit 0; }
out=""
cd /verif
for c in $(seq -w 1 20); do
  PGVERIF_REPO=$d/repo PGVERIF_EVIDENCE_DIR=$d/ev /venv/bin/python -m pgverif check C$c > /dev/null 2>&1; rc=$?
  [ $rc = 1 ] && out="$out C$c"
  [ $rc = 2 ] && out="$out C$c(err)"
done
rm -rf $d
echo "$patch :$out"
