import sys, os; sys.path.insert(0, os.getcwd())
"""
Reproducer for C17 (last clause): "Collected diagnostics are written to the
time slot of the step they belong to."

Run as `/venv/bin/python /tmp/triage_c17_out/repro.py` with cwd = a checkout of
pygyro.  Exit status 1 if the defect occurs, 0 otherwise.

The REAL pygyro.diagnostics.diagnostic_collector.DiagnosticCollector is driven
(real Grid / LayoutHandler objects, small grid, 2 simulated processes through a
fake mpi4py) exactly as fullSimulation.py drives it:

    t = t0 ; collect(f, phi, t)                       # before the loop
    while ...: t += dt ; ... ; collect(f, phi, t)     # once per time step
               if step % saveStep == saveStep-1: reduce(); getLine(i) ...

The step number k is counted independently (k0 = t0//dt computed with exact
integer arithmetic, then k += 1 per step, like the driver's own `ti`).  At step
k the distribution function is the constant k+1, so every row of the slot
identifies the step that wrote it.  After every collect the slot k % saveStep
must hold the time and the values of step k, and at the end of every output
period (after reduce) the printed lines must be those of the steps of the
period, in order.

Scenarios
 (a) integer t and dt (the only inputs the original code can handle), fresh
     start, restart on a multiple of dt, restart on a time that is not a
     multiple of dt (constants file with another dt): must work;
 (b) float dt = 0.5, t = 0, t += dt (and dt = 2.0: a float with integer value);
 (c) float dt = 0.1 over 30 steps (0.1 + ... accumulates rounding errors:
     0.7999999999999999 // 0.1 == 7.0), plus a few other non-representable
     time steps over 3000 steps.
"""
import types
import itertools
import traceback
from fractions import Fraction

import numpy as np


# ---------------------------------------------------------------------------
# fake mpi4py (there is no MPI library in the sandbox)
# ---------------------------------------------------------------------------
def install_fake_mpi4py():
    class Op:
        def __init__(self, name, fn):
            self.name = name
            self.fn = fn

    class Comm:
        def Get_rank(self):
            return 0

        def Get_size(self):
            return 1

    MPI = types.ModuleType('mpi4py.MPI')
    MPI.Comm = Comm
    MPI.COMM_WORLD = Comm()
    MPI.SUM = Op('SUM', np.add)
    MPI.MIN = Op('MIN', np.minimum)
    MPI.MAX = Op('MAX', np.maximum)
    MPI.LAND = Op('LAND', np.logical_and)
    MPI.DOUBLE = 'DOUBLE'
    MPI.IN_PLACE = 'IN_PLACE'
    pkg = types.ModuleType('mpi4py')
    pkg.MPI = MPI
    sys.modules['mpi4py'] = pkg
    sys.modules['mpi4py.MPI'] = MPI
    return MPI


MPI = install_fake_mpi4py()


class World:
    """ simulated communicator: the ranks are executed one after the other, the
    root of a collective last; the k-th collective of a rank is matched with the
    k-th collective of the root """

    def __init__(self, size):
        self.size = size
        self.log = {}

    def comm(self, rank):
        return SimComm(self, rank)


class SimComm(MPI.Comm):
    def __init__(self, world, rank):
        self.world = world
        self.rank = rank
        self.ncalls = 0

    def Get_rank(self):
        return self.rank

    def Get_size(self):
        return self.world.size

    def _combine(self, mine, op, root):
        k = self.ncalls
        self.ncalls += 1
        self.world.log[(self.rank, k)] = (np.array(mine, copy=True), op.name, root)
        if self.rank != root:
            return None
        res = None
        for r in range(self.world.size):
            val, opname, rt = self.world.log.pop((r, k))
            assert opname == op.name and rt == root, "mismatched collectives"
            res = val if res is None else op.fn(res, val)
        return res

    def Reduce(self, sendbuf, recvbuf, op=None, root=0):
        res = self._combine(sendbuf, op, root)
        if res is not None:
            np.copyto(recvbuf, res)

    def reduce(self, sendobj, op=None, root=0):
        res = self._combine(sendobj, op, root)
        if res is None:
            return None
        return res[()] if np.ndim(res) == 0 else res


class SubComm:
    def __init__(self, size):
        self._size = size

    def Get_size(self):
        return self._size


import pygyro                                                            # noqa: E402
assert os.path.abspath(pygyro.__file__).startswith(os.path.abspath(os.getcwd()) + os.sep), \
    "pygyro was imported from %s, not from the checkout in the cwd" % pygyro.__file__
from pygyro.model.layout import LayoutHandler                            # noqa: E402
from pygyro.model.grid import Grid                                       # noqa: E402
from pygyro.diagnostics.diagnostic_collector import DiagnosticCollector  # noqa: E402

LAYOUTS_F = {'flux_surface': [0, 3, 1, 2],
             'v_parallel': [0, 2, 1, 3],
             'poloidal': [3, 2, 1, 0]}
LAYOUTS_PHI = {'v_parallel_2d': [0, 2, 1],
               'mode_solve': [1, 2, 0]}
NPTS = [4, 4, 4, 5]
NPROCS = [2, 1]


class Simulation:
    """ the simulated processes, each with its f, its phi and its collector """

    def __init__(self, saveStep, dt):
        r = np.linspace(0.3, 7.1, NPTS[0])
        q = np.linspace(0, 2*np.pi, NPTS[1], endpoint=False)
        z = np.linspace(0, 2*np.pi*11.0, NPTS[2], endpoint=False)
        v = np.linspace(-5.5, 5.5, NPTS[3])
        eta = [r, q, z, v]
        coords_list = list(itertools.product(*[range(n) for n in NPROCS]))
        self.nranks = len(coords_list)
        world = World(self.nranks)
        gridworld = World(self.nranks)
        self.f, self.phi, self.diag = [], [], []
        for rank, coords in enumerate(coords_list):
            subs = [SubComm(n) for n in NPROCS]
            lhf = LayoutHandler(subs, list(coords), LAYOUTS_F, NPROCS, eta)
            lhp = LayoutHandler(subs, list(coords), LAYOUTS_PHI, NPROCS, eta[:3])
            f = Grid(eta, [None]*4, lhf, 'v_parallel', gridworld.comm(rank))
            phi = Grid(eta[:3], [None]*3, lhp, 'v_parallel_2d', gridworld.comm(rank),
                       dtype=np.complex128)
            self.f.append(f)
            self.phi.append(phi)
            self.diag.append(DiagnosticCollector(world.comm(rank), saveStep, dt, f, phi))

    def collect(self, value, t):
        for f, phi, d in zip(self.f, self.phi, self.diag):
            f._f[:] = value
            phi._f[:] = value
            d.collect(f, phi, t)

    def reduce(self):
        for r in list(range(1, self.nranks)) + [0]:   # the root last
            self.diag[r].reduce()


def run(tag, dt, nsteps, saveStep, t0=0):
    """ returns the list of problems found (empty: the property holds) """
    problems = []

    def problem(msg):
        if len(problems) < 4:
            print("   DEFECT:", msg)
        problems.append(msg)

    print("%s: dt=%r t0=%r saveStep=%d, %d steps" % (tag, dt, t0, saveStep, nsteps))
    sim = Simulation(saveStep, dt)
    # step number of the start time: exact rational arithmetic
    k = int(Fraction(t0)/Fraction(str(dt)) // 1)
    t = t0
    times = {}          # step -> time given to collect for that step
    period = []         # steps collected since the last output
    try:
        for n in range(nsteps+1):
            if n > 0:
                t += dt                               # as the driver does
                k += 1
            times[k] = t
            period.append(k)
            sim.collect(float(k+1), t)
            slot = k % saveStep
            for d in sim.diag:
                col = d.diagnostics[:, slot]
                if col[0] != t or col[5] != k+1 or col[6] != k+1:
                    problem("step %d (t=%r): slot %d holds time %r, min %r, max %r instead of "
                            "time %r and the values %r of this step"
                            % (k, t, slot, col[0], col[5], col[6], t, float(k+1)))
                    break
            if slot == saveStep-1 or n == nsteps:
                # output as in fullSimulation.py: reduce, then the lines of the period
                sim.reduce()
                d0 = sim.diag[0]
                for kk in period:
                    line = d0.getLine(kk % saveStep).split()
                    if float(line[0]) != float("%g" % times[kk]) or float(line[5]) != kk+1 \
                            or float(line[6]) != kk+1:
                        problem("output of the period ending at step %d: the line of slot %d reads "
                                "time %s min %s max %s instead of time %g and the values %r of step %d"
                                % (k, kk % saveStep, line[0], line[5], line[6], times[kk],
                                   float(kk+1), kk))
                period = []
    except Exception as e:                            # noqa
        tb = traceback.extract_tb(e.__traceback__)[-1]
        problem("step %d, collect(f, phi, t=%r) raised %s: %s   [%s:%d: %s]"
                % (k, t, type(e).__name__, e, os.path.basename(tb.filename), tb.lineno, tb.line))
    if len(problems) > 4:
        print("   ... %d problems in total" % len(problems))
    if not problems:
        print("   ok: every slot holds the time and the values of its own step")
    return problems


def main():
    print('library under test:', os.path.dirname(os.path.abspath(pygyro.__file__)))
    print("for information: 0//0.5 = %r, 0.7999999999999999//0.1 = %r, 0.8//0.1 = %r"
          % (0//0.5, 0.7999999999999999//0.1, 0.8//0.1))
    res = {}
    # (a) integers
    res['a1'] = run("(a1) integers, default time step", 2, 12, 5)
    res['a2'] = run("(a2) integers", 1, 9, 4)
    res['a3'] = run("(a3) integers, restart on a multiple of dt", 2, 11, 4, t0=6)
    res['a4'] = run("(a4) integers, restart on a time that is not a multiple of dt", 4, 11, 3, t0=6)
    res['a5'] = run("(a5) integers, restart on a time that is not a multiple of dt", 2, 11, 5, t0=3)
    res['a6'] = run("(a6) integers, restart on a time that is not a multiple of dt", 5, 11, 4, t0=9)
    # (b) float time step, exactly representable
    res['b1'] = run("(b1) float dt", 0.5, 12, 5)
    res['b2'] = run("(b2) float dt with an integer value", 2.0, 12, 5)
    res['b3'] = run("(b3) float dt, restart from integer time", 0.5, 7, 5, t0=3)
    # (c) float time step, rounding of the accumulated time
    res['c1'] = run("(c1) float dt, accumulated rounding", 0.1, 30, 5)
    res['c2'] = run("(c2) float dt, accumulated rounding", 0.1, 30, 4)
    for j, dt in enumerate([0.1, 0.3, 0.7, 1.1, 0.001, 0.05]):
        res['c%d' % (3+j)] = run("(c%d) float dt, long run" % (3+j), dt, 3000, 7)

    print()
    ok_int = all(not res[k] for k in res if k.startswith('a'))
    failing = [k for k in sorted(res) if res[k]]
    print("integer t, dt (must work)      :", "ok" if ok_int else "BROKEN")
    print("scenarios with a defect        :", ", ".join(failing) if failing else "none")
    if failing:
        print("RESULT: DEFECT - diagnostics are not written to the time slot of their step "
              "(or cannot be collected at all)")
        return 1
    print("RESULT: ok")
    return 0


if __name__ == '__main__':
    sys.exit(main())
