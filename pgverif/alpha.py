"""Alpha-normalisation of local variable names (DESIGN 4.8).

Renaming the local variables of a function consistently (injectively, without capturing another
name) does not change what the function computes, so a verdict obtained on the renamed syntax tree
is a verdict on the function as written.  Many rules of the checkers are phrased with the local
names the repository uses today (`size`, `start`, `zDist`, ...).  To keep them applicable after a
local has been renamed, every function is first renamed back to the names recorded in
`refnames.json` (the locals of each function of the reference tree, in order of first binding,
each with a name-independent signature of its binding statement).  The table is only a
recognition aid: whatever renaming is applied is a valid alpha-renaming, hence sound; when no
alignment is found the function is analysed as written.
"""
from __future__ import annotations

import ast
import difflib
import json
from pathlib import Path

TABLE = Path(__file__).with_name("refnames.json")
_cache = None


def _own_nodes(fn):
    """nodes of fn's body without the bodies of nested functions/classes/lambdas"""
    stack = list(fn.body)
    while stack:
        n = stack.pop()
        yield n
        if isinstance(n, (ast.FunctionDef, ast.AsyncFunctionDef, ast.ClassDef, ast.Lambda)):
            continue
        stack.extend(ast.iter_child_nodes(n))


def has_nested_scope(fn):
    return any(isinstance(n, (ast.FunctionDef, ast.AsyncFunctionDef, ast.ClassDef, ast.Lambda, ast.Global, ast.Nonlocal))
               for n in ast.walk(fn) if n is not fn)


def params_of(fn):
    a = fn.args
    out = {x.arg for x in a.args + a.kwonlyargs + a.posonlyargs}
    if a.vararg:
        out.add(a.vararg.arg)
    if a.kwarg:
        out.add(a.kwarg.arg)
    return out


class _Anon(ast.NodeTransformer):
    def __init__(self, local):
        self.local = local

    def visit_Name(self, node):
        if node.id in self.local:
            return ast.copy_location(ast.Name(id="_", ctx=ast.Load()), node)
        return node


def bindings(fn):
    """[(local name, signature)] in order of first binding; the signature is the binding statement's kind and its
    source with every local replaced by `_`"""
    params = params_of(fn)
    stores = [n for n in ast.walk(fn) if isinstance(n, ast.Name) and isinstance(n.ctx, ast.Store) and n.id not in params]
    stores.sort(key=lambda n: (n.lineno, n.col_offset))
    local = {n.id for n in stores}
    seen, out = set(), []
    for n in stores:
        if n.id in seen:
            continue
        seen.add(n.id)
        st = n
        while not isinstance(st, (ast.stmt, ast.comprehension)) and getattr(st, "_parent", None) is not None:
            st = st._parent
        try:
            if isinstance(st, (ast.For, ast.AsyncFor)):
                core = ast.unparse(_Anon(local).visit(ast.parse(ast.unparse(st.iter), mode="eval").body))
                sig = "for:" + core
            elif isinstance(st, ast.comprehension):
                sig = "comp:" + ast.unparse(_Anon(local).visit(ast.parse(ast.unparse(st.iter), mode="eval").body))
            elif isinstance(st, (ast.Assign, ast.AugAssign, ast.AnnAssign)) and st.value is not None:
                sig = type(st).__name__ + ":" + ast.unparse(_Anon(local).visit(ast.parse(ast.unparse(st.value), mode="eval").body))
            else:
                sig = type(st).__name__
        except Exception:
            sig = type(st).__name__
        out.append((n.id, sig))
    return out


def build_table(repo_root: Path, units):
    table = {}
    for rel in units:
        p = repo_root / rel
        if p.is_symlink() or not p.exists():
            continue
        tree = ast.parse(p.read_text())
        for node in ast.walk(tree):
            for ch in ast.iter_child_nodes(node):
                ch._parent = node
        entry = {}

        def visit(body, prefix):
            for st in body:
                if isinstance(st, ast.ClassDef):
                    visit(st.body, prefix + st.name + ".")
                elif isinstance(st, (ast.FunctionDef, ast.AsyncFunctionDef)):
                    q = prefix + st.name
                    if any(ast.unparse(d).endswith(".setter") for d in st.decorator_list):
                        q += ".setter"
                    if not has_nested_scope(st):
                        b = bindings(st)
                        if b:
                            entry[q] = b
        visit(tree.body, "")
        if entry:
            table[rel] = entry
    return table


def load_table():
    global _cache
    if _cache is None:
        try:
            _cache = json.loads(TABLE.read_text())
        except (OSError, ValueError):
            _cache = {}
    return _cache


def normalise(rel, fn, qual):
    """rename the locals of fn (in place) back to the reference names where a valid alignment exists -> mapping used"""
    ref = load_table().get(rel, {}).get(qual)
    if not ref or has_nested_scope(fn):
        return {}
    cur = bindings(fn)
    cur_names, ref_names = [c[0] for c in cur], [r[0] for r in ref]
    if cur_names == ref_names or set(cur_names) == set(ref_names):
        return {}
    pairs = []
    if len(cur) == len(ref):
        pairs = list(zip(cur_names, ref_names))
    else:
        sm = difflib.SequenceMatcher(a=[c[1] for c in cur], b=[r[1] for r in ref], autojunk=False)
        for blk in sm.get_matching_blocks():
            for k in range(blk.size):
                pairs.append((cur_names[blk.a + k], ref_names[blk.b + k]))
    mapping = {c: r for c, r in pairs if c != r}
    if not mapping:
        return {}
    # valid alpha-renaming: injective, and no new name may collide with a name the function already uses
    used = {n.id for n in ast.walk(fn) if isinstance(n, ast.Name)} | params_of(fn)
    ok = {}
    for c, r in mapping.items():
        if r in ok.values():
            continue
        if r in used and r not in mapping:      # r is in use and is not itself renamed away
            continue
        ok[c] = r
    # renaming chains (a->b while b->c) are fine when applied simultaneously
    for n in ast.walk(fn):
        if isinstance(n, ast.Name) and n.id in ok:
            n.id = ok[n.id]
    return ok


# ---------------------------------------------------------------------------------------------------------
# temporaries that the reference tree does not have: `tmp = <pure expr>` immediately followed by the only
# statement that reads `tmp` is the same computation as that statement with the expression written in place
PURE_CALL_ROOTS = {"np", "numpy", "math", "len", "range", "min", "max", "abs", "int", "float", "slice", "tuple", "list"}


PURE_METHODS = {"conj", "conjugate", "copy", "flatten", "ravel", "reshape", "transpose", "astype", "sum", "min", "max", "any", "all",
                "index", "count", "Get_size", "Get_rank", "keys", "values", "items", "get", "dot", "mean", "prod", "cumsum", "tolist"}


def _pure(e):
    for n in ast.walk(e):
        if isinstance(n, ast.Call):
            f = n.func
            root = f
            while isinstance(root, ast.Attribute):
                root = root.value
            pure_method = isinstance(f, ast.Attribute) and f.attr in PURE_METHODS
            if not (isinstance(root, ast.Name) and root.id in PURE_CALL_ROOTS) and not pure_method:
                return False
        elif isinstance(n, (ast.Lambda, ast.ListComp, ast.GeneratorExp, ast.DictComp, ast.SetComp, ast.Yield, ast.Await, ast.NamedExpr,
                            ast.Starred)):
            return False
    return True


class _Subst(ast.NodeTransformer):
    def __init__(self, name, expr):
        self.name, self.expr, self.n = name, expr, 0

    def visit_Name(self, node):
        if node.id == self.name and isinstance(node.ctx, ast.Load):
            self.n += 1
            new = ast.parse(ast.unparse(self.expr), mode="eval").body
            for x in ast.walk(new):
                ast.copy_location(x, node)
            return new
        return node


def inline_new_temps(rel, fn, qual):
    """-> names inlined"""
    ref = load_table().get(rel, {}).get(qual)
    if ref is None or has_nested_scope(fn):
        return []
    ref_names = {r[0] for r in ref}
    cur = bindings(fn)
    if len(cur) <= len(ref_names) and {c[0] for c in cur} <= ref_names:
        return []
    done = []
    changed = True
    while changed:
        changed = False
        loads, stores = {}, {}
        for n in ast.walk(fn):
            if isinstance(n, ast.Name):
                (stores if isinstance(n.ctx, ast.Store) else loads).setdefault(n.id, []).append(n)
        for node in ast.walk(fn):
            for f in ("body", "orelse", "finalbody"):
                blk = getattr(node, f, None)
                if not isinstance(blk, list):
                    continue
                for k in range(len(blk) - 1):
                    st, nxt = blk[k], blk[k + 1]
                    if not (isinstance(st, ast.Assign) and len(st.targets) == 1 and isinstance(st.targets[0], ast.Name)):
                        continue
                    nm = st.targets[0].id
                    if nm in ref_names or len(stores.get(nm, [])) != 1 or len(loads.get(nm, [])) != 1 or not _pure(st.value):
                        continue
                    use = loads[nm][0]
                    if not any(use is x for x in ast.walk(nxt)) or isinstance(nxt, (ast.For, ast.While, ast.FunctionDef, ast.ClassDef)):
                        continue
                    # the next statement must not assign anything the expression reads before using it (single statement: only
                    # its own targets, evaluated after the value) - safe for Assign/AugAssign/Expr/Return/If-test
                    if isinstance(nxt, ast.If):
                        if not any(use is x for x in ast.walk(nxt.test)):
                            continue
                        nxt.test = _Subst(nm, st.value).visit(nxt.test)
                    elif isinstance(nxt, (ast.Assign, ast.AugAssign, ast.Expr, ast.Return, ast.Assert)):
                        blk[k + 1] = _Subst(nm, st.value).visit(nxt)
                    else:
                        continue
                    del blk[k]
                    done.append(nm)
                    changed = True
                    break
                if changed:
                    break
            if changed:
                break
    return done
