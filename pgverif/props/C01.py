"""C01 - layout transposes preserve the global field (LayoutHandler).

Decides (DESIGN 5/C01): D1 source intact with a spare buffer, D2 the result lands
in `dest` on every path (field-location flow, route lengths 1..7, shown 2-periodic),
D3 no stale read / clobber, D4 layout book-keeping advances with the data, D5 view
extents, G1 packer/unpacker/buffer-size geometry agreement, G2 communicator and
axis agreement between pack, exchange and unpack, G3 axis-role discipline after the
0<->a0 swap, P1 transposition permutations map source axes onto destination axes.
"""
from __future__ import annotations

import ast

from ..core import src, AnalysisError, parent
from ..resolve import Program, inline_locals, expand
from .. import units as U
from ..bufflow import Interp, State, Tok, Roots, Sym, OPAQUE
from ..geometry import ShapeFlow, canon_product
from .. import permcheck

CLS = "LayoutHandler"
ROUTE_LENGTHS = list(range(1, 8))


def entry_state(buf_given: bool):
    env = {"source": Roots({"source"}), "dest": Roots({"dest"}),
           "buf": Roots({"buf"}) if buf_given else None,
           "source_name": Sym("name", "source_name"), "dest_name": Sym("name", "dest_name"), "self": OPAQUE,
           "<lay_dst>": None, "<lay_src>": None}
    return State(env, Tok(loc="source", layout=Sym("name", "source_name")))


def unwrap(x):
    while isinstance(x, Sym) and x.kind == "layout":
        x = x.arg
    return x


def flow_check(chk, prog, rel, cls, entry="transpose", extra_final=None):
    """run the field-location flow over cls.transpose for buf in {None, given} x route lengths"""
    mod = chk.mod(rel)
    fn = mod.func(f"{cls}.{entry}")
    summary = {}
    n_paths = 0
    for buf_given in (False, True):
        for n in ROUTE_LENGTHS:
            it = Interp(prog, rel, cls, chk, {"nSteps": n}, assume_false={"self._buffer_size == 0"},
                        contract_funcs=("transpose",))
            st = entry_state(buf_given)
            it.stack.append(f"{cls}.{entry}")
            outs = it.run(fn, st, f"{cls}.{entry}")
            for q in it.executed:
                chk.functions.add(f"{rel}:{q}")
            bdesc = "buf given" if buf_given else "buf=None"
            finals = []
            for o in outs:
                t = o.tok
                if "<raises>" in t.assumed:
                    continue
                n_paths += 1
                path = "; ".join(a for a in t.assumed) or "-"
                same = bool(o.env.get("<same-name>"))
                # D3/D4/D5 problems recorded along the path
                for kind, msg, line, construct, fq in t.problems:
                    rule = {"stale-read": "D3-no-stale-read", "clobber": "D3-no-clobber",
                            "layout-bookkeeping": "D4-layout-bookkeeping", "extent": "D5-view-extent"}.get(kind)
                    if rule is None:
                        chk.ob("D0-flow-undecided", None, construct, None, f"{msg} [{bdesc}, route length {n}]",
                               file=rel, func=fq)
                        continue
                    o_ = chk.ob(rule, None, construct, False, f"{msg} [{bdesc}, route length {n}, path: {path}]",
                                file=rel, func=fq)
                    o_.line = line
                # D2 result location
                ok = (t.loc == "dest")
                chk.ob("D2-result-in-dest", fn, f"{cls}.{entry}[{bdesc}; {'route length %d' % n if not same else 'same layout'}; {path}]",
                       ok, "field ends in `dest`" if ok else
                       f"field ends in `{t.loc}`, the caller swaps its buffers assuming `dest` "
                       f"(trace: {[x[1] for x in t.trace][-4:]})", file=rel, func=f"{cls}.{entry}")
                # D4 final layout
                lay = unwrap(t.layout)
                expect = {repr(Sym("name", "dest_name")), repr(Sym("step", n - 1))}
                if same:
                    expect.add(repr(Sym("name", "source_name")))
                okl = repr(lay) in expect
                chk.ob("D4-final-layout", fn, f"{cls}.{entry}[{bdesc}; route length {n}; {path}]", okl,
                       "data is in the destination layout at exit" if okl else
                       f"data is in layout `{lay}` at exit, expected the destination layout", file=rel,
                       func=f"{cls}.{entry}")
                # D1 source intact
                if buf_given:
                    oks = "source" not in t.writes
                    chk.ob("D1-source-intact", fn, f"{cls}.{entry}[{bdesc}; route length {n}; {path}]", oks,
                           "source is not in the write set" if oks else
                           f"`source` is written although a spare buffer was supplied "
                           f"(writes {[x for x in t.trace if 'source' in x[3]][:2]})", file=rel, func=f"{cls}.{entry}")
                if extra_final:
                    extra_final(chk, o, bdesc, n, path, same)
                finals.append((t.loc, tuple(sorted(t.writes)), same, path.replace(str(n), "n")))
            summary[(buf_given, n)] = sorted(set((a, b, c) for a, b, c, d in finals))
    # 2-periodicity of the abstract result in the route length
    for buf_given in (False, True):
        for n in ROUTE_LENGTHS:
            if n >= 2 and n + 2 in ROUTE_LENGTHS:
                ok = summary[(buf_given, n)] == summary[(buf_given, n + 2)]
                chk.ob("D2-periodic", fn, f"{cls}.{entry}[{'buf given' if buf_given else 'buf=None'}; n={n} vs n+2]",
                       ok, "abstract final state depends only on the parity of the route length "
                       "(so the enumerated lengths cover all lengths)" if ok else
                       f"final states differ between route lengths {n} and {n + 2}: {summary[(buf_given, n)]} vs "
                       f"{summary[(buf_given, n + 2)]}", file=rel, func=f"{cls}.{entry}")
    chk.extra.setdefault("flow_paths", 0)
    chk.extra["flow_paths"] += n_paths
    return summary


# --------------------------------------------------------------------------
def geometry_check(chk, mod):
    rel = mod.rel
    pack = mod.func("LayoutHandler._extract_from_source")
    unpack = mod.func("LayoutHandler._rearrange_from_buffer")
    init = mod.func("LayoutHandler.__init__")
    for q in ("LayoutHandler._extract_from_source", "LayoutHandler._rearrange_from_buffer", "LayoutHandler.__init__"):
        chk.functions.add(f"{rel}:{q}")
    fp, fu, fi = ShapeFlow(pack), ShapeFlow(unpack), ShapeFlow(init)
    # packer: the block size used to advance through the send buffer
    if "size" not in fp.prods:
        raise AnalysisError("C01-G1: block size `size = np.prod(<shape list>)` not found in _extract_from_source")
    if "size" not in fu.prods:
        raise AnalysisError("C01-G1: transfer size `size = np.prod(<shape list>)` not found in _rearrange_from_buffer")
    envu = inline_locals(unpack)
    mpi = envu.get("mpi_size")
    chk.ob("G1-mpi-size-is-comm-size", unpack, "mpi_size", mpi is not None and src(mpi) == "comm.Get_size()",
           "mpi_size is the size of the communicator the exchange runs on", file=rel,
           func="LayoutHandler._rearrange_from_buffer")
    P = canon_product(fp.prods["size"][0], {})
    Uu = canon_product(fu.prods["size"][0], {})
    import sympy
    msz = sympy.Symbol("mpi_size")
    ok = P[0] == Uu[0] and P[1] == Uu[1] and sympy.expand(P[2] * msz - Uu[2]) == 0
    chk.ob("G1-geometry-pack-vs-unpack", unpack, "size = np.prod(source_shape)", ok,
           "Alltoall transfer size = (packed block size) x (communicator size), same base layout and overridden axes"
           if ok else f"packer block {P} x mpi_size != unpacker transfer {Uu}", file=rel,
           func="LayoutHandler._rearrange_from_buffer", facts={"packer": str(P), "unpacker": str(Uu)})
    # the packer advances by exactly one block per destination rank: `start += size` per iteration, or start = k*size
    from ..core import increment_of, same_expr
    adv = [increment_of(n) for n in ast.walk(pack) if isinstance(n, (ast.Assign, ast.AugAssign)) and increment_of(n) and increment_of(n)[0] == "start"]
    okadv, whyadv = None, "how the packer advances through the send buffer was not recognised"
    if len(adv) == 1:
        okadv = src(adv[0][1]) == "size"
        whyadv = "packer advances by one block per destination rank" if okadv else \
            f"packer advances by `{src(adv[0][1])}` per destination rank, not by the block size `size`"
    elif not adv:
        sets = [n for n in ast.walk(pack) if isinstance(n, ast.Assign) and src(n.targets[0]) == "start" and isinstance(n.value, ast.BinOp)
                and isinstance(n.value.op, ast.Mult)]
        lp_idx = set()
        for lp_ in [n for n in ast.walk(pack) if isinstance(n, ast.For)]:
            if isinstance(lp_.iter, ast.Call) and src(lp_.iter.func) == "range" and isinstance(lp_.target, ast.Name):
                lp_idx.add(lp_.target.id)
            if isinstance(lp_.iter, ast.Call) and src(lp_.iter.func) == "enumerate" and isinstance(lp_.target, ast.Tuple) \
                    and isinstance(lp_.target.elts[0], ast.Name):
                lp_idx.add(lp_.target.elts[0].id)
        if len(sets) == 1 and any(same_expr(sets[0].value, f"{k} * size") for k in lp_idx):
            okadv, whyadv = True, "block k of the send buffer starts at k x block size"
    chk.ob("G1-packer-advance", pack, "start += size", okadv, whyadv, file=rel, func="LayoutHandler._extract_from_source")

    # which per-rank tables the packer and the unpacker read
    def tables(fn_):
        return [n for n in ast.walk(fn_) if isinstance(n, ast.Call) and isinstance(n.func, ast.Attribute)
                and n.func.attr in ("mpi_lengths", "mpi_starts")]
    for fn_, q_, lay_, rule, what in ((pack, "LayoutHandler._extract_from_source", "layout_dest", "G1-packer-table",
                                       "packer splits the source block by the destination layout's lengths/starts along the swapped process axis"),
                                      (unpack, "LayoutHandler._rearrange_from_buffer", "layout_source", "G1-unpacker-table",
                                       "unpacker places each received block by the source layout's lengths/starts along axis[0]")):
        tb = tables(fn_)
        wrong = [src(n) for n in tb if src(n.func.value) != lay_ or not n.args or src(n.args[0]) != "axis[0]"]
        kinds = {n.func.attr for n in tb}
        okt = False if wrong else (True if kinds == {"mpi_lengths", "mpi_starts"} else None)
        chk.ob(rule, tb[0] if tb else fn_, f"mpi_lengths/mpi_starts of {lay_} along axis[0]", okt,
               what if okt else (f"per-rank tables taken from {wrong}: not the {lay_} tables of the swapped process axis" if wrong else
                                 "per-rank lengths/starts tables not found"), file=rel, func=q_)
    # received blocks sit at a uniform, padded stride in the receive buffer (as the packer laid them out), whatever their true length
    envu2 = inline_locals(unpack)
    lp_r = [n for n in ast.walk(unpack) if isinstance(n, ast.For) and isinstance(n.iter, ast.Call) and src(n.iter.func) == "range"
            and isinstance(n.target, ast.Name)]
    st_b = [n for n in ast.walk(unpack) if isinstance(n, ast.Assign) and src(n.targets[0]).replace(" ", "") == "bufRanges[0]"]
    oko, whyo = None, "offset of the received block in the buffer not recognised"
    if len(st_b) == 1 and lp_r:
        rv = lp_r[0].target.id
        v = st_b[0].value
        for _ in range(3):
            if isinstance(v, ast.Name):
                loc = [n for n in ast.walk(unpack) if isinstance(n, ast.Assign) and src(n.targets[0]) == v.id]
                if len(loc) == 1:
                    v = loc[0].value
                    continue
            break
        if isinstance(v, ast.Call) and src(v.func) == "slice" and len(v.args) == 2:
            a0 = v.args[0]
            for _ in range(3):
                if isinstance(a0, ast.Name):
                    loc = [n for n in ast.walk(unpack) if isinstance(n, ast.Assign) and src(n.targets[0]) == a0.id]
                    if len(loc) == 1:
                        a0 = loc[0].value
                        continue
                break
            try:
                a0x = expand(a0, {k_: v_ for k_, v_ in envu2.items() if k_ != rv})
            except Exception:
                a0x = a0
            if same_expr(a0, f"layout_source.max_block_shape[axis[0]] * {rv}") or \
                    same_expr(a0x, f"layout_source.max_block_shape[axis[0]] * {rv}"):
                oko, whyo = True, "block r of the receive buffer starts at r x (padded block length of the concatenated axis)"
            else:
                t0 = src(a0).replace(" ", "")
                if "mpi_starts" in t0 or (isinstance(a0, ast.Subscript) and isinstance(a0.value, ast.Name) and
                                          any("mpi_starts" in src(n.value) for n in ast.walk(unpack)
                                              if isinstance(n, ast.Assign) and src(n.targets[0]) == a0.value.id)):
                    oko = False
                    whyo = (f"block r is read from the receive buffer at `{src(a0)}`, the start of the block in the UNPADDED partition, but the "
                            "sender packs every block with the padded length max_block_shape[axis[0]]: when the extent is not a multiple of "
                            "the number of processes the blocks are read from the wrong offsets and the field is corrupted")
    chk.ob("G1-unpacker-offset", st_b[0] if st_b else unpack, "bufRanges[0] = slice(r*max_block, r*max_block + length_r)", oko, whyo, file=rel,
           func="LayoutHandler._rearrange_from_buffer")
    # buffer size in __init__
    cands = [(v, sl) for v, (sl, ln) in fi.prods.items()]
    envi = inline_locals(init)
    found = None
    for n in ast.walk(init):
        if isinstance(n, ast.Assign) and isinstance(n.targets[0], ast.Name) and n.targets[0].id == "buffsize" \
                and isinstance(n.value, ast.BinOp) and isinstance(n.value.op, ast.Mult):
            found = n
    if found is None:
        asg = [n for n in ast.walk(init) if isinstance(n, ast.Assign) and src(n.targets[0]) == "self._buffer_size"]
        texts = " ".join(src(expand(n.value, envi)) for n in asg)
        bad_ = None
        if asg and "Get_size" not in texts and "max_block_shape" not in texts and "nprocs" not in texts:
            bad_ = (f"the advertised buffer size is `{src(asg[-1].value)[:80]}`: it no longer depends on the exchange blocks. One Alltoall "
                    "step needs (padded source block x padded destination block x communicator size) elements, which exceeds the "
                    "largest local block whenever an extent is not a multiple of the number of processes: arrays of exactly "
                    "bufferSize elements are then too small for the transposes")
        chk.pat("G1-geometry-bufsize", asg[-1] if asg else init, "buffsize = np.prod(blockshape) * comm size, per connected pair", False,
                "", bad_, file=rel, func="LayoutHandler.__init__")
        return fp, fu
    l, r = found.value.left, found.value.right
    if not (isinstance(l, ast.Call) and src(l.func) == "np.prod"):
        l, r = r, l
    okc = isinstance(r, ast.Call) and src(r.func) == "self._subcomms[axis[0]].Get_size"
    sl = fi.lists.get(src(l.args[0])) if isinstance(l, ast.Call) and l.args else None
    if sl is None:
        raise AnalysisError("C01-G1: block shape list of the buffer-size computation not recognised")
    I = canon_product(sl, {"l1": "layout_source", "l2": "layout_dest"})
    okg = I[0] == P[0] and I[1] == P[1] and sympy.expand(I[2] - P[2]) == 0
    chk.ob("G1-geometry-bufsize", found, src(found)[:100], okg and okc,
           "advertised buffer size = packed block x size of the communicator of the swapped axis" if okg and okc else
           f"buffer-size block {I} (comm factor ok={okc}) differs from the packer's block {P}", file=rel,
           func="LayoutHandler.__init__", facts={"init": str(I), "packer": str(P)})
    # monotone max
    mx = [n for n in ast.walk(init) if isinstance(n, ast.If) and src(n.test).replace(" ", "") in
          ("buffsize>self._buffer_size", "self._buffer_size<buffsize")]
    okm = bool(mx) and any(isinstance(a, ast.Assign) and src(a.targets[0]) == "self._buffer_size" and
                           src(a.value) == "buffsize" for a in mx[0].body)
    chk.ob("G1-bufsize-max", init, "self._buffer_size = max(...)", okm,
           "buffer size is the maximum over all compatible pairs" if okm else "buffer size is not maximised over pairs",
           file=rel, func="LayoutHandler.__init__")
    first = [n for n in ast.walk(init) if isinstance(n, ast.Assign) and src(n.targets[0]) == "self._buffer_size"]
    ok0 = bool(first) and ".size" in src(first[0].value)
    chk.ob("G1-bufsize-init", init, "self._buffer_size initial value", ok0,
           "initialised from a layout's block size (covers the single-layout case)", file=rel,
           func="LayoutHandler.__init__", nontrivial=False)
    return fp, fu


def comm_axis_check(chk, mod):
    """G2: pack, exchange and unpack of one step use the same axis object and the communicator of the swapped axis"""
    rel = mod.rel
    for q in ("LayoutHandler._transpose", "LayoutHandler._transpose_source_intact"):
        fn = mod.func(q)
        chk.functions.add(f"{rel}:{q}")
        env = inline_locals(fn)
        calls = {c.func.attr: c for c in ast.walk(fn) if isinstance(c, ast.Call) and isinstance(c.func, ast.Attribute)
                 and c.func.attr in ("_extract_from_source", "_rearrange_from_buffer")}
        if len(calls) != 2:
            raise AnalysisError(f"C01-G2: pack/unpack calls not found in {q}")
        pk, up = calls["_extract_from_source"], calls["_rearrange_from_buffer"]
        same_axis = src(pk.args[4]) == src(up.args[4]) == "axis"
        cenv = {k: v for k, v in env.items() if k == "comm"}
        comm_p, comm_u = src(expand(pk.args[5], cenv)), src(expand(up.args[5], cenv))
        okc = comm_p == comm_u == "self._subcomms[axis[0]]"
        lay = src(pk.args[2]) == src(up.args[2]) == "layout_source" and src(pk.args[3]) == src(up.args[3]) == "layout_dest"
        ax = env.get("axis")
        okax = ax is not None and src(ax) == "self._get_swap_axes(layout_source, layout_dest)"
        chk.ob("G2-comm-axis-agreement", fn, f"pack/unpack in {q.split('.')[-1]}", same_axis and okc and lay and okax,
               "pack and unpack get the same axis triple, the same (source,dest) layouts, and the communicator "
               "of the swapped process axis" if same_axis and okc and lay and okax else
               f"axis same={same_axis}, comm pack={comm_p} unpack={comm_u}, layouts ok={lay}, axis def ok={okax}",
               file=rel, func=q)
        # the unpack reads what the pack wrote: 2nd arg of pack == 1st arg of unpack
        okb = src(pk.args[1]) == src(up.args[0])
        chk.ob("G2-pack-buffer-is-send-buffer", fn, f"{src(pk.args[1])} / {src(up.args[0])}", okb,
               "the buffer filled by the packer is the send buffer of the exchange", file=rel, func=q)


def swap_axes_def_check(chk, mod):
    """axis triple of _get_swap_axes matches its documented roles (positions in source/dest orderings)"""
    rel = mod.rel
    fn = mod.func("LayoutHandler._get_swap_axes")
    chk.functions.add(f"{rel}:LayoutHandler._get_swap_axes")
    apps = [src(c.args[0]) for c in ast.walk(fn) if isinstance(c, ast.Call) and isinstance(c.func, ast.Attribute)
            and c.func.attr == "append" and src(c.func.value) == "axis"]
    env = inline_locals(fn)
    want = ["i", "layout_source.dims_order.index(dest_dim)", "layout_dest.dims_order.index(source_dim)"]
    ok = apps == want
    sd, dd = None, None
    for n in ast.walk(fn):
        if isinstance(n, ast.Assign) and isinstance(n.targets[0], ast.Name):
            if n.targets[0].id == "source_dim":
                sd = src(n.value)
            if n.targets[0].id == "dest_dim":
                dd = src(n.value)
    ok = ok and sd == "layout_source.dims_order[i]" and dd == "layout_dest.dims_order[i]"
    loops = [n for n in ast.walk(fn) if isinstance(n, ast.For)]
    okl = bool(loops) and src(loops[0].iter) == "enumerate(self._nprocsList)"
    guard = [n for n in ast.walk(fn) if isinstance(n, ast.If)]
    okg = bool(guard) and src(guard[0].test).replace("(", "").replace(")", "") in (
        "n > 1 and source_dim != dest_dim", "source_dim != dest_dim and n > 1")
    chk.ob("G2-swap-axes-roles", fn, "axis = [i, src.index(dest_dim), dst.index(source_dim)]", ok and okl and okg,
           "axis[0] = swapped process axis, axis[1] = position in the source of the dimension distributed in the "
           "destination, axis[2] = position in the destination of the dimension distributed in the source"
           if ok and okl and okg else f"unexpected definition: appends={apps}, source_dim={sd}, dest_dim={dd}, "
           f"loop ok={okl}, guard ok={okg}", file=rel, func="LayoutHandler._get_swap_axes")


def swap_index_check(chk, mod, fp, fu):
    """G3: after positions 0 and axis[0] of a list were exchanged, a subscript by the
    pre-swap position axis[1] is only valid when axis[1] is neither 0 nor axis[0]."""
    rel = mod.rel
    comp = mod.func("LayoutHandler.compatible")
    ignores_extent1 = any(isinstance(n, ast.BoolOp) and any(src(v).replace(" ", "") in ("n>1", "1<n") for v in n.values)
                          for n in ast.walk(comp))
    count = 0
    for q, flow in (("LayoutHandler._extract_from_source", fp), ("LayoutHandler._rearrange_from_buffer", fu)):
        fnode = mod.func(q)
        env = inline_locals(fnode)
        pflow = permcheck.PermFlow(permcheck._Null(), rel, q, fnode, {})
        for lname, k, line, node, swaps in flow.subscripts:
            if not swaps:
                continue
            count += 1
            swapped_pos = set()
            for i, j, _ in swaps:
                swapped_pos |= {i, j}
            literal = k in swapped_pos
            # remap through a list that received the same exchange: P.index(x)
            kexp = expand(node.targets[0].slice, env, depth=1)
            remapped = False
            if isinstance(kexp, ast.Call) and isinstance(kexp.func, ast.Attribute) and kexp.func.attr == "index" \
                    and isinstance(kexp.func.value, ast.Name) and len(kexp.args) == 1:
                pw = pflow.perm.get(kexp.func.value.id)
                arg = src(kexp.args[0])
                t = permcheck.w_sym("t")
                if pw == t and arg == "axis[1]":
                    remapped = True            # position list: looks up a source position
                if pw == permcheck.w_mul(permcheck.w_sym("layout_source"), t) and arg == "layout_source.dims_order[axis[1]]":
                    remapped = True            # dimension list: looks up the dimension at that source position
            if literal or remapped:
                chk.ob("G3-axis-role-after-swap", node, src(node)[:100], True,
                       "subscript uses a post-swap position" if literal else
                       "pre-swap position is mapped through the exchanged ordering before it subscripts the exchanged list",
                       file=rel, func=q, nontrivial=remapped)
                continue
            # k is a pre-swap (source-axis) position
            guarded = not ignores_extent1
            chk.ob("G3-axis-role-after-swap", node, src(node)[:100], guarded,
                   f"`{lname}` had positions {sorted(swapped_pos)} exchanged, then is subscripted by the pre-swap "
                   f"position `{k}`; " + ("compatible() counts every process-grid direction, so `" + k +
                                          "` can coincide with neither exchanged position" if guarded else
                                          "compatible()/_get_swap_axes ignore process-grid directions of extent 1, so `" + k +
                                          "` == 0 != axis[0] is reachable (grid (1,n), e.g. poloidal->flux_surface): "
                                          "the wrong axis of the block is restricted"), file=rel, func=q)
    if count < 2:
        raise AnalysisError("C01-G3: fewer than 2 post-swap subscripts found (rule would pass vacuously)")


def run(chk):
    chk.explanation = (
        "Field-location flow over LayoutHandler.transpose and everything it calls (abstract interpretation over "
        "buffer names: which root buffer each view aliases, which buffer holds the field, which layout the data is "
        "in), for buf in {None, given} x route lengths 1..7 (abstract result shown 2-periodic in the length) x all "
        "unresolved branch outcomes; plus symbolic shape-list agreement between buffer sizing, packer and "
        "unpacker, communicator/axis agreement, axis-role discipline after the 0<->axis[0] swap, and "
        "permutation-word typing of every np.transpose. Decides the structural necessary conditions of C01, not "
        "element-level index arithmetic beyond the permutation typing.")
    chk.assumptions += [
        "source, dest, buf are distinct non-overlapping arrays of at least bufferSize elements",
        "numpy view/copy contracts of DESIGN.md section 3 (np.split/basic slicing/reshape/transpose are views)",
        "Alltoall(s, r) reads s and writes r",
        "the route map lists the intermediate layouts ending with the destination (route construction is C06-B4's subject)",
        "not the plot-only rank (self._buffer_size != 0)",
    ]
    mod = chk.mod(U.LAYOUT)
    chk.in_file(U.LAYOUT)
    prog = Program(chk.repo, [U.LAYOUT])
    flow_check(chk, prog, U.LAYOUT, CLS)
    handler_contract(chk, mod)
    chk.floor("D2-result-in-dest", 14)
    chk.floor("D1-source-intact", 7)


def handler_contract(chk, mod):
    """the element-placement part of the handler's contract: geometry, axis roles, permutations, read-only route map"""
    fp, fu = geometry_check(chk, mod)
    comm_axis_check(chk, mod)
    swap_axes_def_check(chk, mod)
    swap_index_check(chk, mod, fp, fu)
    permcheck.check_layout_handler(chk, mod)
    # the cached route map is only read by the transposes
    from .. import lints
    for q in (f"{CLS}.transpose", f"{CLS}._transposeRedirect", f"{CLS}._transposeRedirect_source_intact"):
        f_ = mod.func(q)
        muts = lints.shared_state_mutations(f_, lambda s_: s_.startswith("self._route_map") or s_.startswith("self._layouts") or s_.startswith("self._handlers"))
        chk.ob("G2-no-shared-mutation", f_, f"{q} vs the cached route map", not muts,
               "the route map and layout tables are only read" if not muts else "; ".join(d for _, d in muts) +
               " - the stored route is shortened/changed by a transpose: the next transpose between the same layouts takes a wrong route",
               file=U.LAYOUT, func=q)
    # the Layout objects are shared by every transpose: the packer/unpacker never write through something a Layout hands out
    for q in (f"{CLS}._extract_from_source", f"{CLS}._rearrange_from_buffer", f"{CLS}._transpose", f"{CLS}._transpose_source_intact",
              f"{CLS}._get_swap_axes"):
        f_ = mod.func(q)
        muts = lints.shared_state_mutations(f_, lambda s_: s_.startswith(("layout_source.", "layout_dest.", "self._layouts", "self._route_map")))
        chk.ob("G2-no-shared-mutation", muts[0][0] if muts else f_, f"{q} vs the Layout objects", not muts,
               "nothing obtained from a Layout (shape, tables, cached slices) is modified" if not muts else "; ".join(d for _, d in muts) +
               " - the Layout object is shared: the next transpose from this layout starts from the modified value",
               file=U.LAYOUT, func=q)
    chk.floor("G1-", 6)
    chk.floor("G3-", 2)
    chk.floor("P1-", 4)
