import sys, os; sys.path.insert(0, os.getcwd())
import types
if 'mpi4py' not in sys.modules:
    try:
        import mpi4py.MPI  # noqa
    except Exception:
        m = types.ModuleType('mpi4py'); m.MPI = types.ModuleType('mpi4py.MPI')
        sys.modules['mpi4py'] = m; sys.modules['mpi4py.MPI'] = m.MPI
import numpy as np
import pygyro
assert os.path.abspath(pygyro.__file__).startswith(os.path.abspath(os.getcwd()) + os.sep), pygyro.__file__
from pygyro.splines.splines import BSplines, Spline1D
from pygyro.splines.spline_interpolators import SplineInterpolator1D

# ---------------- independent reference (own knots, Cox-de Boor, Gauss-Legendre) -------------


def ref_knots(breaks, p, periodic, cu=False):
    breaks = np.asarray(breaks, dtype=float)
    if cu and not periodic:
        # the uniform-cubic clamped space uses the unclamped uniform B-splines
        dx = (breaks[-1] - breaks[0]) / (len(breaks) - 1)
        return np.concatenate([breaks[0] - dx*np.arange(p, 0, -1), breaks, breaks[-1] + dx*np.arange(1, p+1)])
    if periodic:
        L = breaks[-1] - breaks[0]
        return np.concatenate([breaks[-p-1:-1] - L, breaks, breaks[1:p+1] + L])
    return np.concatenate([[breaks[0]]*p, breaks, [breaks[-1]]*p])


def ref_all_basis(T, p, x, last):
    """values of all len(T)-p-1 B-splines of degree p at x (right end closed if last)"""
    m = len(T) - 1
    N = np.zeros(m)
    for j in range(m):
        if T[j] <= x < T[j+1]:
            N[j] = 1.0
    if last and x == T[-1]:
        j = max(k for k in range(m) if T[k] < T[k+1])
        N[:] = 0.0
        N[j] = 1.0
    for q in range(1, p+1):
        M = np.zeros(m - q)
        for j in range(m - q):
            a = 0.0 if T[j+q] == T[j] else (x - T[j]) / (T[j+q] - T[j]) * N[j]
            b = 0.0 if T[j+q+1] == T[j+1] else (T[j+q+1] - x) / (T[j+q+1] - T[j+1]) * N[j+1]
            M[j] = a + b
        N = M
    return N


def ref_integrals(breaks, p, periodic, cu=False):
    T = ref_knots(breaks, p, periodic, cu)
    gx, gw = np.polynomial.legendre.leggauss(p // 2 + 2)
    I = np.zeros(len(T) - p - 1)
    for a, b in zip(breaks[:-1], breaks[1:]):
        for x, w in zip(gx, gw):
            I += 0.5*(b-a)*w*ref_all_basis(T, p, 0.5*(a+b) + 0.5*(b-a)*x, False)
    return I


def fold(I, n):
    out = np.array(I[:n], dtype=float)
    extra = np.asarray(I[n:], dtype=float)
    out[:len(extra)] += extra
    return out


def ref_weights(breaks, p, periodic, xg, cu=False):
    T = ref_knots(breaks, p, periodic, cu)
    n = len(breaks) - 1 if periodic else len(breaks) - 1 + p
    C = np.array([fold(ref_all_basis(T, p, x, True), n) for x in xg])
    return np.linalg.solve(C.T, fold(ref_integrals(breaks, p, periodic, cu), n))


def gl_integral_of_interpolant(basis, interp, ug):
    spl = Spline1D(basis)
    interp.compute_interpolant(ug, spl)
    gx, gw = np.polynomial.legendre.leggauss(basis.degree // 2 + 2)
    br = np.asarray(basis.breaks, dtype=float)
    tot = 0.0
    for a, b in zip(br[:-1], br[1:]):
        for x, w in zip(gx, gw):
            tot += 0.5*(b-a)*w*spl.eval(0.5*(a+b) + 0.5*(b-a)*x)
    return tot


def lib_knots(breaks, p, periodic):
    from pygyro.splines.splines import make_knots
    return make_knots(np.asarray(breaks, dtype=float), p, periodic)


def check_space(breaks, p, periodic, uniform_flag, rng, tol=2e-12, label='', ncalls=1, knots=None):
    """returns list of violation strings"""
    bad = []
    breaks = np.asarray(breaks, dtype=float)
    L = breaks[-1] - breaks[0]
    basis = BSplines(lib_knots(breaks, p, periodic) if knots is None else knots, p, periodic, uniform_flag)
    n = basis.nbasis
    cu = bool(uniform_flag and p == 3)
    Iref = ref_integrals(breaks, p, periodic, cu)
    for call in range(ncalls):
        interp = SplineInterpolator1D(basis)
        w = np.array(interp.get_quadrature_coefficients(), dtype=float)
        stored = np.array(basis.integrals, dtype=float)
        tag = '%s p=%d nc=%d per=%s uni=%s call=%d' % (label, p, len(breaks)-1, periodic, uniform_flag, call)
        if periodic:
            e = np.abs(fold(stored, n) - fold(Iref, n)).max()
        else:
            e = np.abs(stored - Iref).max()
        if not e <= tol*L:
            bad.append('%s: stored basis integrals differ from exact ones by %.3e' % (tag, e))
        wref = ref_weights(breaks, p, periodic, np.asarray(basis.greville, dtype=float), cu)
        scale = max(np.abs(wref).max(), L)
        e = np.abs(w - wref).max()
        if not e <= 50*tol*scale:
            bad.append('%s: weights differ from reference by %.3e' % (tag, e))
        e = abs(w.sum() - L)
        if not e <= 50*tol*scale:
            bad.append('%s: weights sum to %r, domain length %r' % (tag, w.sum(), L))
        if periodic and np.allclose(np.diff(breaks), L/(len(breaks)-1), rtol=1e-14, atol=0):
            e = np.abs(w - L/n).max()
            if not e <= 50*tol*L:
                bad.append('%s: uniform periodic weights not all equal (%.3e)' % (tag, e))
        for _ in range(2):
            ug = rng.standard_normal(n)
            q = w @ ug
            ex = gl_integral_of_interpolant(basis, interp, ug)
            if not abs(q - ex) <= 200*tol*scale*np.abs(ug).max()*max(1, n)**0.5:
                bad.append('%s: quadrature %r != integral of interpolant %r' % (tag, q, ex))
    return bad


def grids(rng):
    out = []
    for nc in (1, 2, 3, 4, 5, 7, 12):
        for (a, b) in ((-1.0, 1.0), (0.3, 7.1), (-5.0, -2.0)):
            u = np.linspace(a, b, nc+1)
            g = u.copy()
            if nc > 1:
                g[1:-1] += rng.uniform(-0.35, 0.35, nc-1)*(b-a)/nc
            out.append((u, True))
            out.append((g, False))
    return out


def standard_sweep(rng, ncalls=1):
    bad = []
    for breaks, is_uniform in grids(rng):
        nc = len(breaks) - 1
        for p in (1, 2, 3, 4, 5):
            for periodic in (False, True):
                if periodic and nc < p:
                    continue
                flags = (False, True) if is_uniform else (False,)
                for fl in flags:
                    bad += check_space(breaks, p, periodic, fl, rng, ncalls=ncalls)
    return bad


def main():
    rng = np.random.default_rng(11)
    # every space is used the way the library uses it: several interpolators (and several
    # requests for the weights) for one BSplines object
    bad = standard_sweep(rng, ncalls=3)
    # stored integrals must still be the true ones after the weights have been requested,
    # and the returned weights must not be tied to the basis
    for p in (1, 2, 3, 4, 5):
        breaks = np.sort(np.concatenate([[0.0, 2.0], rng.uniform(0.1, 1.9, 6)]))
        basis = BSplines(lib_knots(breaks, p, False), p, False, False)
        ref = ref_integrals(breaks, p, False)
        interp = SplineInterpolator1D(basis)
        w1 = np.array(interp.get_quadrature_coefficients())
        e = np.abs(np.asarray(basis.integrals) - ref).max()
        if not e <= 1e-12:
            bad.append('p=%d clamped: after get_quadrature_coefficients() the stored integrals are off by %.3e' % (p, e))
        w2 = np.array(interp.get_quadrature_coefficients())
        if not np.abs(w1 - w2).max() <= 1e-12:
            bad.append('p=%d clamped: second call gives different weights (%.3e)' % (p, np.abs(w1 - w2).max()))
    for b in bad[:20]:
        print('VIOLATION', b)
    print('%d violations' % len(bad))
    print('property C09', 'VIOLATED' if bad else 'holds')
    return 1 if bad else 0


if __name__ == '__main__':
    sys.exit(main())
