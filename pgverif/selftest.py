"""Self-test of the checkers on generated variants of the working tree (DESIGN 8).

Benign variants (behaviour-preserving AST rewrites of a scratch copy outside /repo and /verif)
must leave every check silent; breaking variants (the seeded patches under /verif/seeded) must
be reported by the check of the property they were written against.  Only the checkers run on
the variants; the repository code is never executed.
"""
from __future__ import annotations

import ast
import json
import os
import shutil
import subprocess
import sys
import tempfile
from concurrent.futures import ThreadPoolExecutor
from pathlib import Path

from .core import REPO, VERIF
from . import units as U

PY = sys.executable
VARIANT_FILES = {v for vs in U.VARIANTS.values() for v in vs}


# ------------------------------------------------------------------ benign rewriters
def rw_reformat(tree, rel):
    return tree


class _Commute(ast.NodeTransformer):
    """a*b -> b*a (numbers/arrays; never strings or sequences)"""

    def visit_BinOp(self, node):
        self.generic_visit(node)
        if isinstance(node.op, ast.Mult) and not any(isinstance(x, (ast.Constant, ast.List, ast.Tuple, ast.JoinedStr)) and
                                                      not isinstance(getattr(x, "value", 0), (int, float))
                                                      for x in (node.left, node.right)) \
                and not isinstance(node.left, (ast.List, ast.Tuple)) and not isinstance(node.right, (ast.List, ast.Tuple)):
            node.left, node.right = node.right, node.left
        return node


def rw_commute(tree, rel):
    return _Commute().visit(tree)


def rw_addcode(tree, rel):
    # annotated so that the pyccel kernels still translate with the extra function
    extra = ast.parse("def _pgv_unrelated_helper(value: 'float'):\n    return value\n").body[0]
    tree.body.append(extra)
    for st in tree.body:
        if isinstance(st, ast.ClassDef):
            st.body.append(ast.parse("def _pgv_unrelated_method(self):\n    return None\n").body[0])
    return tree


class _Rename(ast.NodeTransformer):
    def __init__(self, mapping):
        self.m = mapping

    def visit_Name(self, node):
        if node.id in self.m:
            node.id = self.m[node.id]
        return node


def rw_rename_some(tree, rel):
    return rw_rename(tree, rel, some=True)


def rw_rename(tree, rel, some=False):
    """rename the locals of every function that has no nested scopes: x -> x_rn"""
    for fn in [n for n in ast.walk(tree) if isinstance(n, ast.FunctionDef)]:
        inner = [n for n in ast.walk(fn) if n is not fn and isinstance(n, (ast.FunctionDef, ast.Lambda, ast.ClassDef))]
        if inner or any(isinstance(n, (ast.Global, ast.Nonlocal)) for n in ast.walk(fn)):
            continue
        params = {a.arg for a in fn.args.args + fn.args.kwonlyargs + fn.args.posonlyargs}
        if fn.args.vararg:
            params.add(fn.args.vararg.arg)
        if fn.args.kwarg:
            params.add(fn.args.kwarg.arg)
        stored = {n.id for n in ast.walk(fn) if isinstance(n, ast.Name) and isinstance(n.ctx, ast.Store)}
        # pyccel decorators name locals: @stack_array('basis', ...)
        named = set()
        for d in fn.decorator_list:
            for c in ast.walk(d):
                if isinstance(c, ast.Constant) and isinstance(c.value, str):
                    named.add(c.value)
        loc = {n for n in stored if n not in params and n not in named and not n.startswith("_")}
        if some:
            loc = {n for n in loc if sum(map(ord, n)) % 2 == 0}
        if not loc:
            continue
        mapping = {n: n + "_rn" for n in loc}
        for st in fn.body:
            _Rename(mapping).visit(st)
    return tree


class _InsertPass(ast.NodeTransformer):
    """a `pass` after every second statement of every function body block"""

    def _blk(self, body):
        out = []
        for k, st in enumerate(body):
            out.append(st)
            if k % 2 == 0 and not isinstance(st, (ast.Return, ast.Raise, ast.Break, ast.Continue)):
                out.append(ast.Pass())
        return out

    def generic_visit(self, node):
        super().generic_visit(node)
        if isinstance(node, (ast.FunctionDef, ast.For, ast.While, ast.If, ast.With)):
            for f in ("body", "orelse"):
                b = getattr(node, f, None)
                if b:
                    setattr(node, f, self._blk(b))
        return node


def rw_insert_pass(tree, rel):
    return _InsertPass().visit(tree)


class _ExpandAug(ast.NodeTransformer):
    """x += e  ->  x = x + e   for plain names (arrays updated in place keep their augmented form)"""

    def visit_AugAssign(self, node):
        if isinstance(node.target, ast.Name) and isinstance(node.op, (ast.Add, ast.Sub, ast.Mult)) and \
                isinstance(node.value, (ast.Constant, ast.Name)) and isinstance(getattr(node.value, "value", 1), (int, float)) and \
                node.target.id in ("i", "j", "k", "ti", "nLoops", "nprocs1", "new_n1", "start", "count"):
            return ast.copy_location(ast.Assign(targets=[ast.Name(id=node.target.id, ctx=ast.Store())],
                                                value=ast.BinOp(left=ast.Name(id=node.target.id, ctx=ast.Load()), op=node.op, right=node.value)), node)
        return node


def rw_expand_aug(tree, rel):
    return _ExpandAug().visit(tree)


def rw_doc_and_unused(tree, rel):
    """a docstring for every function that has none, and an unused local at the top of every non-kernel function"""
    kernel = rel in U.KERNELS
    for fn in [n for n in ast.walk(tree) if isinstance(n, ast.FunctionDef)]:
        has_doc = fn.body and isinstance(fn.body[0], ast.Expr) and isinstance(fn.body[0].value, ast.Constant) and isinstance(fn.body[0].value.value, str)
        new = []
        if not has_doc:
            new.append(ast.Expr(value=ast.Constant(value="Documented by the self-test.")))
        if not kernel and not any(isinstance(d, ast.Name) and d.id in ("property", "staticmethod") or isinstance(d, ast.Attribute) for d in fn.decorator_list):
            k = 1 if has_doc else 0
            fn.body[k:k] = [ast.Assign(targets=[ast.Name(id="pgv_unused_local", ctx=ast.Store())], value=ast.Constant(value=0))]
        fn.body[0:0] = new
    return tree


class _ExtractTemp(ast.NodeTransformer):
    """x = a <op> b  (a compound)  ->  pgv_tmpN = a ; x = pgv_tmpN <op> b    in plain function bodies"""

    def __init__(self):
        self.k = 0

    def _blk(self, body):
        out = []
        for st in body:
            if isinstance(st, ast.Assign) and len(st.targets) == 1 and isinstance(st.value, ast.BinOp) and \
                    isinstance(st.value.left, (ast.BinOp, ast.Call, ast.Subscript)) and self.k % 3 == 0 and \
                    not any(isinstance(n, (ast.Lambda, ast.ListComp, ast.GeneratorExp)) for n in ast.walk(st)):
                nm = f"pgv_tmp{self.k}"
                out.append(ast.Assign(targets=[ast.Name(id=nm, ctx=ast.Store())], value=st.value.left))
                st.value.left = ast.Name(id=nm, ctx=ast.Load())
            if isinstance(st, ast.Assign):
                self.k += 1
            out.append(st)
        return out

    def generic_visit(self, node):
        super().generic_visit(node)
        if isinstance(node, (ast.FunctionDef, ast.For, ast.While, ast.If, ast.With)):
            for f in ("body", "orelse"):
                b = getattr(node, f, None)
                if b:
                    setattr(node, f, self._blk(b))
        return node


def rw_extract_temp(tree, rel):
    if rel in U.KERNELS:
        return tree          # pyccel needs declared stack arrays etc.; kernels are left alone
    return _ExtractTemp().visit(tree)


BENIGN = {"reformat": rw_reformat, "commute-mult": rw_commute, "add-unrelated-code": rw_addcode, "rename-locals": rw_rename,
          "rename-some-locals": rw_rename_some, "insert-pass": rw_insert_pass, "extract-temporary": rw_extract_temp, "docstring-and-unused-local": rw_doc_and_unused, "expand-augassign": rw_expand_aug}


def make_variant(name, dst: Path):
    shutil.copytree(REPO, dst, ignore=shutil.ignore_patterns(".git", "__pycache__", "*.egg-info", "__pyccel__"), symlinks=True)
    rw = BENIGN[name]
    for rel in U.ALL_UNITS:
        p = dst / rel
        if p.is_symlink():
            continue
        if rel in VARIANT_FILES and True:
            # the pythran copies carry their export signatures in comments, which ast.unparse drops
            continue
        src = p.read_text()
        tree = ast.parse(src)
        tree = rw(tree, rel)
        ast.fix_missing_locations(tree)
        p.write_text(ast.unparse(tree) + "\n")


def run_checks(root: Path, pids, evdir: Path, jobs=8):
    def one(pid):
        env = dict(os.environ, PGVERIF_REPO=str(root), PGVERIF_EVIDENCE_DIR=str(evdir), PGVERIF_NO_SELFTEST="1", VERIF_TIER="quick")
        p = subprocess.run([PY, "-m", "pgverif", "check", pid], cwd=str(VERIF), env=env, capture_output=True, text=True, timeout=1800)
        lines = [l for l in p.stdout.splitlines() if "VIOLATED" in l or l.startswith("ANALYSIS-ERROR")]
        return pid, p.returncode, lines
    with ThreadPoolExecutor(max_workers=jobs) as ex:
        return list(ex.map(one, pids))


def run_selftest(pids, jobs=8, verbose=True, variants=None, seeded=True, write=True):
    tmp = Path(tempfile.mkdtemp(prefix="pgverif_selftest_"))
    report = {"benign": {}, "breaking": {}}
    bad = 0
    try:
        for name in (variants or BENIGN):
            root = tmp / name
            make_variant(name, root)
            res = run_checks(root, pids, tmp / ("ev_" + name), jobs)
            report["benign"][name] = {pid: rc for pid, rc, _ in res}
            for pid, rc, lines in res:
                if rc != 0:
                    bad += rc == 1
                    if verbose:
                        print(f"benign variant `{name}`: {pid} exit={rc}")
                        for l in lines[:4]:
                            print("    " + l[:260])
            shutil.rmtree(root, ignore_errors=True)
        if seeded:
            sd = VERIF / "seeded"
            for d in sorted(sd.iterdir()) if sd.exists() else []:
                meta = json.loads((d / "meta.json").read_text())
                pid = meta["property"]
                if pid not in pids:
                    continue
                root = tmp / d.name
                shutil.copytree(REPO, root, ignore=shutil.ignore_patterns(".git", "__pycache__", "*.egg-info"), symlinks=True)
                subprocess.run(["git", "init", "-q", "."], cwd=root, capture_output=True)
                ap = subprocess.run(["git", "apply", "--whitespace=nowarn", str(d / "patch.diff")], cwd=root, capture_output=True, text=True)
                if ap.returncode != 0:
                    report["breaking"][d.name] = "patch does not apply"
                    if verbose:
                        print(f"seeded {d.name}: patch does not apply to the current tree")
                    shutil.rmtree(root, ignore_errors=True)
                    continue
                (_, rc, lines), = run_checks(root, [pid], tmp / ("ev_" + d.name), 1)
                report["breaking"][d.name] = rc
                if rc != 1:
                    # documented exceptions (meta.json `accepted_own_check`): exit 2 = the check says "cannot decide" (fails closed,
                    # deciding needs run-time values); exit 0 only when the defect is the subject of ANOTHER property whose check
                    # is run here and must report it
                    acc = meta.get("accepted_own_check") or {}
                    ok = False
                    if acc.get("exit") == rc == 2:
                        ok = True
                    elif acc.get("exit") == rc == 0 and acc.get("reported_by"):
                        others = run_checks(root, list(acc["reported_by"]), tmp / ("evx_" + d.name), 1)
                        ok = any(r == 1 for _, r, _ in others)
                    if ok:
                        report.setdefault("accepted", {})[d.name] = {"exit": rc, "reason": acc.get("reason", ""),
                                                                      "reported_by": acc.get("reported_by", [])}
                        if verbose:
                            print(f"seeded {d.name}: not reported by {pid} (exit {rc}) - accepted: {acc.get('reason', '')[:160]}")
                    else:
                        bad += 1
                        if verbose:
                            print(f"seeded {d.name}: NOT reported by {pid} (exit {rc})")
                shutil.rmtree(root, ignore_errors=True)
        # behaviour-preserving refactorings written by independent engineers: never a violation (exit 1); exit 0 is the aim,
        # exit 2 (cannot decide the restructured code) is tolerated and counted
        report["neutral"] = {}
        nd = VERIF / "seeded_neutral"
        for d in sorted(nd.iterdir()) if (seeded and nd.exists()) else []:
            meta = json.loads((d / "meta.json").read_text())
            pid = meta["property"]
            if pid not in pids:
                continue
            root = tmp / d.name
            shutil.copytree(REPO, root, ignore=shutil.ignore_patterns(".git", "__pycache__", "*.egg-info"), symlinks=True)
            subprocess.run(["git", "init", "-q", "."], cwd=root, capture_output=True)
            ap = subprocess.run(["git", "apply", "--whitespace=nowarn", str(d / "patch.diff")], cwd=root, capture_output=True, text=True)
            if ap.returncode != 0:
                report["neutral"][d.name] = "patch does not apply"
                shutil.rmtree(root, ignore_errors=True)
                continue
            (_, rc, lines), = run_checks(root, [pid], tmp / ("ev_" + d.name), 1)
            report["neutral"][d.name] = rc
            if rc == 1:
                bad += 1
                if verbose:
                    print(f"neutral refactoring {d.name}: FALSE ALARM by {pid}")
                    for l in lines[:3]:
                        print("    " + l[:260])
            shutil.rmtree(root, ignore_errors=True)
    finally:
        shutil.rmtree(tmp, ignore_errors=True)
    nb = sum(1 for v in report["benign"].values() for rc in v.values() if rc == 0)
    tb = sum(len(v) for v in report["benign"].values())
    nk = sum(1 for rc in report["breaking"].values() if rc == 1)
    neu = report.get("neutral", {})
    n0 = sum(1 for rc in neu.values() if rc == 0)
    n2 = sum(1 for rc in neu.values() if rc == 2)
    n1 = sum(1 for rc in neu.values() if rc == 1)
    print(f"selftest: benign variants silent {nb}/{tb}; seeded changes reported {nk}/{len(report['breaking'])}; "
          f"neutral refactorings: {n0} silent, {n2} undecided, {n1} false alarms (of {len(neu)})")
    if write:
        (VERIF / "evidence").mkdir(exist_ok=True)
        (VERIF / "evidence" / "selftest.json").write_text(json.dumps(report, indent=1))
    return 0 if bad == 0 else 1
